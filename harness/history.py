"""Readers and connections in a PROCESS THAT HAS HISTORY.

C14 ("raises nothing but the documented protocol errors plus end-of-stream / timeout", "the connection's producer loop
keeps running"), C01 and C09's reader side quantify over byte sequences; the reader / producer they speak about lives in a
process in which earlier calls of `read()` were ABANDONED -- the reader's own READER_TIMEOUT through the real `@timeout`, a
caller-side `wait_for`, a plain cancellation, a connection closed / lost / shut down while its producer was reading -- at ANY
of the four suspension points of `read()`: waiting for the delimiter, for the rest of the header, for the body, and in
`await Frame.create(...)` while the executor job of helpers/factory (the import of the handler module) is still pending.
The awaiting task is cancelled there, and asyncio cancels the future it awaits with it (`run_in_executor`'s future is not
shielded; harness/vloop.py's controllable executor hands out a plain loop future, which behaves the same: see
`executor_semantics` below, checked against the real thread-pool executor on every run).

Whatever the library keeps beyond the reader object (module level, class level, the protocol object) is part of the history,
and it is only in its initial state in a process that has not built a frame of that handler module yet.  So every scenario
runs in a FRESH python process (a child of this harness), where the first use of a handler module can be the abandoned one:

  reader scenario   sessions on FrameReader objects (steps as in Model/ReaderSession.sessionX: bytes arrive | calls until one
                    blocks, which is abandoned | one call abandoned at Frame.create if it gets there), followed by noise and
                    valid frames of the SAME handler module and of the other two, on the same reader and on new ones
  connection        a real AsyncProtocol whose first connection is ended (reader time-out -> connection lost / tasks
                    cancelled / shutdown()) while its producer sits in Frame.create; then a second connection on the same
                    protocol object or on a fresh one, fed noise + valid frames

Judged: (spec) every call the harness did NOT abandon ends with a frame / None / a ProtocolError / OSError / TimeoutError --
anything else (CancelledError included: nobody cancelled that call) is a violation with the session history as the failing
input; the producer of the later connection is alive and connected at the end and the frames after the noise are in the
read queue.  (corr) the events equal `sessionX` of the Lean model: by C01.sessionX_next_call_is_read the outcome of the next
completed call after ANY history of abandoned calls is `readFrame` of (what arrived) minus (what was consumed): no residue.
"""
import asyncio
import json
import os
import random
import subprocess
import sys
from concurrent.futures import ThreadPoolExecutor

HERE = os.path.dirname(os.path.abspath(__file__))
MODULES = ("requests", "responses", "messages")
HOWS = ("timeout", "cancel", "wait_for")
ENDS = ("timeout", "cancel_tasks", "shutdown")
# which scenario kinds speak about which property (C14: all of them)
KINDS_FOR = {
    "C14": ("first-use-abandoned-at-create", "connection-ended-at-create", "random"),
    "C01": ("first-use-abandoned-at-create", "random"),          # what a reader with history hands out
    "C04": ("first-use-abandoned-at-create",),                   # valid frames after abandoned calls: each delivered, once, in order
    # the connection keeps working: later valid frames reach the read queue -- and the device: the consumer side goes through the
    # same helpers/factory (PhysicalDevice.create, import of the device class)
    "C09": ("connection-ended-at-create", "connection-ended-at-device-import"),
}


# ------------------------------------------------------------------------------------------------------------------
# child side: runs ONE scenario in a process that has not used pyplumio before

def _child_reader_session(sess, vloop, reader_mod):
    from pyplumio.exceptions import ProtocolError
    from pyplumio.stream import FrameReader

    steps, how = sess["steps"], sess["how"]

    async def main():
        loop = asyncio.get_running_loop()
        sr = asyncio.StreamReader()
        fr = FrameReader(sr)
        out = []
        st = dict(fed=0, before=0)

        def taken():
            n = st["fed"] - len(sr._buffer) - st["before"]
            st["before"] += n
            return n

        def record(t):
            """a call the harness did not abandon has ended"""
            if t.cancelled():
                out.append(["X", "CancelledError", taken()])
                return True
            exc = t.exception()
            if exc is None:
                f = t.result()
                if f is None:
                    out.append(["I", taken()])
                else:
                    fields = reader_mod._frame_fields(f)
                    out.append(["D"] + list(fields) + [taken()] if len(fields) == 6 else ["X", fields[0], taken()])
            elif isinstance(exc, ProtocolError):
                out.append(["E", type(exc).__name__, taken()])
            elif isinstance(exc, asyncio.TimeoutError):
                out.append(["T", taken()])
            elif isinstance(exc, OSError):
                out.append(["L", taken()])
                return False
            else:
                out.append(["X", type(exc).__name__, taken()])
            return True

        async def start(hold):
            loop.hold = hold
            coro = asyncio.wait_for(fr.read(), 3) if how == "wait_for" else fr.read()
            t = asyncio.ensure_future(coro)
            for _ in range(10000):
                await asyncio.sleep(0)
                if t.done() or sr._waiter is not None or loop.held:
                    break
            return t

        async def abandon(t):
            where = "create" if loop.held else "stream"
            if how == "cancel":
                t.cancel()
            elif how == "wait_for":
                await asyncio.sleep(4)           # the caller's own time-out (3 s, virtual time)
            else:
                await asyncio.sleep(11)          # READER_TIMEOUT is 10 s (virtual time): the real @timeout fires
            while loop.held:                     # the import in the thread finishes; its future is done (cancelled) by now
                loop.release()
            await asyncio.gather(t, return_exceptions=True)
            ended = "cancelled" if t.cancelled() else type(t.exception()).__name__ if t.exception() else "returned"
            out.append(["A", taken(), ended, where])

        alive = True
        for step in steps:
            if step[0] == "f":
                b = bytes.fromhex(step[1])
                sr.feed_data(b)
                st["fed"] += len(b)
            elif step[0] == "c":
                for _ in range(st["fed"] + 3):
                    t = await start(False)
                    if t.done():
                        alive = record(t)
                        if not alive:
                            break
                        continue
                    await abandon(t)
                    break
            else:
                t = await start(True)
                if t.done():
                    alive = record(t)
                    if out[-1][0] == "D":
                        out[-1][0] = "D*"        # delivered although the executor was held: Frame.create did not suspend in this call
                else:
                    await abandon(t)
            if not alive:
                break
        loop.hold = False
        if alive:
            sr.feed_eof()
            for _ in range(st["fed"] + 3):
                t = asyncio.ensure_future(fr.read())
                await asyncio.gather(t, return_exceptions=True)
                if not record(t):
                    break
        return out

    return main


class _Writer:
    def __init__(self):
        self.closed = False

    def write(self, b):
        pass

    async def drain(self):
        pass

    def close(self):
        self.closed = True

    async def wait_closed(self):
        pass


def _child_conn_session(sess, vloop, reader_mod):
    from pyplumio.protocol import AsyncProtocol

    first, second = bytes.fromhex(sess["first"]), bytes.fromhex(sess["second"])
    end, fresh, consumers = sess["end"], sess["fresh_protocol"], sess.get("consumers", 0)

    hold_what = sess.get("hold", "all")

    def hold_only(loop):
        """hold only the imports of frame handler modules / of device classes (as harness/pipefake.PipeLoop tells them apart)"""
        orig = type(loop).run_in_executor

        def rie(executor, func, *args):
            is_dev = any(isinstance(a, str) and ".devices" in a for a in args)
            prev = loop.hold
            loop.hold = prev and (is_dev == (hold_what == "devices"))
            try:
                return orig(loop, executor, func, *args)
            finally:
                loop.hold = prev
        loop.run_in_executor = rie

    def producer_of(proto):
        ts = [t for t in proto.tasks if t.get_name() == "frame_producer_task" and not t.done()]
        return ts[-1] if ts else None

    def drain(proto):
        got = []
        q = proto._queues.read
        while not q.empty():
            f = q.get_nowait()
            q.task_done()
            fields = reader_mod._frame_fields(f)
            got.append(["D"] + list(fields) if len(fields) == 6 else ["X", fields[0]])
        return got

    async def main():
        loop = asyncio.get_running_loop()
        out = dict(kind="conn")
        proto = AsyncProtocol(consumers_count=consumers)
        sr1, w1 = asyncio.StreamReader(), _Writer()
        loop.hold = True
        if hold_what != "all":
            hold_only(loop)
        proto.connection_established(sr1, w1)
        sr1.feed_data(first)
        for _ in range(3000):
            await asyncio.sleep(0)
            if loop.held:
                break
        out["first_at_create"] = bool(loop.held)
        out["first_delivered"] = drain(proto) if consumers == 0 else []
        if end == "timeout":
            await asyncio.sleep(11)              # READER_TIMEOUT -> TimeoutError -> connection_lost()
            for _ in range(50):
                await asyncio.sleep(0)
        elif end == "cancel_tasks":
            proto.cancel_tasks()
            await proto.wait_until_done()
        else:
            try:
                await asyncio.wait_for(proto.shutdown(), 200)
            except BaseException as e:  # noqa: BLE001
                out["shutdown_raised"] = type(e).__name__
        while loop.held:
            loop.release()
        loop.hold = False
        if hold_what != "all":
            del loop.run_in_executor
        for _ in range(20):
            await asyncio.sleep(0)
        p1 = producer_of(proto)
        out["first_producer_ended"] = p1 is None
        if consumers == 0:
            drain(proto)
        # the later connection
        proto2 = AsyncProtocol(consumers_count=consumers) if fresh else proto
        sr2, w2 = asyncio.StreamReader(), _Writer()
        proto2.connection_established(sr2, w2)
        prev = 0
        for c in list(sess.get("cuts") or []) + [len(second)]:
            if c > prev:
                sr2.feed_data(second[prev:c])
                prev = c
                for _ in range(30):
                    await asyncio.sleep(0)
        for _ in range(300):
            await asyncio.sleep(0)
        p2 = producer_of(proto2)
        out["alive"] = p2 is not None
        if p2 is None:
            ts = [t for t in proto2.tasks if t.get_name() == "frame_producer_task"]
            out["producer_state"] = [("cancelled" if t.cancelled() else repr(t.exception()) if t.done() else "pending") for t in ts] or ["gone"]
        out["connected"] = proto2.connected.is_set()
        if consumers == 0:
            out["delivered"] = drain(proto2)
        else:
            out["device"] = proto2.data.get("ecomax") is not None
            out["consumers_alive"] = sum(1 for t in proto2.tasks if t.get_name().startswith("frame_consumer_task") and not t.done())
            out["consumers_ended"] = [("cancelled" if t.cancelled() else repr(t.exception())) for t in proto2.tasks
                                      if t.get_name().startswith("frame_consumer_task") and t.done()]
            out["read_queue"] = [proto2._queues.read.qsize(), proto2._queues.read._unfinished_tasks]
        for pr in {id(proto): proto, id(proto2): proto2}.values():
            for t in list(pr.tasks):
                t.cancel()
            await asyncio.gather(*pr.tasks, return_exceptions=True)
            for d in pr.data.values():
                d.cancel_tasks()
                await asyncio.gather(*d.tasks, return_exceptions=True)
        return out

    return main


def child_main():
    sc = json.load(sys.stdin)
    sys.path.insert(0, HERE)
    from common import use_repo
    use_repo()
    import vloop
    import reader as reader_mod

    makers = []
    for sess in sc["sessions"]:
        makers.append((_child_conn_session if sess["kind"] == "conn" else _child_reader_session)(sess, vloop, reader_mod))
    outs = []
    if sc.get("one_loop"):
        async def every():
            for m in makers:
                outs.append(await m())
        vloop.run(every(), hold_executor=False)
    else:
        for m in makers:
            outs.append(vloop.run(m(), hold_executor=False))
    json.dump(outs, sys.stdout)


def run_fresh(scenarios, jobs=4):
    """each scenario in a python process of its own; returns the observations (or {"crash": text})"""
    env = dict(os.environ)

    def one(sc):
        p = subprocess.run([sys.executable, os.path.abspath(__file__), "--child"], input=json.dumps(sc), capture_output=True,
                           text=True, env=env, timeout=300)
        if p.returncode != 0:
            return dict(crash=(p.stderr or "")[-1500:])
        try:
            return json.loads(p.stdout)
        except ValueError:
            return dict(crash="unreadable answer: " + p.stdout[-500:])

    with ThreadPoolExecutor(jobs) as ex:
        return list(ex.map(one, scenarios))


# ------------------------------------------------------------------------------------------------------------------
# what asyncio does to the future of run_in_executor when its awaiter is cancelled: real executor vs vloop's

def executor_semantics():
    """(real, virtual): for each loop kind, is the future returned by run_in_executor cancelled when the task awaiting it is
    cancelled, and when that task is timed out by wait_for?  The two must agree, or the held executor job of harness/vloop.py
    would not stand for the real one in the abandoned-at-Frame.create histories."""
    import threading
    import vloop

    def probe(make_loop, held):
        res = []
        for how in ("cancel", "wait_for"):
            loop = make_loop()
            gate = threading.Event()
            box = {}

            async def waiter():
                box["fut"] = asyncio.get_running_loop().run_in_executor(None, gate.wait, 5)
                return await box["fut"]

            async def main():
                if how == "cancel":
                    t = asyncio.ensure_future(waiter())
                    await asyncio.sleep(0)
                    await asyncio.sleep(0)
                    t.cancel()
                    await asyncio.gather(t, return_exceptions=True)
                else:
                    try:
                        await asyncio.wait_for(waiter(), 0.05)
                    except asyncio.TimeoutError:
                        pass
                gate.set()
                if held:
                    while loop.held:
                        loop.release()
                await asyncio.sleep(0)
                return box["fut"].cancelled()

            try:
                asyncio.set_event_loop(loop)
                res.append(loop.run_until_complete(main()))
            finally:
                asyncio.set_event_loop(None)
                loop.close()
        return res

    return probe(asyncio.new_event_loop, False), probe(lambda: vloop.VirtualLoop(True), True)


# ------------------------------------------------------------------------------------------------------------------
# parent side: scenarios, model, judgement

def _frames_by_module():
    from common import use_repo
    use_repo()
    import framegen as fg
    from pyplumio.frames import get_frame_handler
    by = {m: [] for m in MODULES}
    for k in fg.FRAME_TYPES:
        by[get_frame_handler(k).split(".")[1]].append(k)
    return by


def _noise(rng, n):
    import framegen as fg
    mode = rng.choice(["uniform", "dense", "header"])
    if mode == "uniform":
        return bytes(rng.randrange(256) for _ in range(n))
    if mode == "dense":
        return bytes(rng.choice([0x68, 0x68, 0x16, 0x00, 0x0a, 0x56, 0x45, rng.randrange(256)]) for _ in range(n))
    out = bytearray()
    while len(out) < n:
        ln = rng.choice([7, 9, 10, 11, 12, 20, 1000, 1001, 0, rng.randrange(65536)])
        out += bytes([0x68, ln & 0xFF, ln >> 8, rng.choice([86, 0, 1, 69]), rng.choice(fg.DEVICES + [1]), 48, 5])
        out += bytes(rng.randrange(256) for _ in range(rng.randint(0, 12)))
    return bytes(out[:n])


def gen_scenarios(rng, tier, by):
    """yield (label, scenario)"""
    import framegen as fg
    quick = tier == "quick"

    def frame(mod, n=None, sender=None):
        return fg.mk(rng.choice(by[mod]), fg.salted_payload(rng, rng.choice([0, 1, 2, 5, 9]) if n is None else n),
                     rng.choice([86, 0]), rng.choice([69, 81, 86, 0]) if sender is None else sender)

    def later_sessions(mod, how):
        """new reader objects later in the same process: noise + valid frames of the same module and of the other two"""
        ss = []
        for _ in range(rng.choice([1, 2])):
            steps = []
            for m in rng.sample(MODULES, 3) if rng.random() < 0.7 else [mod]:
                steps.append(["f", (_noise(rng, rng.choice([0, 5, 40])) + frame(m) + (frame(m) if rng.random() < 0.5 else b"")).hex()])
                steps.append(rng.choice([["c"], ["c"], ["x"]]))
            steps.append(["f", frame(mod).hex()])
            steps.append(["c"])
            ss.append(dict(kind="reader", steps=steps, how=rng.choice(HOWS)))
        return ss

    # (a) the first use of a handler module in the process is a read() abandoned at the Frame.create hop -- for every module,
    #     every way of abandoning; calls abandoned at the three stream suspensions (delimiter / header / body) before it
    reps = 1 if quick else 6
    for _ in range(reps):
        for mod in MODULES:
            for how in HOWS:
                y = frame(mod)
                steps = []
                if rng.random() < 0.6:           # abandoned while waiting for the delimiter / inside the header / inside the body
                    for cut in rng.sample([0, rng.randint(1, 6), rng.randint(7, len(y) - 1)], rng.choice([1, 2, 3])):
                        steps += [["f", (_noise(rng, rng.choice([0, 4])).replace(b"\x68", b"\x69") + y[:cut]).hex()], ["c"]]
                steps += [["f", (_noise(rng, rng.choice([0, 0, 7, 30])) + y).hex()], ["x"]]
                # ... then noise and valid frames of the same module and of the others on the SAME reader
                for m in [mod] + rng.sample(MODULES, 3):
                    steps += [["f", (_noise(rng, rng.choice([0, 3, 25])) + frame(m)).hex()], rng.choice([["c"], ["c"], ["x"]])]
                steps += [["f", (y + frame(mod)).hex()], ["c"]]
                sc = dict(one_loop=rng.random() < 0.5, sessions=[dict(kind="reader", steps=steps, how=how)] + later_sessions(mod, how))
                yield "history:first-use-abandoned-at-create:%s:%s" % (mod, how), sc
    # (b) the same at connection level
    for _ in range(reps):
        for mod in MODULES:
            for end in ENDS:
                y = frame(mod)
                pre = _noise(rng, rng.choice([0, 0, 9, 40]))
                run = frame(rng.choice([mod, mod, rng.choice(MODULES)]))
                second = _noise(rng, rng.choice([0, 10, 60])) + run * rng.randint(2, 5) + frame(mod) + frame(rng.choice(MODULES))
                conn = dict(kind="conn", first=(pre + y).hex(), end=end, second=second.hex(), fresh_protocol=rng.random() < 0.4,
                            cuts=sorted(rng.sample(range(1, len(second)), 2)), consumers=0)
                sess = [conn]
                if rng.random() < 0.5:
                    sess.append(dict(conn, first=_noise(rng, 5).replace(b"\x68", b"\x69").hex(), fresh_protocol=True))
                sess += later_sessions(mod, "cancel")[:1]
                yield "history:connection-ended-at-create:%s:%s" % (mod, end), dict(one_loop=rng.random() < 0.5, sessions=sess)
    # (b') the consumer side of the same factory: the first connection's tasks are cancelled while a CONSUMER sits in
    #      PhysicalDevice.create (import of the device class held, frame imports not held); then a connection with consumers
    for _ in range(reps):
        for fresh in (False, True):
            y = fg.mk(rng.choice([25, 49, 50, 53, 8]), b"", rng.choice([86, 0]), 69)     # requests from the ecoMAX: no payload to decode
            second = _noise(rng, rng.choice([0, 10, 40])) + b"".join(fg.mk(rng.choice([25, 49, 50, 53, 8]), b"", 86, 69) for _ in range(rng.randint(2, 5)))
            conn = dict(kind="conn", first=y.hex(), end="cancel_tasks", second=second.hex(), fresh_protocol=fresh, cuts=[], consumers=rng.choice([1, 3]), hold="devices")
            yield "history:connection-ended-at-device-import:cancel_tasks", dict(one_loop=rng.random() < 0.5, sessions=[conn])
    # (c) random histories: every step kind, small pools (identical repeats), reader and connection sessions mixed
    for _ in range(6 if quick else 120):
        sess = []
        pool = [frame(rng.choice(MODULES)) for _ in range(3)]
        pool.append(pool[0][:rng.randint(1, len(pool[0]) - 1)])
        pool.append(_noise(rng, rng.choice([3, 20])))
        for _ in range(rng.randint(2, 4)):
            if rng.random() < 0.3:
                second = _noise(rng, rng.choice([0, 20])) + rng.choice(pool[:3]) * 3 + rng.choice(pool[:3])
                sess.append(dict(kind="conn", first=(rng.choice(pool) + rng.choice(pool[:3])).hex(), end=rng.choice(ENDS), second=second.hex(),
                                 fresh_protocol=rng.random() < 0.5, cuts=[], consumers=0))
            else:
                steps = []
                for _ in range(rng.randint(2, 8)):
                    r = rng.random()
                    steps.append(["f", rng.choice(pool).hex()] if r < 0.5 else ["c"] if r < 0.75 else ["x"])
                sess.append(dict(kind="reader", steps=steps, how=rng.choice(HOWS)))
        yield "history:random", dict(one_loop=rng.random() < 0.5, sessions=sess)


def _model_requests(scenarios):
    """driver requests for every session: `sessionx` for reader sessions, `read` for the later connection's stream"""
    from common import hexs
    reqs = []
    for sc in scenarios:
        for s in sc["sessions"]:
            if s["kind"] == "reader":
                reqs.append("sessionx " + ",".join("f" + hexs(bytes.fromhex(st[1])) if st[0] == "f" else st[0] for st in s["steps"]))
            else:
                reqs.append("read " + hexs(bytes.fromhex(s["second"])))
    return reqs


def driver_batch_one(line):
    from common import driver_batch
    return driver_batch([line])[0]


def judge(res, label, sc, obs, answers, prop):
    """obs: the child's answer for scenario sc; answers: the model's answers for its sessions (in order)"""
    import reader
    from common import hexs
    inp = dict(via="history", label=label, scenario=sc,
               how_to_read="a fresh python process runs the sessions in order. reader session steps: [f, hex] bytes arrive | [c] read() again "
                           "and again until a call blocks, which is abandoned (how) | [x] one read() with the executor job of Frame.create "
                           "held: abandoned there if it gets there. conn session: first connection fed `first` with the executor held, ended "
                           "by `end`, then a connection on the same / a fresh protocol fed `second`")
    if isinstance(obs, dict) and "crash" in obs:
        res.fail("spec", inp, "the sessions run", obs, "the process running the history died (an exception nobody is supposed to see escaped a read() / a producer)")
        return
    for si, (s, o, ans) in enumerate(zip(sc["sessions"], obs, answers)):
        at = dict(inp, failing_session=si)
        if s["kind"] == "reader":
            model = []
            for part in ans.split(";"):
                w = part.split(" ")
                model.append(("A", int(w[1])) if w[0] == "A" else reader.canon_model(reader.parse_model(part))[0])
            canon, pos = [], 0
            stream = b"".join(bytes.fromhex(st[1]) for st in s["steps"] if st[0] == "f")
            for e in o:
                n = e[1] if e[0] == "A" else e[-1]
                pos += n
                if e[0] == "D*":
                    # a tree on which Frame.create does not suspend in every call (say, the module is looked up without the executor
                    # once it is loaded): the call completed where the model's caller abandoned it.  Accepted when the delivery
                    # is justified by the bytes this call consumed (the C01 predicate, decided by the model's judge)
                    res.count("history:create-hop-did-not-suspend")
                    v = driver_batch_one(f"c01judge {hexs(stream[pos - n:pos])} {e[1]} {e[2]} {e[3]} {e[4]} {e[5]} {e[6]}")
                    if v != "pass":
                        res.fail("spec", at, "a delivery justified by the bytes that call consumed", dict(delivered=e, judge=v),
                                 "a frame delivered in a process with history is not justified by the bytes consumed for it (C01.spec)")
                    canon.append(("A", n))
                    continue
                if e[0] == "A":
                    canon.append(("A", e[1]))
                    res.count("history:abandoned-at-%s:%s" % (e[3], e[2]))
                    if e[2] not in ("cancelled", "TimeoutError"):
                        res.fail("spec", at, "TimeoutError / CancelledError", e, "an abandoned read() ended with something else than its time-out / cancellation")
                elif e[0] == "X":
                    canon.append(tuple(e))
                    res.fail("spec", at, "a frame / None / ProtocolError / OSError (end of stream) / TimeoutError", e,
                             "read() on a reader / in a process with abandoned earlier calls raised %s: not a documented protocol error, "
                             "end of stream or time-out (nobody cancelled THIS call)" % e[1])
                else:
                    canon.append(tuple(reader.canon_impl([tuple(e)])[0]))
                    res.count("history:outcome:" + e[0])
            if canon != model:
                res.fail("corr", at, [list(x) for x in model], [list(x) for x in canon],
                         "reader session model (sessionX; C01.sessionX_next_call_is_read: after any history of abandoned calls the next call is "
                         "readFrame of what arrived minus what was consumed) and the FrameReader in a process with history differ")
        else:
            want = [list(x[:7]) for x in reader.canon_model(reader.parse_model(ans)) if x[0] == "D"]
            got = o.get("delivered", [])
            res.count("history:first-connection-ended-at-create" if o.get("first_at_create") else "history:first-connection-ended-elsewhere")
            res.count("history:conn-end:" + s["end"])
            bad_loop = not o.get("alive") or not o.get("connected")
            if s.get("consumers"):
                res.count("history:first-connection-ended-at-device-import" if o.get("first_at_create") else "history:device-import-not-reached")
                to_device = any(x[3] == 69 for x in want)
                if bad_loop or o.get("consumers_alive") != s["consumers"] or (to_device and not o.get("device")) or o.get("read_queue") != [0, 0]:
                    res.fail("spec", at, dict(alive=True, connected=True, consumers_alive=s["consumers"], device=to_device, read_queue=[0, 0]), o,
                             "a connection opened after an earlier one's tasks were cancelled while a consumer sat in PhysicalDevice.create (device class "
                             "import pending): consumers died / the frames after the noise did not reach the device / the read queue is not balanced")
                continue
            if "shutdown_raised" in o:
                res.fail("spec", at, "shutdown() returns", o, "shutdown() of a connection whose producer sits in Frame.create raised / hung")
            if bad_loop or got != want[:len(got)] or len(got) < len(want) - 1:
                res.fail("spec" if bad_loop or len(got) < len(want) - 1 else "corr", at, dict(alive=True, connected=True, delivered=want), o,
                         "a connection opened after an earlier one was ended while its producer sat in Frame.create: the producer loop is "
                         "gone, or the frames after the noise did not reach the read queue")


def evaluate(res, rng, tier, prop, budget=None):
    from common import driver_batch
    real, virtual = executor_semantics()
    res.count("history:executor-semantics-checked")
    if real != virtual:
        res.fail("corr", dict(via="history-executor"), dict(real_executor_future_cancelled=real), dict(vloop_future_cancelled=virtual),
                 "harness/vloop.py's controllable executor does not treat the cancellation of an awaiter like the real run_in_executor")
    by = _frames_by_module()
    cases = list(gen_scenarios(rng, tier, by))
    want = KINDS_FOR.get(prop)
    if want:
        cases = [c for c in cases if c[0].split(":")[1] in want]
    if budget:
        cases = cases[:budget] if len(cases) <= budget else rng.sample(cases, budget)
    scs = [sc for _, sc in cases]
    obs = run_fresh(scs)
    answers = driver_batch(_model_requests(scs))
    k = 0
    for (label, sc), o in zip(cases, obs):
        n = len(sc["sessions"])
        res.case(json.dumps(sc, sort_keys=True), True)
        res.count("label:" + ":".join(label.split(":")[:2]))
        judge(res, label, sc, o, answers[k:k + n], prop)
        k += n


def replay_case(res, inp, prop):
    from common import driver_batch
    sc = inp["scenario"]
    obs = run_fresh([sc])[0]
    judge(res, inp.get("label", "history:replay"), sc, obs, driver_batch(_model_requests([sc])), prop)
    res.sample(dict(scenario=sc, observed=obs))


if __name__ == "__main__":
    if "--child" in sys.argv:
        child_main()

"""C16 over the wire: device set-up driven through a real AsyncProtocol (real StreamReader / FrameReader, read and write
queues, 1..3 frame consumers, the device created by `get_device_entry` on the first frame) against a scripted controller.

The device-level section (c16.py / setupm.py) hands frames to `EcoMAX.handle_frame` and reads the device's write queue; it
cannot see what lies between the bus and the device.  Here

  * the FIRST frames of the controller arrive as bytes: 1..4 sensor-data messages BACK-TO-BACK in one chunk, with the
    thread-pool loading of the device class held while they arrive (and then released) or not;
  * the client obtains "the device" the public way, `await protocol.get("ecomax")`, started before anything arrives, and
    reads `loaded`, `frame_errors` and the data from THAT object;
  * the requests are counted where the statement counts them: frames WRITTEN to the transport, per kind;
  * the controller answers a request of kind k on its `pat[k]`-th transmission (0 = never) with a response FRAME on the
    wire; for the kinds whose decoder accepts it (probed on the implementation: schedules, password) the answer may have an
    EMPTY body, i.e. a frame of the minimum legal length 10.

Judged by the Lean predicate `C16.spec` (`c16judge`) on what the client saw, and compared with the set-up machine
(`c16`) run on the same pattern (load time, error list, transmissions per kind, names available).
"""
import asyncio

from common import driver_batch
import framegen as fg
import pipefake
import setm
import setupm
import c09_logging

N = setupm.N
ECOMAX, ECONET = 69, 86
IDLE = fg.mk(186, b"\x04idle", rcpt=1, sender=ECOMAX)     # not for us: one producer cycle, nothing enqueued
SENSORS = fg.mk(int(setm.SensorDataMessage.frame_type), b"\x00" + setm.SENSOR_TAIL, rcpt=ECONET, sender=ECOMAX)
WINDOW_ORDER = [1, 2, 0, 3, 4, 5, 6, 7]
_EMPTY_OK = None


def empty_ok():
    """kinds whose response decoder accepts an EMPTY message body and provides the awaited name (asked of the implementation)"""
    global _EMPTY_OK
    if _EMPTY_OK is None:
        out = []
        for k in range(N):
            with pipefake.Driven() as loop:
                from pyplumio.devices.ecomax import EcoMAX
                from pyplumio.structures.network_info import NetworkInfo
                dev = EcoMAX(asyncio.Queue(), NetworkInfo())
                try:
                    # the state set-up answers meet: sensor data (thermostat / mixer counts) and product information handled
                    dev.handle_frame(setm.SensorDataMessage(sender=ECOMAX, message=bytearray(b"\x00" + setm.SENSOR_TAIL)))
                    loop.settle()
                    if k != 0:
                        dev.handle_frame(setupm.response_for(0))
                        loop.settle()
                    dev.handle_frame(type(setupm.response_for(k))(sender=ECOMAX, message=bytearray()))
                    loop.settle()
                    if setupm.NAMES[k] in dev.data:
                        out.append(k)
                except Exception:  # noqa: BLE001
                    pass
        _EMPTY_OK = out
    return _EMPTY_OK


def answer_bytes(k, empty):
    fr = setupm.response_for(k, True, False)
    return fg.mk(int(fr.frame_type), b"" if empty else bytes(fr.message), rcpt=ECONET, sender=ECOMAX)


def run_case(case):
    with c09_logging.Logging(case.get("log") or "default"):
        return _run_case(case)


def _run_case(case):
    """case = dict(pat=[0..3]*8, first=1..4, hold, consumers, empty=[kinds], order) -> observation dict"""
    pat, order = case["pat"], case.get("order") or WINDOW_ORDER
    empty = set(case.get("empty") or ())
    from pyplumio.protocol import AsyncProtocol
    with pipefake.Driven(hold_devices=bool(case.get("hold"))) as loop:
        proto = AsyncProtocol(consumers_count=case["consumers"])
        reader, writer = asyncio.StreamReader(), pipefake.FakeWriter()
        announced = []

        async def on_device(dev):
            announced.append(dev)

        proto.subscribe("ecomax", on_device)
        loop.call_soon(proto.connection_established, reader, writer)
        loop.settle()
        client = loop.create_task(proto.get("ecomax"))       # the client asks for the device before anything arrives
        loop.settle()
        state = dict(loaded_at=None)
        t0 = setm.ms(loop.time())
        reader.feed_data(SENSORS * case["first"])            # the first frames, back-to-back in one chunk
        loop.settle()
        guard = 0
        while loop.held and guard < 16:
            loop.hold_devices = False
            loop.release(0)
            loop.settle()
            guard += 1
        if not client.done():
            return dict(no_device=True, t0=t0)
        dev = client.result()

        async def on_loaded(v):
            if state["loaded_at"] is None:
                state["loaded_at"] = setm.ms(loop.time())

        dev.subscribe("loaded", on_loaded)
        if "loaded" in dev.data:
            state["loaded_at"] = setm.ms(loop.time())
        seen_written = 0
        tx = [0] * N
        answers = [None] * N
        other = []
        deadline = t0 + 9000

        def pump():
            """let every queued frame reach the transport (one is written per read cycle), count the set-up requests"""
            nonlocal seen_written
            cyc = 0
            while not proto._queues.write.empty() and cyc < 200:
                reader.feed_data(IDLE)
                loop.settle()
                cyc += 1
            due = []
            for b in writer.frames[seen_written:]:
                if len(b) >= 10 and b[3] == ECOMAX and b[7] in setupm.REQ_TYPES:
                    k = setupm.REQ_TYPES.index(b[7])
                    tx[k] += 1
                    if tx[k] == pat[k]:
                        due.append(k)
                elif len(b) >= 10 and b[7] != 25:            # 25 = start master, written once per connection
                    other.append(b[7])
            seen_written = len(writer.frames)
            return due

        for _ in range(12):
            due = pump()
            for k in [k for k in order if k in due]:
                loop.settle(until=loop.time() + 0.125)
                answers[k] = setm.ms(loop.time())
                reader.feed_data(answer_bytes(k, k in empty))
                loop.settle()
            if due:
                continue
            if state["loaded_at"] is not None or setm.ms(loop.time()) > deadline:
                break
            nt = loop.next_timer()
            if nt is None:
                break
            loop.settle(until=nt)
        pump()
        errs = []
        for e in dev.data.get("frame_errors", []):
            try:
                errs.append(setupm.REQ_TYPES.index(int(e)))
            except (ValueError, TypeError):
                errs.append(99)
        shim = setupm.SetupRig.__new__(setupm.SetupRig)
        shim.device, shim.minimal, shim.mixers, shim.thermostats, shim.th_decodable = dev, set(), True, True, True
        present = "".join(
            "1" if (n in dev.data and (k in empty or shim.content_ok(k))) else "0" for k, n in enumerate(setupm.NAMES))
        return dict(t0=t0, loaded_at=state["loaded_at"], errors=errs if "loaded" in dev.data else None, tx=tx, answers=answers,
                    present=present, now=setm.ms(loop.time()), devices=len(announced), other=other,
                    client_is_entry=proto.data.get("ecomax") is dev)


def model_events(case):
    ev = ["s"]
    order = case.get("order") or WINDOW_ORDER
    for attempt in (1, 2, 3):
        for k in order:
            if case["pat"][k] == attempt:
                ev += ["w:125", f"a:{k}"]
        ev.append("t")
    return ev


def gen_cases(rng, n):
    eo = empty_ok()
    # nothing answered / everything answered at once, for every number of first frames, held and not
    for first in (1, 2, 3, 4):
        for hold in (False, True):
            for pat in ([0] * N, [1] * N):
                yield dict(pat=pat, first=first, hold=hold, consumers=3, empty=[], label="first-frames")
    # every kind that accepts an empty body answered with one: alone, together, on a later attempt
    for ks in [[k] for k in eo] + ([eo] if len(eo) > 1 else []):
        for pat in ([1] * N, [rng.choice([1, 2, 3]) for _ in range(N)]):
            yield dict(pat=pat, first=rng.choice([1, 2]), hold=rng.random() < 0.5, consumers=rng.choice([1, 2, 3]), empty=list(ks),
                       label="empty-body")
    for i in range(n):
        pat = [rng.randrange(4) for _ in range(N)]
        if i % 3 == 0:
            pat[0] = rng.choice([1, 1, 2, 3])         # product answered: every clause of the statement applies
        yield dict(pat=pat, first=rng.choice([1, 1, 2, 2, 3, 4]), hold=rng.random() < 0.5, consumers=rng.choice([1, 2, 3, 3]),
                   empty=[k for k in eo if rng.random() < 0.4], order=WINDOW_ORDER if rng.random() < 0.5 else rng.sample(range(N), N),
                   log=rng.choice(["default", "default", "debug", "info"]), label="pattern")


def show(o):
    ld = f"{o['loaded_at'] - o['t0']};{'.'.join(map(str, o['errors'])) if o['errors'] else '-'}" if o["loaded_at"] is not None and o["errors"] is not None else "-;-"
    return f"{o['present']};{','.join(map(str, o['tx']))};{ld}"


def evaluate(res, cases, tag="C16"):
    runs = [run_case(c) for c in cases]
    model = driver_batch("c16 1 " + " ".join(model_events(c)) for c in cases)
    jl, jidx = [], []
    for i, (c, o) in enumerate(zip(cases, runs)):
        if o.get("no_device"):
            continue
        errs = o["errors"] or []
        if any(e >= N for e in errs):
            continue
        jl.append("c16judge 1 %d 1 %s %s %s %s %s" % (
            o["t0"], o["loaded_at"] if o["loaded_at"] is not None else "-", ".".join(map(str, errs)) if errs else "-",
            ",".join("-" if a is None else str(a) for a in o["answers"]), ",".join(map(str, o["tx"])), o["present"]))
        jidx.append(i)
    verdict = dict(zip(jidx, driver_batch(jl)))
    for i, (c, o, m) in enumerate(zip(cases, runs, model)):
        inp = dict(via="protocol", **{k: v for k, v in c.items() if k != "label"})
        res.case(("protocol", tuple(c["pat"]), c["first"], bool(c["hold"]), c["consumers"], tuple(c.get("empty") or ()),
                  tuple(c.get("order") or ())), nontrivial=True)
        res.count("over-the-wire:" + c.get("label", "replay"))
        res.count(f"over-the-wire first frames back-to-back:{c['first']}" + (" (device class still loading)" if c["hold"] else ""))
        for k in c.get("empty") or ():
            if c["pat"][k]:
                res.count(f"over-the-wire empty-body answer (frame length 10) for kind {k}")
        if o.get("no_device"):
            res.fail("spec", inp, "the first frames create the device; get('ecomax') returns it", o, "the client never received a device object")
            continue
        if o["devices"] != 1 or not o["client_is_entry"]:
            res.fail("spec", inp, "one device is announced for the controller and the client holds it", dict(announced=o["devices"], client_holds_the_entry=o["client_is_entry"]),
                     "set-up ran on a device object the client does not hold (or on several): what the client sees as 'loaded' / "
                     "'frame_errors' is not the outcome of the requests on the wire")
        if o["other"]:
            res.fail("corr", inp, "only set-up requests are written", o["other"][:5], "unexpected frames written during set-up")
        v = verdict.get(i, "fail")
        obs = show(o)
        if v.startswith("full-only"):
            f11 = c["pat"][0] == 0 and (c["pat"][2] or c["pat"][5])
            res.count("over-the-wire literal data clause fails (F11 input)" if f11 else "over-the-wire literal data clause fails: other input")
            res.fail("spec", inp, "the data of every answered request is available (C16.specFull)", obs,
                     "the data of an answered request is not available: its handler waits for product information that was never answered",
                     **(dict(finding="F11") if f11 and v.endswith("F11-input") else {}))
        elif v != "pass":
            res.fail("spec", inp, "C16.spec on what the client saw (loaded within retries x timeout, failed list = unanswered kinds, "
                     "unanswered kinds written `retries` times, data of answered kinds available)", dict(observed=obs, answers=o["answers"], t0=o["t0"]),
                     "C16.spec violated by the implementation's observation (set-up driven over the wire)")
        # the machine on the same pattern: <groups>;<clock>;<bits>;<tx>;<loaded>;<errors>;<vtx>
        w = m.split(";")
        if m == "bad-op" or len(w) < 6:
            res.fail("corr", inp, "model answer", m, "driver rejected the c16 request")
            continue
        exp = f"{w[2]};{w[3]};{w[4]};{w[5]}"
        if exp != obs:
            res.fail("corr", inp, exp, obs, "Setup machine and set-up over a real AsyncProtocol differ (available;tx;loaded after;errors)")


def run_section(res, rng, n):
    evaluate(res, list(gen_cases(rng, n)))
    res.rule += ("; over the wire: set-up through a real AsyncProtocol (1..3 consumers) against a scripted controller -- 1..4 first sensor-data "
                 "frames back-to-back in one chunk (device class loading held or not), the client's device from get('ecomax'), requests "
                 "counted on the transport, answers as response frames incl. EMPTY bodies (frame length 10) for the kinds whose decoder "
                 "accepts one, logging configurations")


def replay_case(res, inp):
    evaluate(res, [dict(inp)])

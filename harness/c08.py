"""C08 correspondence: the real Parameter.set / update (ecoMAX, mixer, thermostat, schedule
parameters; with / without version tracking; executor answering synchronously or held) under
the virtual loop vs the Lean machine `SetM`, and the Lean judge `C08.spec` evaluated on what the
implementation did.

A case = (kind, tracking, hold, late, initial triple, start clock, event history).
`late`: the queued set requests are encoded only at the end of the run (as the producer does
when it finally writes them), i.e. after every report that was handled since they were queued.
"""
import itertools
import re
import multiprocessing
import os
import random

from common import Result, driver_batch, load_corpus
import setm

QUICK_RANDOM = 2500
THOROUGH_RANDOM = 40000
EXH_LEN = 7
EXH_LEN_HOLD = 6
T_EXH = 2000
EXH_RAW = 42      # the value requested in the exhaustive words (stale 10, third value 77)


# ----------------------------------------------------------------------------- cases
def mk_case(kind, tracking, hold, late, initial, start, events, label, via_device=False, display=None, fresh=None, route=None):
    """kind = target id of harness/setm.py (the four base ids are the kind names).
    fresh: Parameter.set on the object fetched from device.data right before each call; otherwise on the object the
    client got before the history (a KEPT handle, across every later report); default: alternate deterministically"""
    if fresh is None:
        fresh = (len(events) + start // 125 + int(tracking)) % 3 == 0
    return dict(kind=kind, tracking=bool(tracking), hold=bool(hold), late=bool(late), initial=list(initial),
                start=start, events=list(events), label=label, via_device=bool(via_device), display=display, fresh=bool(fresh),
                route=route)


def parse_corpus_line(ln):
    """<target id> <tracking> <hold> <late> <value> <min> <max> <start> [d=<display as JSON>] [dev=1] [fresh=1] <event>*
    dev=1: through Device.set(name, value, retries) (timeout 5000 only); fresh=1: object fetched right before the call;
    route=<id of setm.ROUTES>: every call of the history goes through that public route"""
    import json
    w = ln.split()
    display, via, fresh = None, False, False
    ev = w[8:]
    route = None
    while ev and "=" in ev[0] and ev[0].split("=")[0] in ("d", "dev", "fresh", "route"):
        k, val = ev[0].split("=", 1)
        if k == "d":
            display = json.loads(val)
        elif k == "route":
            route = val
        elif k == "dev":
            via = val == "1"
        else:
            fresh = val == "1"
        ev = ev[1:]
    return mk_case(w[0], w[1] == "1", w[2] == "1", w[3] == "1", (int(w[4]), int(w[5]), int(w[6])), int(w[7]), ev, "corpus",
                   via, display, fresh, route)


def model_line(c):
    v, lo, hi = c["initial"]
    return f"c08 {int(c['hold'])} {int(c['tracking'])} {v} {lo} {hi} {c['start']} " + " ".join(c["events"])


def judge_line(c, groups, one_call=False):
    v, lo, hi = c["initial"]
    if one_call:
        groups = [[re.sub(r"^([TFE]):\d+:", r"\1:", o) for o in g] for g in groups]
    items = " ".join(f"{e}={','.join(g) if g else '-'}" for e, g in zip(c["events"], groups))
    return f"c08judge {int(c['tracking'])} {v} {lo} {hi} " + items


def run_impl(c):
    """-> (groups, final clock, local triple, pending_update)"""
    return setm.run_history(c["kind"], c["tracking"], c["hold"], tuple(c["initial"]), c["events"],
                            start_ms=c["start"], late=c["late"], via_device=c.get("via_device", False),
                            display=c.get("display"), fresh=c.get("fresh", False), route=c.get("route"), defer=c.get("defer", False))


def impl_string(groups, now, loc, pending=False):
    """canonical form of what the implementation did, comparable with the `c08l` answer (less its last field)"""
    return ("|".join(",".join(g) if g else "-" for g in groups) + f";{now};{loc[0]}:{loc[1]}:{loc[2]};{int(pending)}")


def strip_ids(s):
    """lifetime form -> one-call form: returns without the call number, no pending flag"""
    body = s.rsplit(";", 1)[0]
    return re.sub(r"([TFE]):\d+:(\d+)", r"\1:\2", body)


def ncalls(c):
    return sum(1 for e in c["events"] if e.startswith("c:"))


def lifetime_line(c):
    return "c08l" + model_line(c)[3:]


def lifetime_judge_line(c, groups):
    return "c08ljudge" + judge_line(c, groups)[8:]


def rand_triple(rng):
    r = rng.random()
    if r < 0.8:
        lo = rng.randint(0, 60)
        hi = rng.randint(lo, 254)
        return (rng.randint(lo, hi), lo, hi)
    if r < 0.9:     # value outside its own range / degenerate range
        lo = rng.randint(0, 200)
        hi = rng.randint(0, 254)
        return (rng.randint(0, 254), lo, hi)
    return (rng.randint(0, 255), rng.randint(0, 255), rng.randint(0, 254))


SCALED_TARGETS = ("ecomax:85", "ecomax:88", "ecomax:108", "mixer1:5", "mixer0:6", "thermostat1:1", "thermostat0:8")
OTHER_TARGETS = ("profile", "ecomax:18", "mixer1:0", "thermostat1:0", "schedule:heating_circulation:p", "schedule:mixer_10:p",
                 "schedule:mixer_1:p", "schedule:intake_summer:s", "schedule:water_heater_2:p", "schedule:heating:s")


def enc_val(v):
    if isinstance(v, bool):
        return f"b:{int(v)}"
    if isinstance(v, int):
        return f"i:{v}"
    if isinstance(v, float):
        n, d = v.as_integer_ratio()
        return f"f:{n}/{d}"
    return f"s:{v}"


def display_table():
    """target id -> {raw: [display values whose raw value (Lean `toRaw`, the C17/C06 model) is raw]}.
    The display -> raw direction is decided by the Lean model, never by the code under test."""
    cands, lines = [], []
    for tid in SCALED_TARGETS + ("ecomax:18", "mixer0:4", "control", "schedule:heating:s", "schedule:intake_summer:s"):
        tg = setm.target(tid)
        ds = []
        if tg.switch:
            ds = ["on", "off", True, False, 1, 0]
        elif (tg.row["mult_num"], tg.row["mult_den"]) != (1, 1):
            top = 256 if tg.size == 1 else 1200
            for k in range(top):
                ds.append(round(k * 0.1, 1))             # 2.4, 0.7 ... what a user types
                if k % 7 == 0:
                    ds.append(round(k * 0.1 + 0.04, 2))  # not a multiple of the step
                if k % 10 == 0:
                    ds.append(k // 10)                   # plain integers
        else:                                            # offset row: display = raw - offset
            for k in range(256):
                ds.append(k - tg.row["offset"])
                if k % 5 == 0:
                    ds.append(float(k - tg.row["offset"]))
        for d in ds:
            cands.append((tid, d))
            lines.append(f"toraw {tg.conv} {enc_val(d)}")
    out = {}
    for (tid, d), ans in zip(cands, driver_batch(lines)):
        if ans.startswith("ok:") and 0 <= int(ans[3:]) <= setm.target(tid).maxraw:
            out.setdefault(tid, {}).setdefault(int(ans[3:]), []).append(d)
    return out


def random_case(rng, table):
    r0 = rng.random()
    tid = rng.choice(setm.BASE_TARGETS) if r0 < 0.45 else rng.choice(SCALED_TARGETS) if r0 < 0.75 else rng.choice(OTHER_TARGETS)
    tg = setm.target(tid)
    sched_switch = tg.kind == "schedule" and tg.part == "s"    # range is fixed to 0..1 by the decoder
    tracking = rng.random() < 0.5
    hold = rng.random() < 0.4
    late = rng.random() < 0.5

    def triple():
        if sched_switch:
            return (rng.randint(0, 1), 0, 1)
        return rand_triple(rng)

    initial = triple()
    start = rng.choice([0, 0, 125, 1000, 86400000])
    ev = []
    held = initial
    for _ in range(rng.choice([0, 0, 1, 2])):
        if rng.random() < 0.5:
            ev.append(f"w:{rng.choice([125, 250, 1000])}")
        else:
            held = triple()
            ev.append("r:%d:%d:%d" % held)
        if rng.random() < 0.2:
            ev.append(rng.choice(["t", "b"]))
        if not tracking and rng.random() < 0.1:
            ev.append("k:1")
    value, lo, hi = held
    r = rng.random()
    if r < 0.75 and lo <= hi and not (lo == hi == value):
        v = rng.choice([x for x in {lo, hi, rng.randint(lo, hi), rng.randint(lo, hi)} if x != value] or [value])
    elif r < 0.85:
        v = value
    elif r < 0.95:
        v = rng.choice([max(lo - 1, 0), hi + 1, lo, hi])
    else:
        v = rng.randint(0, 300)
    display = None
    if tid in table:      # scaled row / switch: set() takes the display value, always
        ds = table[tid].get(v)
        if not ds:                                   # no display value is known for this raw value: take a neighbour
            near = sorted(table[tid], key=lambda x: abs(x - v))[:1]
            if near:
                v = near[0]
                ds = table[tid][v]
        if ds:
            display = rng.choice(ds)
    retries = rng.choice([0, 1, 1, 2, 2, 3, 3, 3, 5, 4, 6, 7, -1, -3])           # negative: an exhausted budget (`retries <= 0`)
    T = rng.choice([1000, 2000, 2000, 5000, 5000, 700, 1200, 1500, 2500, 3000, 100, 333, 1100, 4321])   # 0.1 s, 0.333 s ...: not multiples of the 125 ms clock steps
    ev.append(f"c:{v}:{retries}:{T}")
    third = rng.choice([x for x in range(0, 255) if x not in (v, value)])
    for _ in range(rng.randint(0, 14)):
        x = rng.random()
        if x < 0.22:
            ev.append("t")
        elif x < 0.37 and hold:
            ev.append("b")
        elif x < 0.50:
            ev.append(f"w:{rng.choice([125, 250, 250, 500, 875, 1000, 3000])}")
        elif x < 0.56:
            ev.append("k:1")                          # the controller starts announcing versions during the call
        else:
            y = rng.random()
            val = min(tg.maxraw, value if y < 0.45 else v if y < 0.75 else third if y < 0.95 else rng.randint(0, 254))
            if sched_switch:
                trip = (val if val in (0, 1) else 1 - value if value in (0, 1) else 0, 0, 1)
            elif rng.random() < 0.85:
                trip = (val, lo, hi)
            else:
                trip = (val, rng.randint(0, 100), rng.randint(0, 254))
            if trip == (255, 255, 255):
                trip = (255, 0, 255)
            ev.append("r:%d:%d:%d" % trip)
        if hold and rng.random() < 0.5:
            ev.append("b")
    via_device = T == 5000 and rng.random() < 0.3     # through Device.set(name, value, retries): default timeout
    route = None
    if not via_device and rng.random() < 0.7:         # any public route that can express (v, retries, T) on this parameter
        route = rng.choice(setm.routes_for(tg, v, retries, T))
    return mk_case(tid, tracking, hold, late, initial, start, ev, "random", via_device, display, route=route)


def lifetime_case(rng, table):
    """2-3 set() calls on one parameter: one after the other (after True, after False) or overlapping; the later
    values: the original value, the first requested value, out of range, another value in range"""
    tid = rng.choice(setm.BASE_TARGETS) if rng.random() < 0.7 else rng.choice(
        ("ecomax:88", "mixer1:5", "mixer0:6", "thermostat1:1", "schedule:heating_circulation:p", "schedule:mixer_10:p", "mixer1:0",
         "profile", "ecomax:108"))
    tg = setm.target(tid)
    tracking = rng.random() < 0.5
    hold = rng.random() < 0.35
    late = rng.random() < 0.5
    lo, hi = rng.randint(0, 20), rng.randint(120, 250)
    v0 = rng.randint(lo + 1, hi - 1)
    ev, displays = [], []
    values = [v0]

    def pick(raw):
        """(raw value, display value or None) for a call that means `raw`"""
        if tid in table:
            if raw not in table[tid]:
                raw = min(table[tid], key=lambda x: abs(x - raw))
            return raw, rng.choice(table[tid][raw])
        return raw, None

    T = rng.choice([1000, 2000, 5000])
    via_device = T == 5000 and rng.random() < 0.6
    ncall = rng.choice([2, 2, 3])
    for k in range(ncall):
        if k == 0:
            raw = rng.choice([x for x in range(lo, hi + 1) if x != v0])
        else:
            ev.append(f"w:{40 * k}")        # keeps the sleeps of different calls from ending at the same instant
            y = rng.random()
            raw = (v0 if y < 0.3 else values[1] if y < 0.5 else rng.choice([hi + 1 + rng.randint(0, 4), max(lo - 1, 0)]) if y < 0.7
                   else rng.choice([x for x in range(lo, hi + 1) if x not in values] or [v0]))
        raw, d = pick(raw)
        values.append(raw)
        displays.append(d)
        r = rng.choice([0, 1, 1, 2, 2, 3])
        ev.append(f"c:{raw}:{r}:{T}")
        # what happens before the next call: lost / stale / confirmed / still running (overlap)
        mode = rng.random()
        steps = rng.randint(0, 2) if mode < 0.35 else rng.randint(2, 7)      # few steps -> the next call overlaps
        for _ in range(steps):
            x = rng.random()
            if hold and x < 0.3:
                ev.append("b")
            elif x < 0.45:
                ev.append("t")
            elif x < 0.55:
                ev.append(f"w:{rng.choice([125, 250, 500])}")
            elif x < 0.6 and not tracking:
                ev.append("k:1")
            else:
                z = rng.random()
                val = v0 if z < 0.4 else raw if z < 0.75 else rng.choice(values) if z < 0.9 else rng.randint(lo, hi)
                ev.append("r:%d:%d:%d" % (min(val, tg.maxraw), lo, hi))
            if hold and rng.random() < 0.4:
                ev.append("b")
    for _ in range(rng.randint(0, 8)):
        ev.append(rng.choice(["t", "t", "b" if hold else "t", "w:125", "r:%d:%d:%d" % (rng.choice(values), lo, hi)]))
    route = None
    if not via_device and rng.random() < 0.6:
        route = rng.choice(LIFETIME_ROUTES + (LIFETIME_ROUTES_DEFAULT_T if T == 5000 else ()))
    return mk_case(tid, tracking, hold, late, (v0, lo, hi), rng.choice([0, 0, 1000]), ev, "lifetime", via_device,
                   displays if any(d is not None for d in displays) else None, route=route)


LIFETIME_ROUTES = ("P.set/pos", "P.set/wk", "P.set_nowait/kw", "P.set_nowait/pos", "P.set_nowait/wk")
LIFETIME_ROUTES_DEFAULT_T = ("D.set/pos", "D.set/kw", "D.set_nowait/rk", "D.set_nowait/pos", "D.set_nowait/wk", "P.set_nowait/r", "P.set/rk")


# one representative per concrete parameter class (and the scaled / 2-byte / second sub-device / control / profile rows)
ROUTE_TARGETS = ("ecomax", "ecomax:88", "ecomax:18", "mixer", "mixer1:5", "mixer0:4", "thermostat", "thermostat1:1", "schedule",
                 "schedule:heating:s", "schedule:intake_summer:s", "schedule:water_heater_2:p", "profile", "control")
DEFER_TARGETS = ("ecomax", "ecomax:88", "ecomax:18", "schedule", "schedule:heating:s", "schedule:water_heater_2:p", "profile")


def deferred_cases(table):
    """Device.set / set_nowait by name BEFORE the parameter exists (no device-level wait limit): the call waits for the
    first report, then the set machine runs on the reported triple (differs / equals the requested value / excludes it)"""
    n = 0
    for tid in DEFER_TARGETS:
        tg = setm.target(tid)
        raw, other, lo, hi = (1, 0, 0, 1) if tg.switch else (42, 10, 0, 100)
        for route in ("D.set/rk", "D.set/r", "D.set/0", "D.set_nowait/rk", "D.set_nowait/r", "D.set_nowait/0"):
            for r in (1, 2, 5):
                if not setm.route_admits(route, tg, raw, r, 5000):
                    continue
                n += 1
                display = None
                if tid in table:
                    ds = table[tid][raw]
                    display = ds[n % len(ds)]
                firsts = [(other, lo, hi), (raw, lo, hi)] + ([] if tg.switch else [(other, lo, 30)])
                for k, first in enumerate(firsts):
                    ev = [f"c:{raw}:{r}:5000"] + ["w:125"] * (1 + (n + k) % 3) + ["r:%d:%d:%d" % first]
                    ev += (["t"] * (r + 1)) if (n + k) % 2 else ["w:250", f"r:{raw}:{first[1]}:{first[2]}", "t"]
                    yield mk_case(tid, (n + k) % 2 == 0, False, (n + k) % 3 == 0, (0, 0, 0), [0, 1000][n % 2], ev, "route-deferred", False,
                                  display, fresh=False, route=route) | dict(defer=True)


ROUTE_RT = ((1, 1200), (3, 700), (2, 3000), (4, 1500), (2, 5000), (3, 5000), (1, 5000), (5, 1200), (5, 700), (5, 5000), (0, 1200),
            (-2, 1200), (7, 100))


def route_cases(table, tier):
    """every public set route x every concrete parameter class x attempts/interval pairs that are non-default and
    numerically different from each other x three histories (request lost throughout; stale report then
    confirmation; confirmation at once).  What the machine must do for the (retries, timeout) the CALLER passed
    comes from the Lean machine alone."""
    n = 0
    for tid in ROUTE_TARGETS:
        tg = setm.target(tid)
        if tg.switch:
            initial, raw, stale = (0, 0, 1), 1, 0
        else:
            initial, raw, stale = (10, 0, 100), 42, 10
        for flip in ((False, True) if tg.switch else (False,)):
            if flip:
                initial, raw, stale = (1, 0, 1), 0, 1
            for route in setm.ROUTES:
                for r, T in ROUTE_RT:
                    if not setm.route_admits(route, tg, raw, r, T):
                        continue
                    n += 1
                    if tier == "quick" and setm.ROUTES[route][2] in ("wk", "rk") and n % 2:
                        continue
                    display = None
                    if tid in table and setm.ROUTES[route][2] not in ("on", "off"):
                        ds = table[tid][raw]
                        display = ds[n % len(ds)]
                    elif tg.switch:
                        display = (["on", True, 1] if raw else ["off", False, 0])[n % 3]
                    lo, hi = initial[1], initial[2]
                    hists = [[f"c:{raw}:{r}:{T}"] + ["t"] * (r + 1),
                             [f"c:{raw}:{r}:{T}", "w:125", f"r:{raw}:{lo}:{hi}", "t"]]
                    if tg.kind == "control":     # behind on_change: a report of the unchanged state never reaches the switch
                        hists.append([f"c:{raw}:{r}:{T}", "t", "w:125", f"r:{raw}:{lo}:{hi}", "t", f"r:{stale}:{lo}:{hi}"])
                    else:
                        hists.append([f"c:{raw}:{r}:{T}", "w:125", f"r:{stale}:{lo}:{hi}", "t", "w:250", f"r:{raw}:{lo}:{hi}", "t"])
                    for k, ev in enumerate(hists):
                        tracking = (n + k) % 2 == 0
                        hold = k == 0 and n % 5 == 0
                        if hold:
                            ev = [x for e in ev for x in ((e, "b") if e != "b" else (e,))]
                        yield mk_case(tid, tracking, hold, (n + k) % 3 == 0, initial, [0, 1000][n % 2], ev, "route-sweep", False,
                                      display, fresh=(n + k) % 4 == 0, route=route)


LIFE_LETTERS = {
    "P": ["w:40", "c:10:2:2000"],    # another call: back to the original value
    "Q": ["w:40", "c:42:2:2000"],    # another call: the first requested value again
    "U": ["w:40", "c:200:2:2000"],   # another call: out of range
    "V": ["w:40", "c:55:1:2000"],    # another call: a different value in range
}


def lifetime_words(tier):
    """all words over {stale, confirming, third, timer} + {four kinds of further call} after a first call"""
    cfgs = []
    if tier == "thorough":
        for tid in setm.BASE_TARGETS:
            for tracking in (False, True):
                for retries in (1, 2):
                    cfgs.append((tid, tracking, False, retries, 5 if tid == "ecomax" else 4, "SCXTPQUV"))
        for retries in (1, 2):
            cfgs.append(("ecomax", False, True, retries, 4, "SCTBPQUV"))
            cfgs.append(("schedule:heating_circulation:p", True, True, retries, 4, "SCTBPQUV"))
    else:
        for tid, tracking in (("ecomax", False), ("schedule", True)):
            for retries in (1, 2):
                cfgs.append((tid, tracking, False, retries, 3, "SCXTPQUV"))
        cfgs.append(("mixer", False, True, 2, 3, "SCTBPQUV"))
        cfgs.append(("thermostat", True, False, 1, 3, "SCXTPQUV"))
    return cfgs


def explore_lifetime(args):
    tid, tracking, hold, retries, length, alphabet = args
    out = []
    for n, word in enumerate(itertools.product(alphabet, repeat=length)):
        if not any(ch in LIFE_LETTERS for ch in word):
            continue                                      # one-call words are enumerated elsewhere
        ev = [f"c:{EXH_RAW}:{retries}:{T_EXH}"]
        for ch in word:
            ev.extend(LIFE_LETTERS.get(ch) or LETTERS[ch])
        c = mk_case(tid, tracking, hold, n % 2 == 1, (10, 0, 100), 0, ev, "lifetime-words")
        c["word"] = "".join(word)
        out.append(_run_one(c))
    return out


def sweep_cases(table, tier):
    """every display value of the table once: set(display) must transmit toRaw(display)"""
    for tid in sorted(table):
        tg = setm.target(tid)
        if tg.kind in ("control", "schedule"):       # range fixed to 0..1 by the decoder: the route sweep has them
            continue
        n = 0
        for raw in sorted(table[tid]):
            for d in table[tid][raw]:
                n += 1
                if tier == "quick" and tg.size == 2 and n % 4:
                    continue
                held = (raw + 1) % (tg.maxraw + 1) if raw != 254 else 3
                yield mk_case(tid, True, False, n % 2 == 1, (held, 0, tg.maxraw if tg.size == 2 else 255), 0,
                              [f"c:{raw}:1:2000", "t"], "display-sweep", False, d)
                # the held RAW number equals the requested DISPLAY number (but not the requested raw value): the call
                # differs from the held value and must be transmitted -- through Device.set and through Parameter.set
                if isinstance(d, (int, float)) and not isinstance(d, bool) and 0 <= int(d) <= tg.maxraw and int(d) != raw:
                    if tier == "quick" and tg.size == 2 and n % 4:
                        continue
                    yield mk_case(tid, n % 2 == 0, False, False, (int(d), 0, tg.maxraw if tg.size == 2 else 255), 0,
                                  [f"c:{raw}:1:5000", "t"], "display-sweep-held-equals-display", n % 3 != 0, d)


LETTERS = {
    "S": ["w:125", "r:10:0:100"],    # stale: the value held before the call
    "C": ["w:125", "r:42:0:100"],    # confirming: the requested value
    "X": ["w:125", "r:77:0:100"],    # a third value
    "T": ["t"],                      # the retry timer expires ("nothing" = two adjacent timers)
    "B": ["b"],                      # held executor answers
    "K": ["k:1"],                    # the controller starts announcing versions (tracking on from now)
}


def expand(word, retries):
    ev = [f"c:{EXH_RAW}:{retries}:{T_EXH}"]
    for ch in word:
        ev.extend(LETTERS[ch])
    return ev


def explore_config(args):
    """all words of the given length over the alphabet, in lexicographic order, skipping words that
    only differ after set() has returned (they share the prefix up to the return).
    -> list of (case, impl string, groups)"""
    kind, tracking, hold, retries, length, alphabet, display, *rest = args
    route = rest[0] if rest else None
    out = []
    counter = [0]

    def done_letter_index(word, groups):
        # index of the letter during which set() returned, -1 if during the call itself, None if never
        pos = 0
        if any(o[0] in "TFE" for o in groups[0]):
            return -1
        k = 1
        for i, ch in enumerate(word):
            for _ in LETTERS[ch]:
                if any(o[0] in "TFE" for o in groups[k]):
                    return i
                k += 1
        return None

    def rec(prefix):
        if len(prefix) == length:
            late = counter[0] % 2 == 1
            counter[0] += 1
            c = mk_case(kind, tracking, hold, late, (10, 0, 100), 0, expand(prefix, retries), "exhaustive", False, display, route=route)
            c["word"] = prefix
            groups, now, loc, pend = run_impl(c)
            out.append((c, impl_string(groups, now, loc, pend), groups))
            return done_letter_index(prefix, groups)
        for ch in alphabet:
            d = rec(prefix + ch)
            if d is not None and d < len(prefix):
                return d          # returned before this position: the siblings are the same run
        return None

    rec("")
    return out


EXH_ROUTES = ("P.set_nowait/pos", "P.set/pos", "P.set_nowait/kw", "P.set_nowait/wk")    # forms that can carry timeout T_EXH


def exhaustive_configs(tier, table):
    """(target, tracking, hold, retries, word length, alphabet, display value for the requested raw value)"""
    def disp(tid):
        return (table.get(tid, {}).get(EXH_RAW) or [None])[0]

    variety = ("ecomax:88", "mixer0:6", "thermostat1:1", "schedule:heating_circulation:p")
    cfgs = []
    if tier == "thorough":
        for tid in setm.BASE_TARGETS:
            for tracking in (False, True):
                for retries in range(4):
                    cfgs.append((tid, tracking, False, retries, EXH_LEN, "SCXT", None))
                    cfgs.append((tid, tracking, True, retries, EXH_LEN_HOLD, "SCXTB", None))
        for tid in variety:      # other addresses / scaled rows, called with the display value, through the other routes
            for tracking in (False, True):
                for retries in range(4):
                    cfgs.append((tid, tracking, False, retries, EXH_LEN - 1, "SCXT", disp(tid), EXH_ROUTES[(retries + tracking) % 4]))
                    cfgs.append((tid, tracking, True, retries, EXH_LEN_HOLD - 1, "SCXTB", disp(tid), EXH_ROUTES[(retries + tracking + 2) % 4]))
        for tid in ("ecomax", "mixer1:0"):   # tracking switched on at every position of the history
            for retries in range(4):
                cfgs.append((tid, False, False, retries, EXH_LEN - 1, "SCXTK", None))
                cfgs.append((tid, False, True, retries, EXH_LEN_HOLD - 1, "SCXTBK", None))
    else:
        for tid in setm.BASE_TARGETS:
            for tracking in (False, True):
                for retries in range(4):
                    cfgs.append((tid, tracking, False, retries, 4, "SCXT", None))
        for retries in range(4):
            cfgs.append(("ecomax", False, True, retries, 4, "SCXTB", None))
            cfgs.append(("ecomax:88", retries % 2 == 0, False, retries, 4, "SCXT", disp("ecomax:88"), EXH_ROUTES[retries]))
            cfgs.append(("schedule:mixer_10:p", retries % 2 == 1, False, retries, 4, "SCXT", None, EXH_ROUTES[(retries + 1) % 4]))
            cfgs.append(("mixer1:5", retries % 2 == 0, False, retries, 4, "SCXT", disp("mixer1:5"), EXH_ROUTES[(retries + 2) % 4]))
            cfgs.append(("ecomax", False, False, retries, 4, "SCXTK", None))
            cfgs.append(("thermostat1:1", False, True, retries, 3, "SCXTBK", disp("thermostat1:1")))
    return cfgs


# ----------------------------------------------------------------------------- checking
def outcome_of(groups):
    for g in groups:
        for o in g:
            if o[0] in "TFE":
                return o[0]
    return "none"


def check_cases(res, triples):
    """triples: list of (case, impl string, groups)"""
    triples = [t for t in triples if t is not None]
    model = driver_batch(lifetime_line(c) for c, _, _ in triples)
    judge = driver_batch(lifetime_judge_line(c, g) for c, _, g in triples)
    # histories with at most one call are also put to the one-call machine and its judge (for which `holds` is proved)
    single = [i for i, (c, _, g) in enumerate(triples) if ncalls(c) <= 1 and not any(o[0] == "X" for gg in g for o in gg)]
    model1 = dict(zip(single, driver_batch(model_line(triples[i][0]) for i in single)))
    judge1 = dict(zip(single, driver_batch(judge_line(triples[i][0], triples[i][2], True) for i in single)))
    for idx, ((c, impl, groups), m, j) in enumerate(zip(triples, model, judge)):
        m = m.rsplit(":", 1)[0] if m != "bad-op" else m       # the model's previous-value is not observable
        if idx in model1:
            if judge1[idx] != "pass" and j == "pass":
                j = "one-call judge: " + judge1[idx]
            if model1[idx] != strip_ids(m):
                res.fail("corr", dict(case=c), model1[idx], strip_ids(m), "one-call machine SetM and lifetime machine SetL differ on a one-call history")
        res.count("calls in the history:%d" % ncalls(c))
        ntx = sum(1 for g in groups for o in g if o[0] == "S")
        res.case((c["kind"], c["tracking"], c["hold"], c["late"], tuple(c["initial"]), c["start"], tuple(c["events"])),
                 nontrivial=ntx > 0)
        res.count("kind:" + setm.target(c["kind"]).kind)
        res.count("target:" + c["kind"])
        d0 = c.get("display")
        d0 = next((x for x in d0 if x is not None), None) if isinstance(d0, list) else d0
        res.count("called with:" + ("raw value" if d0 is None else "display value (" + type(d0).__name__ + ")"))
        if any(e == "k:1" for e in c["events"]):
            res.count("tracking switched on during the run")
        res.count("tracking:%d hold:%d" % (c["tracking"], c["hold"]))
        res.count("late:%d" % c["late"])
        res.count("entry:" + ("Device.set" if c.get("via_device") else "route " + c["route"].split("/")[0] if c.get("route") else "Parameter.set"))
        res.count("label:" + c["label"])
        res.count("outcome:" + outcome_of(groups))
        res.count("set requests:%d" % ntx)
        call = [e for e in c["events"] if e.startswith("c:")]
        if call:
            res.count("retries:" + call[0].split(":")[2])
        inp = {k: c[k] for k in ("kind", "tracking", "hold", "late", "initial", "start", "events", "label")}
        inp["via_device"] = c.get("via_device", False)
        inp["display"] = c.get("display")
        inp["fresh"] = c.get("fresh", False)
        inp["route"] = c.get("route")
        if c.get("deferred"):
            inp["deferred"] = c["deferred"]
            res.count("Device.set called before the parameter's first report")
        if c.get("route"):
            res.count("route:" + c["route"])
            res.count("route x class:" + c["route"].split("/")[0] + " on " + setm.target(c["kind"]).kind + (" switch" if setm.target(c["kind"]).switch else " number"))
            if call and (call[0].split(":")[2] != "5" or call[0].split(":")[3] != "5000") and int(call[0].split(":")[2]) * 1000 != int(call[0].split(":")[3]):
                res.count("route called with non-default attempts/interval that differ numerically")
        res.count("handle:" + ("Device.set (by name)" if c.get("via_device") else "fetched before the call" if c.get("fresh") else "kept across reports"))
        bad_x = [o for g in groups for o in g if o[0] == "X"]
        if bad_x:
            res.fail("spec", inp, m, impl, f"unexpected frame / exception / malformed set request: {bad_x[:3]}")
        elif j != "pass":
            res.fail("spec", inp, m, impl, f"C08.spec violated by the implementation's observation ({j})")
        if impl != m:
            res.fail("corr", inp, m, impl, "lifetime machine SetL and Parameter.set differ")
        if ntx >= 2 and c["label"] != "corpus":
            res.sample(dict(input=inp, observed=impl), limit=5)


def run(ctx):
    rng = random.Random(ctx["seed"] * 104729 + 8)
    tier = ctx["tier"]
    res = Result("C08")
    res.rule = ("case = parameter (4 base + 16 other addresses: other index, second mixer/thermostat, scaled and 2-byte rows, "
                "schedules whose name extends another's, switches) x called with raw or display value (raw = Lean toRaw) x "
                "version tracking on / off / switched on during the run x executor held/synchronous x late/immediate encoding x "
                "initial triple x start clock x history of {set call, stale / confirming / third-value / range-changing "
                "reports, clock advances, timer expiries, executor answers, frame-version announcements}; corpus first; random histories; "
                "LIFETIME histories with 2-4 set() calls (after True / after False / overlapping; value = original, = first requested, out of range, other; "
                "Parameter.set and Device.set) and all words over {stale, confirming, third, timer[, built], four kinds of further call}; "
                "display sweep (every display value of the scaled rows once); exhaustive words over "
                "{stale, confirming, third, timer[, built]} after a call (retries 0..3), pruned only after set() returned. "
                "distinct = distinct (config, history); non-trivial = at least one set request was transmitted")
    triples = []
    for fn, ln in load_corpus("C08"):
        c = parse_corpus_line(ln)
        c["label"] = "corpus"
        triples.append(_run_one(c))
    n = QUICK_RANDOM if tier == "quick" else THOROUGH_RANDOM
    if ctx.get("max_cases"):
        n = min(n, ctx["max_cases"])
    table = display_table()
    cases = [random_case(rng, table) for _ in range(n)]
    cases.extend(lifetime_case(rng, table) for _ in range(1500 if tier == "quick" else 30000))
    cases.extend(sweep_cases(table, tier))
    cases.extend(route_cases(table, tier))
    cases.extend(deferred_cases(table))
    lcfgs = lifetime_words(tier)
    cfgs = exhaustive_configs(tier, table)
    workers = min(8, os.cpu_count() or 1) if tier == "thorough" else min(4, os.cpu_count() or 1)
    if workers > 1:
        with multiprocessing.get_context("fork").Pool(workers) as pool:
            rnd = pool.map(_run_one, cases, chunksize=200)
            exh = pool.map(explore_config, cfgs, chunksize=1)
            exh += pool.map(explore_lifetime, lcfgs, chunksize=1)
    else:
        rnd = [_run_one(c) for c in cases]
        exh = [explore_config(a) for a in cfgs] + [explore_lifetime(a) for a in lcfgs]
    triples.extend(rnd)
    nexh = 0
    for lst in exh:
        triples.extend(lst)
        nexh += len(lst)
    check_cases(res, triples)
    # smallest failing history first: check.py writes the first 'spec' failure as the replay
    res.failures.sort(key=lambda f: (f["kind"] != "spec", len(f["input"]["events"])))
    res.exhaustive = tier == "thorough"
    res.extra["exhaustive_words"] = nexh
    res.extra["exhaustive_bounds"] = (
        f"thorough: 4 base parameters x tracking on/off x retries 0..3: all words of length {EXH_LEN} over {{S,C,X,T}} (synchronous "
        f"executor) and {EXH_LEN_HOLD} over {{S,C,X,T,B}} (held); 4 other addresses (scaled row called with the display value, offset row, "
        f"2-byte row on thermostat 1, schedule 'heating_circulation'): lengths {EXH_LEN - 1} / {EXH_LEN_HOLD - 1}; tracking switched on at "
        f"every position (letter K) for 2 parameters: lengths {EXH_LEN - 1} / {EXH_LEN_HOLD - 1}; timeout {T_EXH} ms, reports 125 ms apart; "
        "quick: length 4 (3 with K and held executor)")
    res.notes.append("'nothing' (request lost, no report) is the absence of a report between two timer letters")
    return res


def _run_one(c):
    try:
        g, now, loc, pend = run_impl(c)
    except setm.Tie:
        return None
    if c.get("defer"):
        # Device.set(name, ...) was called BEFORE the parameter's first report: the call waits for the parameter and the set
        # machine starts when that report arrives.  Judged as: the machine started on the reported triple at that instant.
        ev = c["events"]
        k = next(i for i, e in enumerate(ev) if e.startswith("r:"))
        assert ev[0].startswith("c:") and all(e.startswith("w:") for e in ev[1:k]), ev
        shift = sum(int(e[2:]) for e in ev[1:k])
        c = dict(c, events=[ev[0]] + ev[k + 1:], initial=[int(x) for x in ev[k].split(":")[1:]], start=c["start"] + shift, defer=False,
                 deferred=dict(events=list(ev), initial=list(c["initial"]), start=c["start"]))
        g = [[o for grp in g[:k + 1] for o in grp]] + g[k + 1:]
    return (c, impl_string(g, now, loc, pend), g)


def replay(ctx):
    rp = ctx["replay"]
    f = rp.get("failure") or rp.get("first_difference")
    c = dict(f["input"])
    if c.get("deferred"):
        c = dict(c, defer=True, **c.pop("deferred"))
    res = Result("C08")
    res.rule = "replay of one recorded history"
    t = _run_one(c)
    check_cases(res, [t])
    res.sample(dict(input=c, observed=t[1] if t else "tie"))
    return res

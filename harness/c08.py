"""C08 correspondence: the real Parameter.set / update (ecoMAX, mixer, thermostat, schedule
parameters; with / without version tracking; executor answering synchronously or held) under
the virtual loop vs the Lean machine `SetM`, and the Lean judge `C08.spec` evaluated on what the
implementation did.

A case = (kind, tracking, hold, late, initial triple, start clock, event history).
`late`: the queued set requests are encoded only at the end of the run (as the producer does
when it finally writes them), i.e. after every report that was handled since they were queued.
"""
import itertools
import multiprocessing
import os
import random

from common import Result, driver_batch, load_corpus
import setm

QUICK_RANDOM = 2500
THOROUGH_RANDOM = 40000
EXH_LEN = 7
EXH_LEN_HOLD = 6
T_EXH = 2000


# ----------------------------------------------------------------------------- cases
def mk_case(kind, tracking, hold, late, initial, start, events, label, via_device=False):
    return dict(kind=kind, tracking=bool(tracking), hold=bool(hold), late=bool(late), initial=list(initial),
                start=start, events=list(events), label=label, via_device=bool(via_device))


def parse_corpus_line(ln):
    w = ln.split()
    return mk_case(w[0], w[1] == "1", w[2] == "1", w[3] == "1", (int(w[4]), int(w[5]), int(w[6])), int(w[7]), w[8:], "corpus")


def model_line(c):
    v, lo, hi = c["initial"]
    return f"c08 {int(c['hold'])} {int(c['tracking'])} {v} {lo} {hi} {c['start']} " + " ".join(c["events"])


def judge_line(c, groups):
    v, lo, hi = c["initial"]
    items = " ".join(f"{e}={','.join(g) if g else '-'}" for e, g in zip(c["events"], groups))
    return f"c08judge {int(c['tracking'])} {v} {lo} {hi} " + items


def run_impl(c):
    groups, now, loc = setm.run_history(c["kind"], c["tracking"], c["hold"], tuple(c["initial"]), c["events"],
                                        start_ms=c["start"], late=c["late"], via_device=c.get("via_device", False))
    return groups, now, loc


def impl_string(groups, now, loc):
    return "|".join(",".join(g) if g else "-" for g in groups) + f";{now};{loc[0]}:{loc[1]}:{loc[2]}"


def rand_triple(rng):
    r = rng.random()
    if r < 0.8:
        lo = rng.randint(0, 60)
        hi = rng.randint(lo, 254)
        return (rng.randint(lo, hi), lo, hi)
    if r < 0.9:     # value outside its own range / degenerate range
        lo = rng.randint(0, 200)
        hi = rng.randint(0, 254)
        return (rng.randint(0, 254), lo, hi)
    return (rng.randint(0, 255), rng.randint(0, 255), rng.randint(0, 254))


def random_case(rng):
    kind = rng.choice(setm.KINDS)
    tracking = rng.random() < 0.5
    hold = rng.random() < 0.4
    late = rng.random() < 0.5
    initial = rand_triple(rng)
    start = rng.choice([0, 0, 125, 1000, 86400000])
    ev = []
    held = initial
    for _ in range(rng.choice([0, 0, 1, 2])):
        if rng.random() < 0.5:
            ev.append(f"w:{rng.choice([125, 250, 1000])}")
        else:
            held = rand_triple(rng)
            ev.append("r:%d:%d:%d" % held)
        if rng.random() < 0.2:
            ev.append(rng.choice(["t", "b"]))
    value, lo, hi = held
    r = rng.random()
    if r < 0.75 and lo <= hi and not (lo == hi == value):
        v = rng.choice([x for x in {lo, hi, rng.randint(lo, hi), rng.randint(lo, hi)} if x != value] or [value])
    elif r < 0.85:
        v = value
    elif r < 0.95:
        v = rng.choice([max(lo - 1, 0), hi + 1, lo, hi])
    else:
        v = rng.randint(0, 300)
    retries = rng.choice([0, 1, 1, 2, 2, 3, 3, 3, 5])
    T = rng.choice([1000, 2000, 2000, 5000])
    ev.append(f"c:{v}:{retries}:{T}")
    third = rng.choice([x for x in range(0, 255) if x not in (v, value)])
    for _ in range(rng.randint(0, 14)):
        x = rng.random()
        if x < 0.22:
            ev.append("t")
        elif x < 0.37 and hold:
            ev.append("b")
        elif x < 0.52:
            ev.append(f"w:{rng.choice([125, 250, 250, 500, 875, 1000, 3000])}")
        else:
            y = rng.random()
            val = min(255, value if y < 0.45 else v if y < 0.75 else third if y < 0.95 else rng.randint(0, 254))
            if rng.random() < 0.85:
                trip = (val, lo, hi)
            else:
                trip = (val, rng.randint(0, 100), rng.randint(0, 254))
            if trip == (255, 255, 255):
                trip = (255, 0, 255)
            ev.append("r:%d:%d:%d" % trip)
        if hold and rng.random() < 0.5:
            ev.append("b")
    if rng.random() < 0.1:
        ev.append(f"c:{rng.randint(0, 100)}:2:1000")   # a second call on the same run is ignored by the harness and the model
    via_device = T == 5000 and rng.random() < 0.5     # through Device.set(name, value, retries): default timeout
    return mk_case(kind, tracking, hold, late, initial, start, ev, "random", via_device)


LETTERS = {
    "S": ["w:125", "r:10:0:100"],    # stale: the value held before the call
    "C": ["w:125", "r:42:0:100"],    # confirming: the requested value
    "X": ["w:125", "r:77:0:100"],    # a third value
    "T": ["t"],                      # the retry timer expires ("nothing" = two adjacent timers)
    "B": ["b"],                      # held executor answers
}


def expand(word, retries):
    ev = [f"c:42:{retries}:{T_EXH}"]
    for ch in word:
        ev.extend(LETTERS[ch])
    return ev


def explore_config(args):
    """all words of the given length over the alphabet, in lexicographic order, skipping words that
    only differ after set() has returned (they share the prefix up to the return).
    -> list of (case, impl string, groups)"""
    kind, tracking, hold, retries, length, alphabet = args
    out = []
    counter = [0]

    def done_letter_index(word, groups):
        # index of the letter during which set() returned, -1 if during the call itself, None if never
        pos = 0
        if any(o[0] in "TFE" for o in groups[0]):
            return -1
        k = 1
        for i, ch in enumerate(word):
            for _ in LETTERS[ch]:
                if any(o[0] in "TFE" for o in groups[k]):
                    return i
                k += 1
        return None

    def rec(prefix):
        if len(prefix) == length:
            late = counter[0] % 2 == 1
            counter[0] += 1
            c = mk_case(kind, tracking, hold, late, (10, 0, 100), 0, expand(prefix, retries), "exhaustive")
            c["word"] = prefix
            groups, now, loc = run_impl(c)
            out.append((c, impl_string(groups, now, loc), groups))
            return done_letter_index(prefix, groups)
        for ch in alphabet:
            d = rec(prefix + ch)
            if d is not None and d < len(prefix):
                return d          # returned before this position: the siblings are the same run
        return None

    rec("")
    return out


def exhaustive_configs(tier):
    cfgs = []
    if tier == "thorough":
        for kind in setm.KINDS:
            for tracking in (False, True):
                for retries in range(4):
                    cfgs.append((kind, tracking, False, retries, EXH_LEN, "SCXT"))
                    cfgs.append((kind, tracking, True, retries, EXH_LEN_HOLD, "SCXTB"))
    else:
        for kind in setm.KINDS:
            for tracking in (False, True):
                for retries in range(4):
                    cfgs.append((kind, tracking, False, retries, 4, "SCXT"))
        for retries in range(4):
            cfgs.append(("ecomax", False, True, retries, 4, "SCXTB"))
    return cfgs


# ----------------------------------------------------------------------------- checking
def outcome_of(groups):
    for g in groups:
        for o in g:
            if o[0] in "TFE":
                return o[0]
    return "none"


def check_cases(res, triples):
    """triples: list of (case, impl string, groups)"""
    model = driver_batch(model_line(c) for c, _, _ in triples)
    judge = driver_batch(judge_line(c, g) for c, _, g in triples)
    for (c, impl, groups), m, j in zip(triples, model, judge):
        ntx = sum(1 for g in groups for o in g if o[0] == "S")
        res.case((c["kind"], c["tracking"], c["hold"], c["late"], tuple(c["initial"]), c["start"], tuple(c["events"])),
                 nontrivial=ntx > 0)
        res.count("kind:" + c["kind"])
        res.count("tracking:%d hold:%d" % (c["tracking"], c["hold"]))
        res.count("late:%d" % c["late"])
        res.count("entry:" + ("Device.set" if c.get("via_device") else "Parameter.set"))
        res.count("label:" + c["label"])
        res.count("outcome:" + outcome_of(groups))
        res.count("set requests:%d" % ntx)
        call = [e for e in c["events"] if e.startswith("c:")]
        if call:
            res.count("retries:" + call[0].split(":")[2])
        inp = {k: c[k] for k in ("kind", "tracking", "hold", "late", "initial", "start", "events", "label")}
        inp["via_device"] = c.get("via_device", False)
        bad_x = [o for g in groups for o in g if o[0] == "X"]
        if bad_x:
            res.fail("spec", inp, m, impl, f"unexpected frame / exception / malformed set request: {bad_x[:3]}")
        elif j != "pass":
            res.fail("spec", inp, m, impl, f"C08.spec violated by the implementation's observation ({j})")
        if impl != m:
            res.fail("corr", inp, m, impl, "SetM model and Parameter.set differ")
        if ntx >= 2 and c["label"] != "corpus":
            res.sample(dict(input=inp, observed=impl), limit=5)


def run(ctx):
    rng = random.Random(ctx["seed"] * 104729 + 8)
    tier = ctx["tier"]
    res = Result("C08")
    res.rule = ("case = parameter kind x version tracking x executor held/synchronous x late/immediate encoding x "
                "initial triple x start clock x history of {set call, stale / confirming / third-value / range-changing "
                "reports, clock advances, timer expiries, executor answers}; corpus first; random histories; exhaustive words over "
                "{stale, confirming, third, timer[, built]} after a call (retries 0..3), pruned only after set() returned. "
                "distinct = distinct (config, history); non-trivial = at least one set request was transmitted")
    triples = []
    for fn, ln in load_corpus("C08"):
        c = parse_corpus_line(ln)
        c["label"] = "corpus"
        g, now, loc = run_impl(c)
        triples.append((c, impl_string(g, now, loc), g))
    n = QUICK_RANDOM if tier == "quick" else THOROUGH_RANDOM
    if ctx.get("max_cases"):
        n = min(n, ctx["max_cases"])
    cases = [random_case(rng) for _ in range(n)]
    cfgs = exhaustive_configs(tier)
    workers = min(8, os.cpu_count() or 1) if tier == "thorough" else min(4, os.cpu_count() or 1)
    if workers > 1:
        with multiprocessing.get_context("fork").Pool(workers) as pool:
            rnd = pool.map(_run_one, cases, chunksize=200)
            exh = pool.map(explore_config, cfgs, chunksize=1)
    else:
        rnd = [_run_one(c) for c in cases]
        exh = [explore_config(a) for a in cfgs]
    triples.extend(rnd)
    nexh = 0
    for lst in exh:
        triples.extend(lst)
        nexh += len(lst)
    check_cases(res, triples)
    # smallest failing history first: check.py writes the first 'spec' failure as the replay
    res.failures.sort(key=lambda f: (f["kind"] != "spec", len(f["input"]["events"])))
    res.exhaustive = tier == "thorough"
    res.extra["exhaustive_words"] = nexh
    res.extra["exhaustive_bounds"] = (
        f"thorough: all words of length {EXH_LEN} over {{S,C,X,T}} (synchronous executor) and of length {EXH_LEN_HOLD} over "
        f"{{S,C,X,T,B}} (held executor) x 4 kinds x tracking on/off x retries 0..3, timeout {T_EXH} ms, reports 125 ms apart; "
        "quick: length 4")
    res.notes.append("'nothing' (request lost, no report) is the absence of a report between two timer letters")
    return res


def _run_one(c):
    g, now, loc = run_impl(c)
    return (c, impl_string(g, now, loc), g)


def replay(ctx):
    rp = ctx["replay"]
    f = rp.get("failure") or rp.get("first_difference")
    c = dict(f["input"])
    res = Result("C08")
    res.rule = "replay of one recorded history"
    g, now, loc = run_impl(c)
    check_cases(res, [(c, impl_string(g, now, loc), g)])
    res.sample(dict(input=c, observed=impl_string(g, now, loc)))
    return res

"""C05 (second half) correspondence: parameter blocks (ecoMAX / mixer / thermostat), schedules,
alerts, UID / product info, password.

Abstract messages are generated here, ENCODED BY THE LEAN DRIVER (`p2enc`, Lean is the single
source of the wire layouts; it also returns the value the message stands for and whether the
message is well formed), decoded by the real response frames (`X(message=bytearray(..)).data`,
thermostat parameters with and without an owning device) and by the structure decoders (for the
returned offset), canonicalised and compared
  * with the value the message stands for (the property's own predicate -> `spec` failures),
  * with the Lean decoder model on the same bytes (`p2dec`; -> `corr` failures), also on a
    malformed stream (truncations, byte replacements, random bytes): value-or-exception class.
Purity: every payload is decoded through `.data`, twice more on the same frame object and once
on a fresh frame; the payload bytes must be unchanged and all results equal.
"""
import asyncio
import random
import struct as pystruct

from common import Result, driver_batch, hexs, load_corpus, use_repo
import strshapes
import watchdog

use_repo()

from pyplumio.devices.ecomax import EcoMAX  # noqa: E402
from pyplumio.frames.responses import (  # noqa: E402
    AlertsResponse,
    EcomaxParametersResponse,
    MixerParametersResponse,
    PasswordResponse,
    SchedulesResponse,
    ThermostatParametersResponse,
    UIDResponse,
)
from pyplumio.helpers.parameter import ParameterValues  # noqa: E402
from pyplumio.structures.alerts import AlertsStructure  # noqa: E402
from pyplumio.structures.ecomax_parameters import EcomaxParametersStructure  # noqa: E402
from pyplumio.structures.mixer_parameters import MixerParametersStructure  # noqa: E402
from pyplumio.structures.network_info import NetworkInfo  # noqa: E402
from pyplumio.structures.product_info import ProductInfoStructure  # noqa: E402
from pyplumio.structures.schedules import SchedulesStructure  # noqa: E402
from pyplumio.structures.thermostat_parameters import (  # noqa: E402
    THERMOSTAT_PARAMETERS,
    ThermostatParametersStructure,
)

PROP = "C05"
THERMO_SIZES = [d.size for d in THERMOSTAT_PARAMETERS]

# ----------------------------------------------------------------------------- canonical forms


def c_int(x):
    return str(x) if type(x) is int else f"?{type(x).__name__}:{x!r}"


def c_triple(p):
    if type(p) is not ParameterValues:
        return f"?{type(p).__name__}"
    return f"{c_int(p.value)}/{c_int(p.min_value)}/{c_int(p.max_value)}"


def c_params(lst):
    if type(lst) is not list:
        return f"?{type(lst).__name__}"
    return "[" + ",".join(f"{c_int(i)}={c_triple(p)}" for i, p in lst) + "]"


def c_blocks(d):
    if type(d) is not dict:
        return f"?{type(d).__name__}"
    return "{" + ";".join(f"{c_int(t)}:{c_params(d[t])}" for t in sorted(d)) + "}"


def keys(d, *expected):
    return "" if sorted(d) == sorted(expected) else "!keys=" + ",".join(sorted(map(str, d)))


def canon_ecomax(d):
    return c_params(d.get("ecomax_parameters")) + keys(d, "ecomax_parameters")


def canon_mixer(d):
    return c_blocks(d.get("mixer_parameters")) + keys(d, "mixer_parameters")


def canon_thermostat(d):
    if "thermostat_profile" not in d and d.get("thermostat_parameters", 0) is None:
        return "U" + keys(d, "thermostat_parameters")
    p = d.get("thermostat_profile")
    return ("P" + ("-" if p is None else c_triple(p)) + c_blocks(d.get("thermostat_parameters"))
            + keys(d, "thermostat_parameters", "thermostat_profile"))


def c_bit(b):
    return "1" if b is True else "0" if b is False else "?"


def canon_schedules(d):
    if "schedule_parameters" not in d and d.get("schedules") == []:
        return "S" + keys(d, "schedules")
    ss = ";".join(f"{c_int(i)}:" + ".".join("".join(c_bit(b) for b in day) for day in days) for i, days in d["schedules"])
    return "(" + ss + ")" + c_params(d.get("schedule_parameters")) + keys(d, "schedules", "schedule_parameters")


def c_dt(t):
    return f"{t.year}-{t.month}-{t.day}-{t.hour}-{t.minute}-{t.second}" + ("" if t.microsecond == 0 and t.tzinfo is None else "?")


def canon_alerts(d):
    s = "T" + c_int(d.get("total_alerts"))
    if "alerts" not in d:
        return s + "N" + keys(d, "total_alerts")
    return (s + "[" + ",".join(f"{int(a.code)}@{c_dt(a.from_dt)}>" + ("open" if a.to_dt is None else c_dt(a.to_dt))
                              for a in d["alerts"]) + "]" + keys(d, "alerts", "total_alerts"))


def canon_uid(d):
    p = d["product"]
    model = p.model.encode("utf-8", "surrogatepass")
    return (f"{int(p.type)},{c_int(p.id)},{p.uid},{c_int(p.logo)},{c_int(p.image)},{hexs(model)}" + keys(d, "product"))


def canon_password(d):
    p = d["password"]
    return ("N" if p is None else hexs(p.encode()) if type(p) is str else "?") + keys(d, "password")


FAM = {
    "ecomax": (EcomaxParametersResponse, EcomaxParametersStructure, canon_ecomax),
    "mixer": (MixerParametersResponse, MixerParametersStructure, canon_mixer),
    "thermostat": (ThermostatParametersResponse, ThermostatParametersStructure, canon_thermostat),
    "schedules": (SchedulesResponse, SchedulesStructure, canon_schedules),
    "alerts": (AlertsResponse, AlertsStructure, canon_alerts),
    "uid": (UIDResponse, ProductInfoStructure, canon_uid),
    "password": (PasswordResponse, None, canon_password),
}


def err_kind(e):
    if isinstance(e, IndexError):
        return "index"
    if isinstance(e, UnboundLocalError):
        return "unbound"
    if isinstance(e, pystruct.error):
        return "struct"
    if isinstance(e, ValueError):
        return "value"
    return "other-" + type(e).__name__


_DEVS = {}


def device(T):
    """a real EcoMAX device whose data says `T` thermostats are available"""
    if T not in _DEVS:
        d = EcoMAX(asyncio.Queue(), NetworkInfo())
        d.data["thermostats_available"] = T
        _DEVS[T] = d
    return _DEVS[T]


STALLS = [0]   # decodes cut short by the CPU watchdog in this run


def attempt(fn, canon):
    # a decode that does not come back (e.g. a pattern that backtracks exponentially on the text of the payload) is a
    # failing input of the decoder, not a harness timeout: cut it after a generous CPU bound (watchdog.py; the same
    # device as in the C09 harness).  After a few such decodes the bound drops: the point is made, the run must end
    with watchdog.Watchdog(watchdog.bound() if STALLS[0] < 3 else 0.5) as dog:
        try:
            v = fn()
        except Exception as e:  # noqa: BLE001
            return "E:" + err_kind(e)
    if dog.fired:
        STALLS[0] += 1
        return f"!stall: decoding did not come back within {dog.cpu_s:.1f} s of CPU"
    try:
        return canon(v)
    except Exception as e:  # noqa: BLE001
        return f"!canon-{type(e).__name__}:{e}"


def scramble(x, depth=0):
    """modify a decoded structure in place, everywhere: ParameterValues fields, list items, dict values"""
    if depth > 6:
        return
    if isinstance(x, dict):
        for k in list(x):
            scramble(x[k], depth + 1)
            if isinstance(x[k], (bool, int)) and not isinstance(x[k], bool):
                x[k] = x[k] + 1
    elif isinstance(x, list):
        for i, it in enumerate(x):
            scramble(it, depth + 1)
            if isinstance(it, bool):
                x[i] = not it
            elif isinstance(it, int):
                x[i] = it + 1
    elif isinstance(x, tuple):
        for it in x:
            scramble(it, depth + 1)
    elif hasattr(x, "min_value") and hasattr(x, "max_value") and hasattr(x, "value"):
        try:
            x.value, x.min_value, x.max_value = x.value + 1, x.min_value + 1, x.max_value + 7
        except Exception:  # noqa: BLE001
            pass


def observe(fam, payload, T):
    """decode `payload` with the real code.  Returns (canonical value or E:kind incl. consumed
    byte count, list of purity problems)."""
    cls, struct_cls, canon = FAM[fam]
    payload = bytes(payload)
    msg = bytearray(payload)
    frame = cls(message=msg)
    if T is not None:
        frame.assign_to(device(T))
    first = attempt(lambda: frame.data, canon)
    if first.startswith("!stall"):
        return first, []
    problems = []
    again = [attempt(lambda: frame.decode_message(frame.message), canon) for _ in range(2)]
    fresh = cls(message=bytearray(payload))
    if T is not None:
        fresh.assign_to(device(T))
    again.append(attempt(lambda: fresh.data, canon))
    if any(a != first for a in again):
        problems.append(dict(what="decoding the same payload again gives a different result", first=first, again=again))
    # the decoded values belong to the caller: whatever is done to them (Parameter.set() assigns into a decoded
    # ParameterValues in place, ScheduleDay edits the decoded bit lists) a later decode of the same bytes must
    # give the same result -- catches decoders that hand out shared / cached mutable objects
    if not (first.startswith("E:") or first.startswith("!")):
        try:
            scramble(frame.data)
        except Exception:  # noqa: BLE001
            pass
        later = cls(message=bytearray(payload))
        if T is not None:
            later.assign_to(device(T))
        after = attempt(lambda: later.data, canon)
        if after != first:
            problems.append(dict(what="decoding the same payload after the previously decoded values were modified in place gives a different result "
                                      "(decoded objects are shared between decodes)", first=first, again=[after]))
    if bytes(msg) != payload or bytes(frame.message) != payload:
        problems.append(dict(what="decoding modified the payload", before=payload.hex(), after=bytes(msg).hex()))
    if first.startswith("E:") or first.startswith("!"):
        return first, problems
    if struct_cls is None:
        consumed = len(payload)
    else:
        smsg = bytearray(payload)
        try:
            data, off = struct_cls(frame).decode(smsg)
            sv = canon(data)
        except Exception as e:  # noqa: BLE001
            sv, off = "E:" + err_kind(e), 0
        if sv != first:
            problems.append(dict(what="structure decoder and frame.data differ", frame=first, structure=sv))
        if bytes(smsg) != payload:
            problems.append(dict(what="structure decoder modified the payload"))
        consumed = min(off, len(payload))
    return f"{first} {consumed}", problems


# ----------------------------------------------------------------------------- generators


def slot_str(s):
    return "-" if s is None else "/".join(map(str, s))


def gen_slot(rng, size=1, hole_p=0.25):
    top = 256 ** size - 1
    r = rng.random()
    if r < hole_p:
        return None
    if r < hole_p + 0.12:  # the D5 region: 0xFF bytes and zeros mixed
        return tuple(rng.choice([0, top, top, 255, top - 1]) for _ in range(3))
    if r < hole_p + 0.2:
        return tuple(rng.choice([0, 1, 254, 255, 256, top - 1, top]) % (top + 1) for _ in range(3))
    return tuple(rng.randrange(top + 1) for _ in range(3))


def gen_ecomax(rng, tier):
    n = 700 if tier == "quick" else 30000
    for k in range(n):
        start = rng.choice([0, 0, rng.randrange(256), rng.randrange(140), 255])
        cnt = rng.choice([0, 1, 2, rng.randrange(40), rng.randrange(12)]) if k % 97 else rng.choice([139, 200, 255])
        hp = rng.choice([0.0, 0.25, 0.25, 0.9])
        slots = [gen_slot(rng, 1, hp) for _ in range(cnt)]
        yield f"p2enc ecomax {rng.randrange(256)} {start} " + " ".join(map(slot_str, slots)), [None], f"n={min(cnt, 40) // 10 * 10}+"


def gen_mixer(rng, tier):
    n = 600 if tier == "quick" else 30000
    for _ in range(n):
        start = rng.choice([0, 0, rng.randrange(30), rng.randrange(256)])
        cnt = rng.choice([0, 1, rng.randrange(14), rng.randrange(24)])
        mixers = rng.choice([0, 1, 2, 3, 4, rng.randrange(6)])
        groups = []
        for _ in range(mixers):
            hp = rng.choice([0.0, 0.25, 0.25, 1.0])  # 1.0: a mixer without any defined parameter is not listed
            groups.append("| " + " ".join(slot_str(gen_slot(rng, 1, hp)) for _ in range(cnt)))
        yield f"p2enc mixer {rng.randrange(256)} {start} {cnt} " + " ".join(groups), [None], f"mixers={mixers}"


def gen_thermostat(rng, tier):
    n = 700 if tier == "quick" else 30000
    for _ in range(n):
        T = rng.choice([1, 1, 2, 2, 3, 4])
        shape = rng.random()
        if shape < 0.45:  # start = 0, count = per*T + extra (extra = 1: the profile triple counted in)
            start, per = 0, rng.randrange(0, 16)
            extra = rng.choice([0, 1, rng.randrange(T)]) % T
            count = per * T + extra
            label = "start0"
        elif shape < 0.75:  # one thermostat, any start
            T = 1
            start = rng.randrange(0, 15)
            per = rng.randrange(0, 16 - start)
            count = per
            label = "T1"
        elif shape < 0.9:  # any start, several thermostats: whatever (start+count)//T gives
            start = rng.randrange(0, 15)
            e = rng.randrange(start, 16)
            count = e * T + rng.randrange(T) - start
            if not 0 <= count < 256:
                continue
            per = e - start
            label = "general"
        else:  # indexes beyond the description table -> IndexError
            start = rng.randrange(0, 18)
            per = rng.randrange(max(0, 16 - start), 22)
            count = (start + per) * T - start
            if not 0 <= count < 256:
                continue
            label = "beyond-table"
        assert (start + count) // T - start == per or (start + count) // T < start
        groups = []
        for _ in range(T):
            hp = rng.choice([0.0, 0.25, 0.25, 1.0])
            groups.append("| " + " ".join(
                slot_str(gen_slot(rng, THERMO_SIZES[start + k] if start + k < len(THERMO_SIZES) else 1, hp)) for k in range(per)))
        others = [None, 0] + ([rng.choice([1, 2, 3, 4, 5])] if rng.random() < 0.3 else [])
        yield (f"p2enc thermostat {rng.randrange(256)} {start} {count} {slot_str(gen_slot(rng, 1, 0.2))} " + " ".join(groups),
               [T] + [t for t in others if t != T], f"{label},T={T}")


def gen_bits(rng, k):
    r = rng.random()
    if r < 0.1:
        return [[False] * 48 for _ in range(7)]
    if r < 0.2:
        return [[True] * 48 for _ in range(7)]
    if r < 0.45:  # a single slot set / cleared: position errors show
        v = rng.random() < 0.5
        days = [[not v] * 48 for _ in range(7)]
        pos = k % 336 if rng.random() < 0.7 else rng.randrange(336)
        days[pos // 48][pos % 48] = v
        return days
    return [[rng.random() < 0.5 for _ in range(48)] for _ in range(7)]


def gen_schedules(rng, tier):
    n = 450 if tier == "quick" else 12000
    for k in range(n):
        cnt = rng.choice([0, 1, 1, 2, 3, rng.randrange(6)])
        ents = []
        for j in range(cnt):
            idx = rng.choice([rng.randrange(40), rng.randrange(40), rng.randrange(256)])
            sw = rng.choice([0, 1, 1, rng.randrange(256)])
            days = gen_bits(rng, k * 5 + j)
            ents.append(f"{idx} {sw} {slot_str(gen_slot(rng, 1, 0.3))} " + ".".join("".join("1" if b else "0" for b in d) for d in days))
        yield f"p2enc schedules {rng.randrange(256)} {rng.randrange(256)} " + " ".join(ents), [None], f"n={cnt}"


DIM = [31, 28, 31, 30, 31, 30, 31, 31, 30, 31, 30, 31]


def gen_date(rng):
    r = rng.random()
    if r < 0.06:
        return rng.choice([(2000, 1, 1, 0, 0, 0), (2133, 8, 18, 6, 28, 14), (2133, 8, 18, 6, 28, 15), (2000, 2, 29, 23, 59, 59),
                           (2100, 2, 28, 12, 0, 0), (2024, 2, 29, 0, 0, 0), (2099, 12, 31, 23, 59, 59), (2133, 1, 1, 0, 0, 0)])
    y = rng.randrange(2000, 2134) if rng.random() < 0.5 else rng.randrange(2015, 2035)
    mo = rng.randrange(1, 13)
    if r < 0.14:  # impossible calendar dates the 31-day-month arithmetic can express -> ValueError
        d = rng.choice([29, 30, 31])
    elif r < 0.3:
        d = DIM[mo - 1]
    else:
        d = rng.randrange(1, DIM[mo - 1] + 1)
    return (y, mo, d, rng.choice([0, 23, rng.randrange(24)]), rng.choice([0, 59, rng.randrange(60)]), rng.choice([0, 59, rng.randrange(60)]))


def gen_alerts(rng, tier):
    n = 800 if tier == "quick" else 40000
    for _ in range(n):
        cnt = rng.choice([0, 1, 1, 2, 3, rng.randrange(7)])
        recs = []
        for _ in range(cnt):
            to = "open" if rng.random() < 0.4 else "-".join(map(str, gen_date(rng)))
            recs.append(f"{rng.choice([rng.randrange(12), rng.randrange(256)])} " + "-".join(map(str, gen_date(rng))) + " " + to)
        yield f"p2enc alerts {rng.randrange(256)} {rng.randrange(256)} " + " ".join(recs), [None], f"n={cnt}"


LETTERS = "EMemABXyzkq"


def gen_name(rng):
    r = rng.random()
    if r < 0.08:
        return b""
    if r < 0.75:  # shapes around the model-name pattern  letters, spaces, digits, suffix
        dev = rng.choice(["EM", "EM", "em", "Em", "ecoMAX", "ECOMAX", "", "E", "EMX"] + ["".join(rng.choice(LETTERS) for _ in range(rng.randrange(1, 5)))])
        sp = " " * rng.choice([0, 0, 1, 2])
        num = "".join(rng.choice("0123456789") for _ in range(rng.choice([0, 1, 2, 3, 3, 4, 5])))
        suf = rng.choice(["", "", "P", "P1-C", " x", "-", "i 2", "9a", "_"])
        return (dev + sp + num + suf).encode()
    if r < 0.9:
        return bytes(rng.randrange(32, 127) for _ in range(rng.randrange(1, 20)))
    return bytes(rng.randrange(256) for _ in range(rng.randrange(1, 12)))  # not compared (opaque)


def gen_uid(rng, tier):
    n = 800 if tier == "quick" else 40000
    for k in range(n):
        pt = rng.choice([0, 1]) if rng.random() < 0.93 else rng.randrange(256)
        ulen = rng.choice([0, 1, 5, 12, 12, rng.randrange(40)]) if k % 61 else 255
        uid = bytes(rng.choice([0, 0xFF, rng.randrange(256)]) if rng.random() < 0.1 else rng.randrange(256) for _ in range(ulen))
        name = gen_name(rng) if k % 67 else bytes(rng.randrange(32, 127) for _ in range(255))
        if k % 41 == 7:   # texts drawn from shape families (long runs of letters, words, repeated blanks … up to 255 bytes)
            name = strshapes.shape(rng, 255, rng.choice(["one-letter", "letters", "words", "words-wide", "letters-digits", "sep-runs",
                                                         "period2", "digits", "blank", "digits-letters"]))[1]
        vals = [rng.choice([0, 255, 256, 65535, rng.randrange(65536)]) for _ in range(3)]
        yield f"p2enc uid {pt} {vals[0]} {hexs(uid)} {vals[1]} {vals[2]} {hexs(name)}", [None], f"uidlen={min(ulen, 40) // 10 * 10}+"


def gen_password(rng, tier):
    n = 600 if tier == "quick" else 20000
    for _ in range(n):
        r = rng.random()
        if r < 0.1:
            pw = b""
        elif r < 0.4:
            pw = "".join(rng.choice("0123456789") for _ in range(rng.randrange(1, 9))).encode()
        elif r < 0.8:
            cps = []
            for _ in range(rng.randrange(1, 7)):
                cp = rng.choice([rng.randrange(0x80), rng.randrange(0x80, 0x800), rng.randrange(0x800, 0x10000), rng.randrange(0x10000, 0x110000),
                                 0x7F, 0x80, 0x7FF, 0x800, 0xFFFF, 0x10000, 0x10FFFF, 0xD7FF, 0xE000])
                if 0xD800 <= cp < 0xE000:
                    cp = 0x41
                cps.append(cp)
            pw = "".join(map(chr, cps)).encode()
        else:  # mostly invalid
            pw = bytes(rng.choice([0xC0, 0xC1, 0xC2, 0xE0, 0xED, 0xF0, 0xF4, 0xF5, 0x80, 0xBF, 0xA0, 0x9F, 0x90, 0x8F, 0x41, rng.randrange(256)])
                       for _ in range(rng.randrange(1, 6)))
        yield f"p2enc password {rng.randrange(256)} {hexs(pw)}", [None], "empty" if not pw else "ascii" if max(pw) < 128 else "multibyte"
    if tier != "quick":  # every 1- and 2-byte sequence
        for a in range(256):
            yield f"p2enc password 0 {hexs(bytes([a]))}", [None], "exh1"
            for b in range(256):
                yield f"p2enc password 0 {hexs(bytes([a, b]))}", [None], "exh2"


GENS = dict(ecomax=gen_ecomax, mixer=gen_mixer, thermostat=gen_thermostat, schedules=gen_schedules,
            alerts=gen_alerts, uid=gen_uid, password=gen_password)


def malform(rng, fam, payload, tier):
    """byte-level variants of an encoded payload: truncations, replacements, insertions"""
    n = len(payload)
    out = []
    if n:
        cuts = set([0, 1, 2, 3, 4, n - 1] + [rng.randrange(n) for _ in range(3)])
        for c in cuts:
            if 0 <= c < n:
                out.append(("trunc", payload[:c]))
        for _ in range(3):
            b = bytearray(payload)
            pos = rng.choice([0, 1, 2, 3, rng.randrange(n)]) % n
            b[pos] = rng.choice([0, 1, 255, b[pos] ^ 1, rng.randrange(256), (b[pos] + 1) % 256])
            out.append(("replace", bytes(b)))
        b = bytearray(payload)
        pos = rng.randrange(n)
        if rng.random() < 0.5:
            del b[pos]
            out.append(("delete", bytes(b)))
        else:
            b.insert(pos, rng.randrange(256))
            out.append(("insert", bytes(b)))
    return out


def dec_line(fam, payload, T):
    if fam == "thermostat":
        return f"p2dec thermostat {'none' if T is None else T} {hexs(payload)}"
    return f"p2dec {fam} {hexs(payload)}"


def strip_opaque(fam, model, impl):
    """uid: where the model-name bytes are not printable ASCII the model does not define the
    formatted name (`~`); the name is then not compared"""
    if fam == "uid" and not model.startswith("E:") and not impl.startswith(("E:", "!")):
        mv, mc = model.rsplit(" ", 1)
        if mv.endswith(",~"):
            iv, ic = impl.rsplit(" ", 1)
            return mv[:-2] + " " + mc, iv.rsplit(",", 1)[0] + " " + ic
    return model, impl


def compare_all(res, streams, tier):
    """streams: list of dict(fam, payload, T, label, [expect=(value, consumed), enc=line])"""
    answers = driver_batch(dec_line(s["fam"], s["payload"], s["T"]) for s in streams)
    for s, model in zip(streams, answers):
        fam, payload, T = s["fam"], s["payload"], s["T"]
        impl, problems = observe(fam, payload, T)
        inp = dict(family=fam, payload=bytes(payload).hex(), thermostats=T, label=s["label"])
        if s.get("enc"):
            inp["message"] = s["enc"]
        res.case((fam, bytes(payload), T), nontrivial=len(payload) > 3)
        res.count(f"{fam}:{s['label'].split(',')[0]}")
        res.count(f"{fam}:outcome:" + (impl if impl.startswith("E:") else "value"))
        for p in problems:
            res.fail("spec", inp, "same result on every decode, payload untouched", p,
                     f"purity: {p['what']}")
        exp = s.get("expect")
        if exp is not None:
            e, i = strip_opaque(fam, exp, impl)
            if e != i:
                res.fail("spec", inp, e, i,
                         f"{fam}: decoding a well-formed payload does not give the encoded values (or consumes a different number of bytes)")
            em, mm = strip_opaque(fam, exp, model)
            if em != mm:
                res.fail("corr", inp, em, mm, f"{fam}: Lean decoder disagrees with the Lean encoder's value (instance of rt_{fam})")
        m, i = strip_opaque(fam, model, impl)
        if model == "bad-op":
            res.fail("corr", inp, "an answer", model, "driver rejected the request")
        elif m != i:
            res.fail("corr", inp, m, i, f"{fam}: decoder model and implementation differ")
        if len(res.samples) < 14 and not any(x["family"] == fam and x["kind"] == (exp is not None) for x in res.samples):
            res.sample(dict(family=fam, kind=exp is not None, payload=bytes(payload).hex()[:160], thermostats=T,
                            observed=impl[:300], model=model[:300]), limit=14)


def build_streams(rng, tier, fams):
    enc_lines = []
    for fam in fams:
        for fn, ln in load_corpus("C05params"):
            if ln.startswith(f"p2enc {fam} "):
                enc_lines.append((fam, ln, [None] if fam != "thermostat" else [ln.split().count("|"), None, 0], "corpus"))
        for line, Ts, label in GENS[fam](rng, tier):
            enc_lines.append((fam, line.rstrip(), Ts, label))
    answers = driver_batch(e[1] for e in enc_lines)
    streams = []
    for (fam, line, Ts, label), ans in zip(enc_lines, answers):
        if ans == "bad-op":
            raise RuntimeError(f"driver rejected generated message: {line[:200]}")
        hx, wf, val = ans.split(" ", 2)
        payload = b"" if hx == "-" else bytes.fromhex(hx)
        trailing = b"" if fam == "password" or rng.random() < 0.3 else bytes(rng.randrange(256) for _ in range(rng.randrange(1, 5)))
        for k, T in enumerate(Ts):
            s = dict(fam=fam, payload=payload + trailing, T=T, label=label + (",wf" if wf == "1" else ",not-wf"), enc=line)
            if wf == "1" and k == 0:
                # the intended reading: value the message stands for, consuming exactly the encoded bytes
                s["expect"] = f"{val} {len(payload)}"
            elif fam == "thermostat":
                s["label"] = label + (",no-device" if T is None else ",T=0" if T == 0 else ",other-T")
            streams.append(s)
        if len(payload) <= 130 and (label == "corpus" or rng.random() < (0.06 if tier == "quick" else 0.04)):
            # EVERY strict prefix (C05.short_*: which prefixes raise, which silently decode to another value)
            for cut in range(len(payload)):
                for T in (Ts[:1] if fam == "thermostat" else [None]):
                    streams.append(dict(fam=fam, payload=payload[:cut], T=T, label="prefix-all"))
        if rng.random() < (0.5 if tier == "quick" else 0.3):
            for kind, b in malform(rng, fam, payload, tier):
                for T in (Ts if fam == "thermostat" else [None]):
                    streams.append(dict(fam=fam, payload=b, T=T, label=kind))
    # pure noise
    for fam in fams:
        for _ in range(150 if tier == "quick" else 5000):
            n = rng.choice([0, 1, 2, 3, 4, 5, rng.randrange(64), rng.randrange(200)])
            b = bytes(rng.choice([0, 1, 2, 255, rng.randrange(256)]) if rng.random() < 0.3 else rng.randrange(256) for _ in range(n))
            for T in ([rng.choice([1, 2, 3]), None, 0] if fam == "thermostat" else [None]):
                streams.append(dict(fam=fam, payload=b, T=T, label="noise"))
    for fn, ln in load_corpus("C05params"):
        w = ln.split()
        if w[0] == "p2raw" and w[1] in fams:
            streams.append(dict(fam=w[1], T=None if w[2] == "none" else int(w[2]), payload=b"" if w[3] == "-" else bytes.fromhex(w[3]), label="corpus-raw"))
    return streams


KNOWN_UIDS = [("001600110d383338365539", "D251PAKR3GCPZ1K8G05G0"), ("002500300e191932135831", "CE71HB09J468P1ZZ00980")]


def uid_text_checks(res, rng, tier):
    """helpers.uid.decode_uid vs the model's `uidString`, in particular on the inputs where the
    theorems say the text does NOT determine the bytes (C05.uidString_eq_iff_padded, uid_collision):
    u, u + [crc_lo], u + [crc_lo, crc_hi], … + zero bytes -- and u + [0], which does differ."""
    from pyplumio.helpers.uid import decode_uid

    uids = [b"", b"\x00", b"\x00\x00", bytes(11), bytes.fromhex("001600110d383338365539"), bytes.fromhex("002500300e191932135831")]
    for _ in range(150 if tier == "quick" else 6000):
        n = rng.choice([0, 1, 2, 5, 11, 11, 12, rng.randrange(40)])
        uids.append(bytes(rng.choice([0, 0, 255, rng.randrange(256)]) if rng.random() < 0.2 else rng.randrange(256) for _ in range(n)))
    # the controller's own UID texts (tests/helpers/test_uid.py): literal ground truth, so that a changed
    # BASE5_KEY / CRC / POLYNOMIAL constant (which the translated model follows) still yields a concrete failing input
    for hx, text in KNOWN_UIDS:
        impl = decode_uid(bytes.fromhex(hx))
        res.case(("uidtext-known", hx))
        if impl != text:
            res.fail("spec", dict(family="uidtext", payload=hx, thermostats=None, label="uidtext-known"), text, impl,
                     "uid text: a UID of a real controller is not rendered as the controller prints it")
    base = driver_batch("p2uidtext " + hexs(u) for u in uids)
    variants = []
    for u, ans in zip(uids, base):
        crc = int(ans.split()[1])
        lo, hi = crc % 256, crc // 256
        variants.append([u, u + bytes([lo]), u + bytes([lo, hi]), u + bytes([lo, hi, 0, 0]), u + b"\x00", u + bytes([lo ^ 1])])
    flat = [v for vs in variants for v in vs]
    answers = iter(driver_batch("p2uidtext " + hexs(v) for v in flat))
    for vs in variants:
        texts_impl, texts_model = [], []
        for v in vs:
            t = next(answers).split()[0]
            model = "" if t == "-" else t
            try:
                impl = decode_uid(v)
            except Exception as e:  # noqa: BLE001
                impl = "E:" + type(e).__name__
            texts_impl.append(impl)
            texts_model.append(model)
            res.case(("uidtext", v), nontrivial=len(v) > 0)
            res.count("uidtext:len=" + str(min(len(v), 40) // 10 * 10) + "+")
            if impl != model:
                res.fail("corr", dict(family="uidtext", payload=v.hex(), thermostats=None, label="uidtext"), model, impl,
                         "uid text: decode_uid and the model's uidString differ")
        # the characterised loss, observed on the implementation itself
        if texts_impl[0] == texts_impl[1] == texts_impl[2] == texts_impl[3]:
            res.count("uidtext:collision u / u+crc_lo / u+crc / u+crc+00 00 confirmed on decode_uid")
        else:
            res.fail("corr", dict(family="uidtext", payload=vs[0].hex(), thermostats=None, label="uidtext-collision"),
                     "equal texts (C05.uid_collision)", texts_impl[:4], "uid text: appending the own checksum byte(s) should not change the text")
        if texts_impl[5] == texts_impl[1]:
            res.fail("corr", dict(family="uidtext", payload=vs[0].hex(), thermostats=None, label="uidtext-injective"),
                     "different texts (C05.uidString_injective_fixed_len)", texts_impl, "uid text: equal-length UIDs with equal text")
        if len(res.samples) < 14 and not any(x.get("family") == "uidtext" for x in res.samples):
            res.sample(dict(family="uidtext", kind=True, uid=vs[0].hex(), variants=[v.hex() for v in vs], observed=texts_impl), limit=14)


def run(ctx):
    rng = random.Random(ctx["seed"] * 104729 + 5)
    res = Result(PROP)
    res.rule = ("abstract messages per family (ecomax / mixer / thermostat parameter blocks with arbitrary start, count, holes, "
                "0xFF-mixed triples, 1..4 thermostats in the shapes start=0 / T=1 / general / beyond-table; schedules 0..5 entries "
                "with single-bit, constant and random 7x48 bitmaps; alerts 0..6 with open/closed intervals, boundary and impossible "
                "dates; UID responses with 0..255-byte UIDs and model names around the format pattern; passwords incl. multi-byte and "
                "invalid UTF-8) are encoded by the Lean driver, given 0..4 trailing bytes, and decoded by the real frames; thermostat "
                "payloads with the intended device, another thermostat count, 0 thermostats and no device; plus truncations, byte "
                "replacements / insertions / deletions of the encoded payloads and random noise. distinct = (family, payload bytes, "
                "thermostat count); non-trivial = payload longer than the 3-byte header")
    fams = list(GENS)
    streams = build_streams(rng, ctx["tier"], fams)
    streams.sort(key=lambda s: "expect" not in s)  # well-formed messages first (stable): spec failures are never crowded out
    if ctx.get("max_cases"):
        streams = streams[: ctx["max_cases"]]
    compare_all(res, streams, ctx["tier"])
    uid_text_checks(res, rng, ctx["tier"])
    res.failures.sort(key=lambda f: (f["kind"] != "spec", len(f["input"].get("payload", ""))))  # smallest concrete failing input first
    res.extra["round_trip_theorems"] = ["rt_params_ecomax", "rt_params_mixer", "rt_params_thermostat", "rt_schedules", "rt_alerts", "rt_uid", "rt_password"]
    res.extra["decodes_per_payload"] = "frame.data, 2 x decode_message on the same frame, fresh frame, structure decoder (offset)"
    res.notes.append("uid: the formatted model name is compared only where the name bytes are printable ASCII (model defines format_model_name there)")
    res.notes.append("thermostat parameters without an owning device raise UnboundLocalError; the model returns the same error class (documented exclusion)")
    return res


def replay(ctx):
    f = ctx["replay"].get("failure") or ctx["replay"].get("first_difference")
    inp = f["input"]
    res = Result(PROP)
    res.rule = "replay of one recorded payload"
    payload = bytes.fromhex(inp["payload"])
    if inp["family"] == "uidtext":
        from pyplumio.helpers.uid import decode_uid

        t = driver_batch(["p2uidtext " + hexs(payload)])[0].split()[0]
        model = "" if t == "-" else t
        impl = decode_uid(payload)
        res.case(("uidtext", payload))
        res.sample(dict(uid=payload.hex(), observed=impl, model=model))
        for hx, text in KNOWN_UIDS:
            if hx == payload.hex() and impl != text:
                res.fail("spec", inp, text, impl, "uid text: a UID of a real controller is not rendered as the controller prints it")
        if impl != model:
            res.fail("corr", inp, model, impl, "uid text: decode_uid and the model's uidString differ")
        return res
    s = dict(fam=inp["family"], payload=payload, T=inp.get("thermostats"), label="replay:" + inp.get("label", ""))
    if inp.get("message") and inp.get("label", "").endswith(",wf"):
        hx, wf, val = driver_batch([inp["message"]])[0].split(" ", 2)
        enc = b"" if hx == "-" else bytes.fromhex(hx)
        if wf == "1" and payload.startswith(enc) and "expect" not in s and inp.get("label", "").endswith(",wf"):
            s["expect"] = f"{val} {len(enc)}"
            s["enc"] = inp["message"]
    compare_all(res, [s], "quick")
    return res

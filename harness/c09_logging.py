"""Logging configuration as a DIMENSION of the pipeline runs (C09, C16 over a protocol).

The statement of C09 does not mention logging: whatever the application configured for the
`pyplumio` loggers, an undecodable frame is dropped and the connection keeps working.  The
library logs every received frame at DEBUG (`stream.py`: "Received frame: %s"), which formats —
and thereby DECODES — the frame inside the reader when, and only when, a handler actually
formats the record.  So "which code runs where" depends on the configuration:

    default        the harness default: logging disabled (nothing is formatted)
    info           level INFO, a handler that formats every record it gets (what most applications have)
    debug          level DEBUG, the same handler (every "Received frame" line is formatted: frame decoded in the reader)
    debug-bare     level DEBUG, NO handler (records are created and dropped by the last-resort handler)

The handler formats like `logging.StreamHandler.emit`: an exception raised while formatting is
handed to `Handler.handleError` (which prints to stderr only when `logging.raiseExceptions`; it is
switched off here), it never reaches the code that logged.
"""
import io
import logging

MODES = ["default", "info", "debug", "debug-bare"]


class _Sink(logging.StreamHandler):
    def __init__(self):
        super().__init__(io.StringIO())
        self.records = 0

    def emit(self, record):
        self.records += 1
        super().emit(record)
        self.stream.seek(0)
        self.stream.truncate(0)


class Logging:
    def __init__(self, mode="default"):
        assert mode in MODES, mode
        self.mode = mode
        self.sink = None

    def __enter__(self):
        if self.mode == "default":
            return self
        self.lg = logging.getLogger("pyplumio")
        self.old = (self.lg.level, self.lg.propagate, logging.raiseExceptions, logging.lastResort)
        logging.raiseExceptions = False
        self.lg.setLevel(logging.INFO if self.mode == "info" else logging.DEBUG)
        if self.mode == "debug-bare":
            quiet = _Sink()
            quiet.setLevel(logging.WARNING)
            logging.lastResort = quiet          # as the real one: WARNING and above, but not on stderr
            self.lg.propagate = True
        else:
            self.sink = _Sink()
            self.lg.addHandler(self.sink)
            self.lg.propagate = False
        logging.disable(logging.NOTSET)
        return self

    def __exit__(self, *a):
        if self.mode == "default":
            return False
        logging.disable(logging.CRITICAL)
        if self.sink is not None:
            self.lg.removeHandler(self.sink)
        self.lg.setLevel(self.old[0])
        self.lg.propagate = self.old[1]
        logging.raiseExceptions = self.old[2]
        logging.lastResort = self.old[3]
        return False

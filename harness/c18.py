"""C18 correspondence: `ScheduleDay.set_state` and the receive -> edit -> `Schedule.commit()`
pipeline of a real EcoMAX device against the Lean model of Model/Schedule.lean, plus the
property's own predicate (written from the statement, at slot / bit level) judged on what the
implementation did."""
import asyncio
import datetime as _dt
import json
import random

from common import Result, driver_batch, hexs, load_corpus, use_repo

use_repo()

import warnings  # noqa: E402

import vloop  # noqa: E402

warnings.filterwarnings("ignore", category=RuntimeWarning)  # never-awaited coroutines of a failing dispatch are part of the behaviour
from pyplumio.helpers.schedule import ScheduleDay  # noqa: E402

STATES = ("on", "off", "day", "night")
ON = ("on", "day")
TIMES = [f"{h:02d}:{m:02d}" for h in range(24) for m in (0, 30)]
DAYS = ("sunday", "monday", "tuesday", "wednesday", "thursday", "friday", "saturday")  # wire order

BAD_STATES = ["", "ON", "On", " on", "on ", "auto", "1", "true", "offf", "night\n", "dаy", "o\u0000n", "nigh",
              None, 1, 0, True, False, b"on", ("on",)]
BAD_TIMES = ["24:00", "12:60", "1200", "12", "", "12:00:00", "ab:cd", "-1:00", "12:-5", "12.00", "12:0a", "25:61",
             "00:foo", "bar", ":", "12:", ":30", "0x10:00", "1e1:00", "12:00am", "99:99", "12:000", "012:00"]
ODD_TIMES = ["7:5", "07:5", "7:05", " 12:00", "12:00 ", "12 :00", "12: 00", "１２:００", "0:0", "0:00", "00:0",
             "23:59", "00:01", "00:29", "23:31", "12:15", "12:45", "\t01:30", "01:30\n"]


def bits(day):
    return "".join("1" if b else "0" for b in day) or "-"


def parse_time(s):
    """what strptime makes of a time string (parsing is CPython's, trusted): 'H:M' or 'x'"""
    try:
        t = _dt.datetime.strptime(s, "%H:%M")
    except ValueError:
        return "x"
    return f"{t.hour}:{t.minute}"


def aligned_index(s):
    """slot index 0..47 of a time string that strptime reads as a half-hour-aligned time, in WHATEVER spelling it accepts
    ("7:00", "0:0", "00:0", full-width digits ...); None for anything else.  The statement speaks about times, not spellings."""
    p = parse_time(s) if isinstance(s, str) else "x"
    if p == "x":
        return None
    h, m = map(int, p.split(":"))
    return (h * 60 + m) // 30 if m % 30 == 0 else None


def spellings_of(t):
    """the spellings of a zero-padded HH:MM that "%H:%M" accepts: each number with or without its leading zero"""
    h, m = t.split(":")
    return sorted({f"{a}:{b}" for a in (h, str(int(h))) for b in (m, str(int(m)))})


def aligned_slot(parsed):
    """slot index of a parsed 'H:M' (value-aligned to the half hour), else None"""
    if parsed == "x":
        return None
    h, m = map(int, parsed.split(":"))
    return (h * 60 + m) // 30 if m % 30 == 0 else None


def check_time_parse(res, tier):
    """the `%H:%M` specification (Model/TimeParse.lean `parseTime`) against datetime.strptime: EXHAUSTIVELY over all digit
    strings of the shapes d:d, d:dd, dd:d, dd:dd, plus the malformed and oddly written times of this harness"""
    import itertools
    strs = []
    for nh in (1, 2):
        for nm in (1, 2):
            for hd in itertools.product("0123456789", repeat=nh):
                for md in itertools.product("0123456789", repeat=nm):
                    strs.append("".join(hd) + ":" + "".join(md))
    strs += BAD_TIMES + ODD_TIMES + ["7:５", "1２:00", "٣:00", "12:3٠", "é", "12:00\x00", "+1:00", "1_0:00", "1:+5", " 1:5", "1 :5", "1: 5",
                                     "001:00", "1:005", "12:5 ", "2:", ":2", "::", "1:2:3", "１２:００"]
    answers = driver_batch("s.parse " + (hexs(t.encode()) or "-") for t in strs)
    n = 0
    for t, ans in zip(strs, answers):
        res.case(("time-parse", t))
        if not t:
            continue
        want = parse_time(t)
        if ans == "declined":
            res.count("time-parse: declined (non-ASCII character)")
            if t.isascii():
                res.fail("corr", dict(part="time-parse", time=t), "an answer", "declined", "the %H:%M specification declines an ASCII string")
            continue
        n += 1
        res.count("time-parse:" + ("x" if want == "x" else "ok"))
        if ans != want:
            res.fail("corr", dict(part="time-parse", time=t), dict(model=ans), dict(strptime=want),
                     "Model/TimeParse.lean parseTime and datetime.strptime(s, '%H:%M') differ")
    res.notes.append(f"time-parse: {n} strings (all digit strings d:d, d:dd, dd:d, dd:dd + malformed / odd ones) through the %H:%M "
                     "specification and through datetime.strptime")


def state_token(st):
    return hexs(st.encode()) if isinstance(st, str) else hexs(b"<not-a-str>")


def patterns(rng, n):
    ps = [[False] * 48, [True] * 48, [i % 2 == 0 for i in range(48)], [i % 3 == 0 for i in range(48)],
          [i < 24 for i in range(48)]]
    while len(ps) < n:
        ps.append([bool(rng.getrandbits(1)) for _ in range(48)])
    return ps[:n]


# ---------------------------------------------------------------------------------------------
# part 1: ScheduleDay.set_state


def call_set(day_list, st, a, b, how="set_state"):
    day = ScheduleDay(list(day_list))
    held = day.intervals
    try:
        if how == "set_state":
            day.set_state(st, a, b)
        elif how == "set_state_default":
            day.set_state(st)
        elif how == "set_on":
            day.set_on(a, b)
        elif how == "set_off":
            day.set_off(a, b)
        elif how == "set_on_default":
            day.set_on()
        elif how == "set_off_default":
            day.set_off()
        out = "ok"
    except Exception as e:  # noqa: BLE001
        out = type(e).__name__
    after = list(day.intervals)
    same_obj = day.intervals is held
    return after, out, same_obj


def gen_set_cases(rng, tier):
    """yield dict(pattern, state, start, end, how, cls)"""
    quick = tier == "quick"
    pats = patterns(rng, 3 if quick else 8)
    # exhaustive: every aligned (start, end) pair x four states x the patterns
    for p in pats:
        for a in TIMES:
            for b in TIMES:
                for st in STATES:
                    yield dict(cls="aligned", pattern=bits(p), state=st, start=a, end=b, how="set_state")
    # wrappers and defaults
    for p in pats:
        for how in ("set_on_default", "set_off_default"):
            yield dict(cls="wrapper", pattern=bits(p), state="on" if "on" in how else "off", start="00:00", end="00:00", how=how)
        for st in STATES:
            yield dict(cls="wrapper", pattern=bits(p), state=st, start="00:00", end="00:00", how="set_state_default")
        for _ in range(40 if quick else 400):
            a, b = rng.choice(TIMES), rng.choice(TIMES)
            how = rng.choice(["set_on", "set_off"])
            yield dict(cls="wrapper", pattern=bits(p), state="on" if how == "set_on" else "off", start=a, end=b, how=how)
    # malformed states
    for p in pats[:3]:
        for st in BAD_STATES:
            for a, b in (("00:00", "00:00"), ("01:00", "02:30"), ("10:00", "09:00"), ("bad", "01:00")):
                yield dict(cls="bad-state", pattern=bits(p), state=st, start=a, end=b, how="set_state")
    # malformed times in either position
    for p in pats[:3]:
        for t in BAD_TIMES:
            for st in ("on", "night"):
                yield dict(cls="bad-time", pattern=bits(p), state=st, start=t, end="12:00", how="set_state")
                yield dict(cls="bad-time", pattern=bits(p), state=st, start="00:30", end=t, how="set_state")
                yield dict(cls="bad-time", pattern=bits(p), state=st, start=t, end=t, how="set_state")
    # oddly written and non-aligned times (what strptime accepts), and random minutes
    for p in pats[:3]:
        for t in ODD_TIMES:
            for st in ("on", "off"):
                yield dict(cls="odd-time", pattern=bits(p), state=st, start=t, end="23:30", how="set_state")
                yield dict(cls="odd-time", pattern=bits(p), state=st, start="00:00", end=t, how="set_state")
                yield dict(cls="odd-time", pattern=bits(p), state=st, start=t, end=t, how="set_state")
    # every ALIGNED time in every spelling strptime accepts (un-padded hour / minute, other decimal digits), as start and as end,
    # against the midnight end in all its spellings and against aligned ends in a spelling of their own
    def spellings(i):
        h, m = divmod(i * 30, 60)
        return sorted({f"{h:02d}:{m:02d}", f"{h}:{m}", f"{h:02d}:{m}", f"{h}:{m:02d}", f"{h:02d}:{m:02d}".translate(str.maketrans("0123456789", "０１２３４５６７８９")),
                       f"{h}:{m}".translate(str.maketrans("0123456789", "٠١٢٣٤٥٦٧٨٩"))})
    for p in pats[:2]:
        for i in range(48):
            for a in spellings(i):
                for b in spellings(0):
                    yield dict(cls="aligned-spelling", pattern=bits(p), state=rng.choice(STATES), start=a, end=b, how="set_state")
                j = rng.randrange(48)
                yield dict(cls="aligned-spelling", pattern=bits(p), state=rng.choice(STATES), start=a, end=rng.choice(spellings(j)), how="set_state")
                yield dict(cls="aligned-spelling", pattern=bits(p), state=rng.choice(STATES), start=rng.choice(spellings(j)), end=a, how="set_state")
    # every aligned time in every spelling "%H:%M" accepts (each number with or without its leading zero), as start and
    # as end — midnight as the END in all four spellings in particular ("00:00", "0:00", "00:0", "0:0")
    for p in pats[:2]:
        for i, t in enumerate(TIMES):
            for sp in spellings_of(t):
                if sp == t:
                    continue
                for st in ("day", "off"):
                    j = rng.randrange(48)
                    yield dict(cls="spelled", pattern=bits(p), state=st, start=sp, end=rng.choice(spellings_of(TIMES[j])), how="set_state")
                    yield dict(cls="spelled", pattern=bits(p), state=st, start=TIMES[rng.randrange(48)], end=sp, how="set_state")
                    how = rng.choice(["set_state", "set_on", "set_off"])
                    yield dict(cls="spelled", pattern=bits(p), state={"set_on": "on", "set_off": "off"}.get(how, st), start=sp,
                               end=rng.choice(spellings_of("00:00")), how=how)
    for e in spellings_of("00:00"):
        for i in range(0, 48, 5):
            for st in STATES:
                yield dict(cls="spelled", pattern=bits(pats[0]), state=st, start=rng.choice(spellings_of(TIMES[i])), end=e, how="set_state")
    # hand-made days of other lengths (outside the statement; the model says IndexError + partial edit)
    for n in list(range(0, 48)) + [49, 50, 56, 96]:
        for _ in range(4 if quick else 40):
            p = [bool(rng.getrandbits(1)) for _ in range(n)]
            i = rng.randrange(48)
            a, b = TIMES[i], rng.choice(TIMES + ["00:00"] * 8)
            if rng.random() < 0.5 and n:
                a = TIMES[rng.randrange(min(n, 48))]
            yield dict(cls="other-length", pattern=bits(p), state=rng.choice(STATES + ("auto",)), start=a, end=b, how="set_state")
    for _ in range(1500 if quick else 60000):
        p = rng.choice(pats)
        a = f"{rng.randrange(24):02d}:{rng.randrange(60):02d}"
        r = rng.random()
        if r < 0.15:
            b = "00:00"
        elif r < 0.4:  # close to the start: same slot, neighbouring slot, equal
            h, m = map(int, a.split(":"))
            tot = max(0, min(1439, h * 60 + m + rng.randint(-31, 31)))
            b = f"{tot // 60:02d}:{tot % 60:02d}"
        else:
            b = f"{rng.randrange(24):02d}:{rng.randrange(60):02d}"
        yield dict(cls="unaligned", pattern=bits(p), state=rng.choice(STATES), start=a, end=b, how="set_state")


def spec_set(c, after, out):
    """the statement, for aligned times and valid/invalid states: returns None or the clause violated"""
    before = [ch == "1" for ch in c["pattern"] if ch in "01"]
    st, a, b = c["state"], c["start"], c["end"]
    if len(before) != 48:
        # a hand-made day of another length is outside the statement (IndexError mid-loop edits it
        # partially: modelled, theorem set_partial_on_short_day); only ValueError-inertness is judged
        if out == "ValueError" and after != before:
            return "ValueError changed the day"
        return None
    if len(after) != 48:
        return "the day no longer has 48 slots"
    if out not in ("ok", "ValueError"):
        return f"raised {out}, not ValueError"
    if out != "ok" and after != before:
        return "an error changed the day"
    valid_state = isinstance(st, str) and st in STATES
    pa = parse_time(a) if isinstance(a, str) else "x"
    pb = parse_time(b) if isinstance(b, str) else "x"
    if not valid_state:
        return None if out == "ValueError" else "invalid state did not raise ValueError"
    if pa == "x" or pb == "x":
        return None if out == "ValueError" else "unparsable time did not raise ValueError"
    ia, ib = aligned_index(a), aligned_index(b)
    if ia is not None and ib is not None:
        lo = ia
        hi = 47 if ib == 0 else ib          # an end of 00:00 -- however it is spelled -- means the last slot of the day
        if hi <= lo:
            return None if out == "ValueError" else "end not after start did not raise ValueError"
        if out != "ok":
            return "a valid interval raised"
        want = [(st in ON) if lo <= i <= hi else before[i] for i in range(48)]
        if after != want:
            return "slots changed are not exactly start..end set to the requested state"
    else:
        # any minutes: an end (other than 00:00, the end of the day) that is not after the start on the clock must raise
        (sh, sm), (eh, em) = (map(int, pa.split(":")), map(int, pb.split(":")))
        if eh * 60 + em != 0 and eh * 60 + em <= sh * 60 + sm and out != "ValueError":
            return "end not after start did not raise ValueError"
    return None


def run_set_cases(cases, res):
    reqs = []
    obs = []
    for c in cases:
        before = [ch == "1" for ch in c["pattern"] if ch in "01"]
        after, out, same = call_set(before, c["state"], c["start"], c["end"], c["how"])
        obs.append((after, out, same))
        pa = parse_time(c["start"]) if isinstance(c["start"], str) else "x"
        pb = parse_time(c["end"]) if isinstance(c["end"], str) else "x"
        reqs.append(f"s.set {c['pattern']} {state_token(c['state'])} {pa} {pb}")
    answers = driver_batch(reqs)
    # the Lean predicate C18.specSet judges what the implementation did on aligned calls
    jreqs, jidx = [], {}
    for k, (c, (after, out, same)) in enumerate(zip(cases, obs)):
        ia, ib = aligned_index(c["start"]), aligned_index(c["end"])
        if ia is not None and ib is not None and len(c["pattern"]) == 48 and c["pattern"] != "-":
            st = c["state"]
            valid = isinstance(st, str) and st in STATES
            jidx[k] = len(jreqs)
            jreqs.append(f"s.judgeset {c['pattern']} {int(valid)} {int(valid and st in ON)} {ia} "
                         f"{ib} {int(out == 'ValueError')} {bits(after)}")
    verdicts = driver_batch(jreqs)
    for k, (c, (after, out, same), ans) in enumerate(zip(cases, obs, answers)):
        res.count("set:" + c["cls"])
        res.count("set-outcome:" + out)
        inp = {k: (v if isinstance(v, (str, int)) or v is None else repr(v)) for k, v in c.items()}
        inp["part"] = "set"
        res.case(json.dumps([c["pattern"], repr(c["state"]), c["start"], c["end"], c["how"]]), nontrivial=out == "ok" and c["pattern"] != bits(after))
        clause = spec_set(c, after, out)
        if not clause and k in jidx and verdicts[jidx[k]] != "pass":
            clause = "C18.specSet (Lean judge) rejects the observed call"
        if k in jidx:
            res.count("set-judged-by-lean")
        if clause:
            res.fail("spec", inp, "statement of C18 (set_state)", dict(after=bits(after), outcome=out), clause)
        if not same:
            res.fail("corr", inp, "intervals list object kept", "replaced", "set_state replaced the intervals list object")
        want = f"{bits(after)} {out}"
        if ans != want:
            res.fail("corr", inp, ans, want, "model and ScheduleDay.set_state differ")
        if len(res.samples) < 4 and out == "ok" and c["cls"] in ("aligned", "unaligned") and not any(s.get("cls") == c["cls"] for s in res.samples) \
                and c["start"] not in ("00:00",):
            res.sample(dict(cls=c["cls"], before=c["pattern"], state=c["state"], start=c["start"], end=c["end"], after=bits(after)))


# ---------------------------------------------------------------------------------------------
# part 1b: minute sweep -- set_state for every START minute of the day against (quick) the boundary ends of that start /
# (thorough) ALL 1440 end minutes, on the real ScheduleDay; the model answers a whole start in one line (`s.setsweep`,
# run-length encoded) and an oracle written from theorem C18.set_exact_unaligned (exact-minute comparison, exact-midnight
# rule, floored slot indexes) judges each call as well.

MINUTES = [f"{m // 60:02d}:{m % 60:02d}" for m in range(1440)]
FULLWIDTH = str.maketrans("0123456789", "０１２３４５６７８９")
ARABIC = str.maketrans("0123456789", "٠١٢٣٤٥٦٧٨٩")


def sweep_combos():
    """(day pattern, state): every written slot is visible on the first two; the other two have the opposite polarity on
    half of the slots and use the synonyms"""
    alt = [i % 2 == 0 for i in range(48)]
    return [([False] * 48, "on"), ([True] * 48, "off"), (alt, "night"), ([not b for b in alt], "day")]


def sweep_ends(s, full):
    if full:
        return list(range(1440))
    e = set(range(0, 1440, 30)) | {0, 1, 29, 30, 31, 1409, 1410, 1411, 1439}
    for d in (0, 1, 29, 30, 31):
        for x in (s - d, s + d):
            if 0 <= x < 1440:
                e.add(x)
    # the edges of the start's own slot and of its neighbours
    for x in (s // 30 * 30 - 1, s // 30 * 30, s // 30 * 30 + 29, s // 30 * 30 + 30):
        if 0 <= x < 1440:
            e.add(x)
    return sorted(e)


def minute_oracle(before, st, s, e):
    """theorem C18.set_exact_unaligned, in Python: (day afterwards, outcome)"""
    e2 = 23 * 60 + 30 if e == 0 else e
    if st not in STATES or e2 <= s:
        return before, "ValueError"
    lo, hi = s // 30, e2 // 30
    return [(st in ON) if lo <= i <= hi else b for i, b in enumerate(before)], "ok"


def run_minute_sweep(tier, res, starts=None):
    full = tier != "quick"
    combos = sweep_combos()
    starts = list(range(1440)) if starts is None else starts
    reqs, plans = [], []
    for before, st in combos:
        pat = bits(before)
        for s in starts:
            ends = sweep_ends(s, full)
            reqs.append(f"s.setsweep {pat} {state_token(st)} {s} " + ("all" if full else ",".join(map(str, ends))))
            plans.append((before, pat, st, s, ends))
    answers = driver_batch(reqs)
    bits_cache = {}
    n_calls = n_ok = n_aligned = n_sameslot = n_early = 0
    for (before, pat, st, s, ends), ans in zip(plans, answers):
        a = MINUTES[s]
        runs = []      # run-length encoding of what the implementation did, in the driver's format
        toks = []
        for e in ends:
            day = ScheduleDay(list(before))
            try:
                day.set_state(st, a, MINUTES[e])
                out = "ok"
            except Exception as ex:  # noqa: BLE001
                out = type(ex).__name__
            after = day.intervals
            key = tuple(after)
            b = bits_cache.get(key)
            if b is None:
                b = bits_cache[key] = bits(after)
            tok = f"{b}:{out}"
            toks.append(tok)
            if runs and runs[-1][1] == tok:
                runs[-1][0] += 1
            else:
                runs.append([1, tok])
            # the oracle of the theorem, call by call
            want_after, want_out = minute_oracle(before, st, s, e)
            if out != want_out or after != want_after:
                c = dict(part="set", cls="minute-sweep", pattern=pat, state=st, start=a, end=MINUTES[e], how="set_state")
                clause = spec_set(c, list(after), out)      # the statement: aligned pairs, inert ValueError, end not after start
                if clause:
                    res.fail("spec", c, dict(after=bits(want_after), outcome=want_out), dict(after=bits(after), outcome=out), clause)
                else:
                    res.fail("corr", c, dict(after=bits(want_after), outcome=want_out), dict(after=bits(after), outcome=out),
                             "set_state with non-aligned minutes differs from C18.set_exact_unaligned (exact-minute comparison, "
                             "exact-midnight rule, floored slot indexes)")
            n_calls += 1
            if out == "ok":
                n_ok += 1
                e2 = 1410 if e == 0 else e
                if s // 30 == e2 // 30:
                    n_sameslot += 1
            if s % 30 == 0 and e % 30 == 0:
                n_aligned += 1
            if 0 < e < 30:
                n_early += 1
        got = " ".join(f"{n}*{t}" for n, t in runs)
        if got != ans:
            # locate the first end on which model and implementation differ
            model = []
            for r in ans.split(" "):
                n, _, t = r.partition("*")
                model += [t] * (int(n) if n.isdigit() else 0)
            k = next((i for i, (x, y) in enumerate(zip(toks, model)) if x != y), min(len(toks), len(model)))
            e = ends[k] if k < len(ends) else None
            c = dict(part="set", cls="minute-sweep", pattern=pat, state=st, start=a, end=MINUTES[e] if e is not None else None,
                     how="set_state")
            res.fail("corr", c, model[k] if k < len(model) else ans[:80], toks[k] if k < len(toks) else None,
                     "model (s.setsweep) and ScheduleDay.set_state differ")
    res.evaluations += n_calls
    res.nontrivial.add(("minute-sweep", tier, n_ok))
    res.count("set:minute-sweep", n_calls)
    res.count("set:minute-sweep ok", n_ok)
    res.count("set:minute-sweep aligned pairs", n_aligned)
    res.count("set:minute-sweep ok within one slot", n_sameslot)
    res.count("set:minute-sweep end in 00:01..00:29", n_early)
    res.extra["minute_sweep"] = dict(
        starts=len(starts), ends_per_start="all 1440" if full else "every aligned end + start±{0,1,29,30,31} + slot edges + "
        "00:00/00:01/00:29/00:30/00:31/23:29/23:30/23:31/23:59", combos=[f"{bits(b)}/{st}" for b, st in combos], calls=n_calls,
        complete_1440x1440=bool(full and len(starts) == 1440))
    if len(starts) == 1440:
        res.extra["all_start_minutes_enumerated"] = True
    if full and len(starts) == 1440:
        res.extra["minute_pairs_enumerated_completely"] = True
    # spellings strptime accepts: every minute of the day written without padding / with other decimal digits, as start and as end
    cases = []
    alt = bits([i % 2 == 0 for i in range(48)])
    for m in range(1440):
        h, mi = divmod(m, 60)
        forms = {f"{h}:{mi}", f"{h:02d}:{mi}", f"{h}:{mi:02d}", MINUTES[m].translate(FULLWIDTH), f"{h}:{mi}".translate(ARABIC)}
        forms.discard(MINUTES[m])
        for k, t in enumerate(sorted(forms)):
            if full or (m + k) % 4 == 0 or m < 60 or m % 30 in (0, 1, 29):
                cases.append(dict(cls="spelling", pattern=alt, state="on" if k % 2 else "off", start=t, end="00:00", how="set_state"))
                cases.append(dict(cls="spelling", pattern=alt, state="day" if k % 2 else "night", start="00:00", end=t, how="set_state"))
                cases.append(dict(cls="spelling", pattern=alt, state="on", start=t, end=MINUTES[min(1439, m + 1)].translate(FULLWIDTH),
                                  how="set_state"))
    run_set_cases(cases, res)


# ---------------------------------------------------------------------------------------------
# part 2: receive -> edit -> commit on a real EcoMAX


def mk_entry(rng, idx, undefined_param=False):
    mode = rng.random()
    if mode < 0.1:
        bm = bytes(42)
    elif mode < 0.2:
        bm = b"\xff" * 42
    elif mode < 0.35:  # a single slot of a single day: shows day order and bit order
        bm = bytearray(42)
        k = rng.randrange(336)
        bm[k // 8] |= 0x80 >> (k % 8)
        bm = bytes(bm)
    elif mode < 0.45:  # one whole day on
        d = rng.randrange(7)
        bm = bytes(6 * d) + b"\xff" * 6 + bytes(6 * (6 - d))
    else:
        bm = bytes(rng.getrandbits(8) for _ in range(42))
    sw = rng.choice([0, 1, 1, rng.getrandbits(8)])
    if undefined_param:
        par = (255, 255, 255)
    else:
        par = rng.choice([(rng.getrandbits(8), 0, 100), (rng.getrandbits(8), rng.getrandbits(8), rng.getrandbits(8)),
                          (255, 0, 255), (0, 255, 255), (5, 255, 255)])
    return dict(idx=idx, sw=sw, par=list(par), bm=bm.hex())


def mk_response(rng, entries):
    out = bytearray([rng.getrandbits(8), rng.getrandbits(8), len(entries)])
    for e in entries:
        out += bytes([e["idx"], e["sw"], *e["par"]]) + bytes.fromhex(e["bm"])
    return bytes(out)


def rnd_edit(rng, idx, malformed=0.1):
    st = rng.choice(STATES)
    a, b = rng.choice(TIMES), rng.choice(TIMES + ["00:00"] * 6)
    if rng.random() < 0.5:  # mostly valid intervals
        i = rng.randrange(47)
        a, b = TIMES[i], rng.choice(TIMES[i + 1:] + ["00:00"])
    r = rng.random()
    if r < malformed / 2:
        st = rng.choice([s for s in BAD_STATES if isinstance(s, str)])
    elif r < malformed:
        a = rng.choice(BAD_TIMES)
    return [idx, rng.choice(DAYS), st, a, b]


def gen_commit_cases(rng, tier):
    quick = tier == "quick"
    n = 400 if quick else 20000
    for i in range(n):
        # every one of the 40 schedule kinds is the committed one in turn
        idx = i % 40
        k = rng.choice([1, 1, 2, 3, 5])
        others = rng.sample([j for j in range(40) if j != idx], k - 1)
        idxs = others + [idx]
        rng.shuffle(idxs)
        entries = [mk_entry(rng, j) for j in idxs]
        n_edits = rng.choice([0, 0, 1, 2, 3, 6])
        edits = []
        for _ in range(n_edits):
            edits.append(rnd_edit(rng, idx if rng.random() < 0.8 else rng.choice(idxs)))
        yield dict(part="commit", cls="edited" if edits else "unedited", responses=[mk_response(rng, entries).hex()], commit=idx, edits=edits)
    # all 40 kinds in one response
    for _ in range(3 if quick else 60):
        entries = [mk_entry(rng, j) for j in rng.sample(range(40), 40)]
        idx = rng.randrange(40)
        yield dict(part="commit", cls="all-40", responses=[mk_response(rng, entries).hex()], commit=idx,
                   edits=[rnd_edit(rng, idx, 0) for _ in range(3)])
    # two responses: the second replaces the schedules, switches / parameters persist
    for _ in range(40 if quick else 1500):
        a, b = rng.sample(range(40), 2)
        r1 = mk_response(rng, [mk_entry(rng, a), mk_entry(rng, b)])
        second = rng.choice([[a], [b], [a, b], [b, a], []])
        r2 = mk_response(rng, [mk_entry(rng, j, undefined_param=rng.random() < 0.3) for j in second])
        idx = rng.choice([a, b])
        yield dict(part="commit", cls="two-responses", responses=[r1.hex(), r2.hex()], commit=idx,
                   edits=[rnd_edit(rng, idx, 0) for _ in range(rng.choice([0, 1, 2]))])
    # the client KEEPS the Schedule object it got after the first response; the controller reports the same week again
    # (the device replaces its Schedule objects); the client edits and commits the object it holds
    for _ in range(25 if quick else 800):
        a, b = rng.sample(range(40), 2)
        ea, eb = mk_entry(rng, a), mk_entry(rng, b)
        r1 = mk_response(rng, [ea, eb])
        r2 = mk_response(rng, rng.choice([[ea, eb], [eb, ea], [ea]]))
        yield dict(part="commit", cls="kept-object", responses=[r1.hex(), r2.hex()], commit=a, keep=True,
                   edits=[rnd_edit(rng, a, 0) for _ in range(rng.choice([1, 2, 3]))])
    # malformed: duplicate index, undefined parameter, unknown index, truncated payload, commit of an absent schedule
    for _ in range(60 if quick else 2500):
        idx = rng.randrange(40)
        kind = rng.choice(["dup", "undef", "unknown-idx", "trunc", "absent", "short"])
        if kind == "dup":
            entries = [mk_entry(rng, idx), mk_entry(rng, rng.randrange(40)), mk_entry(rng, idx)]
            resp = mk_response(rng, entries)
        elif kind == "undef":
            resp = mk_response(rng, [mk_entry(rng, idx, undefined_param=True)])
        elif kind == "unknown-idx":
            resp = mk_response(rng, [mk_entry(rng, idx), mk_entry(rng, rng.choice([40, 41, 100, 255]))])
        elif kind == "trunc":
            full = mk_response(rng, [mk_entry(rng, idx), mk_entry(rng, (idx + 1) % 40)])
            resp = full[: rng.randrange(3, len(full))]
        elif kind == "short":
            resp = bytes(rng.getrandbits(8) for _ in range(rng.randrange(3)))
        else:
            resp = mk_response(rng, [mk_entry(rng, (idx + 1) % 40)])
        yield dict(part="commit", cls="malformed:" + kind, responses=[resp.hex()], commit=idx,
                   edits=[rnd_edit(rng, idx, 0)] if kind in ("dup", "undef") else [])


def _present(device, names):
    """indexes of the schedules the device offers to the client after the responses"""
    try:
        return sorted(names.index(k) for k in (device.data.get("schedules") or {}))
    except Exception as e:  # noqa: BLE001
        return type(e).__name__


def carried(resp):
    """indexes a schedules response carries by the wire layout: 3 header bytes (the third is the number of
    entries), then per entry index, switch, parameter triple and a 42-byte bitmap"""
    return [resp[3 + 47 * k] for k in range(resp[2])] if len(resp) >= 3 and len(resp) >= 3 + 47 * resp[2] else None


def run_device(cases):
    """per case: (list of edit outcomes, payload hex | exception name, extra) or 'err:<exc>'"""
    from pyplumio.devices.ecomax import EcoMAX
    from pyplumio.frames.responses import SchedulesResponse
    from pyplumio.structures.network_info import NetworkInfo
    from pyplumio.structures.schedules import SCHEDULES

    async def quiesce():
        me = asyncio.current_task()
        for _ in range(10000):
            if not [t for t in asyncio.all_tasks() if t is not me and not t.done()]:
                return
            await asyncio.sleep(0)
        raise RuntimeError("no quiescence")

    async def one(c):
        loop = asyncio.get_running_loop()
        loop.set_exception_handler(lambda *_: None)  # failures inside dispatch tasks are part of the behaviour
        device = EcoMAX(asyncio.Queue(), NetworkInfo())
        try:
            kept = None
            for r in c["responses"]:
                try:
                    device.handle_frame(SchedulesResponse(message=bytearray(bytes.fromhex(r))))
                except Exception as e:  # noqa: BLE001
                    return "err:" + type(e).__name__
                await quiesce()
                if c.get("keep") and kept is None:
                    try:
                        kept = device.data["schedules"][SCHEDULES[c["commit"]]]
                    except Exception as e:  # noqa: BLE001 -- the schedule the response carried is not there: nothing to keep
                        return [type(e).__name__ for _ in c["edits"]], type(e).__name__, dict(present=_present(device, SCHEDULES))
            present = _present(device, SCHEDULES)
            outs = []
            for idx, day, st, a, b in c["edits"]:
                try:
                    sched = kept if kept is not None and idx == c["commit"] else device.data["schedules"][SCHEDULES[idx]]
                    getattr(sched, day).set_state(st, a, b)
                    outs.append("ok")
                except Exception as e:  # noqa: BLE001
                    outs.append(type(e).__name__)
            extra = {}
            try:
                sched = kept if kept is not None else device.data["schedules"][SCHEDULES[c["commit"]]]
                await sched.commit()
                await quiesce()
                req = device.queue.get_nowait()
                extra = dict(frame=type(req).__name__, recipient=int(req.recipient), queue_left=device.queue.qsize(),
                             frame_type=int(req.frame_type))
                payload = bytes(req.message).hex()
            except Exception as e:  # noqa: BLE001
                payload = type(e).__name__
            extra["present"] = present
            return outs, payload, extra
        finally:
            await device.shutdown()

    async def main():
        return [await one(c) for c in cases]

    return vloop.run(main())


def spec_commit(c, outs, payload):
    """statement-level oracle for well-formed single-response cases: header + received bitmap with
    exactly the valid aligned edits applied, Sunday first, slot i of day d at bit 7-(i%8) of byte 6d+i//8"""
    resp = bytes.fromhex(c["responses"][-1])
    n = resp[2]
    entry = None
    for k in range(n):
        e = resp[3 + 47 * k: 3 + 47 * (k + 1)]
        if e[0] == c["commit"]:
            entry = e
    if entry is None:
        return None
    bm = bytearray(entry[5:])
    for (idx, day, st, a, b), o in zip(c["edits"], outs):
        valid = st in STATES and a in TIMES and b in TIMES
        if valid:
            lo = TIMES.index(a)
            hi = 47 if b == "00:00" else TIMES.index(b)
            valid = hi > lo
        if (o == "ok") != valid or o not in ("ok", "ValueError"):
            return f"edit {[idx, day, st, a, b]} outcome {o}"
        if valid and idx == c["commit"]:
            d = DAYS.index(day)
            for i in range(lo, hi + 1):
                mask = 0x80 >> (i % 8)
                if st in ON:
                    bm[6 * d + i // 8] |= mask
                else:
                    bm[6 * d + i // 8] &= ~mask & 0xFF
    want = bytes([1, c["commit"], entry[1], entry[2]]) + bytes(bm)
    if payload != want.hex():
        return "payload is not [1, index, switch, parameter] + the received bitmap with exactly the edits applied"
    # expected slots for the Lean judge C18.specCommit
    if all(a in TIMES and b in TIMES for _, _, _, a, b in c["edits"]):
        # C18.specCommit with the statement's slot-level expectation over the RECEIVED bitmap (theorem holds_commit_slots)
        slots = " ".join(f"{DAYS.index(day)},{int(st in STATES)},{int(st in ON)},{TIMES.index(a)},{TIMES.index(b)}"
                         for idx, day, st, a, b in c["edits"] if idx == c["commit"])
        return ("judge", f"s.judgeslots {c['commit']} {entry[1]} {entry[2]} {bytes(entry[5:]).hex()} {payload} {slots}".rstrip())
    table = "/".join("".join("1" if bm[6 * d + i // 8] & (0x80 >> (i % 8)) else "0" for i in range(48)) for d in range(7))
    return ("judge", f"s.judgecommit {c['commit']} {entry[1]} {entry[2]} {table} {payload}")


def run_commit_cases(cases, res):
    reqs = []
    for c in cases:
        edits = " ".join(f"{i},{d},{state_token(st)},{parse_time(a)},{parse_time(b)}" for i, d, st, a, b in c["edits"])
        reqs.append(f"s.commit {'+'.join(hexs(bytes.fromhex(r)) for r in c['responses'])} {c['commit']} {edits}".rstrip())
    answers = driver_batch(reqs)
    obs = run_device(cases)
    judge_reqs = []
    for c, ans, o in zip(cases, answers, obs):
        res.count("commit:" + c["cls"])
        res.count("commit-kind:%d" % c["commit"])
        res.case(json.dumps([c["responses"], c["commit"], c["edits"]]), nontrivial=bool(c["edits"]) and not isinstance(o, str) and "ok" in o[0])
        if isinstance(o, str):
            canon = "err"
        else:
            canon = ",".join(["edits"] + o[0]) + " " + (o[1] if o[1] != "-" else "-")
            res.count("commit-outcome:" + ("payload" if len(o[1]) == 92 else o[1]))
        if ans != canon:
            res.fail("corr", c, ans, canon if isinstance(o, str) else dict(canon=canon, extra=o[2]), "model and device pipeline (receive, edit, commit) differ")
        if isinstance(o, str):
            continue
        outs, payload, extra = o
        wellformed = c["cls"] in ("edited", "unedited", "all-40", "kept-object")
        if wellformed:
            # every schedule a well-formed response carries can be edited and committed afterwards: it is offered by the device
            want_present = sorted(set(carried(bytes.fromhex(c["responses"][-1])) or []))
            if "present" in extra and extra["present"] != want_present:
                res.fail("spec", c, dict(schedules_on_device=want_present), dict(schedules_on_device=extra["present"], commit=payload),
                         "a schedule carried by a well-formed schedules response is not offered by the device afterwards "
                         "(it can be neither edited nor committed), or one that was not carried is")
                continue
            if extra.get("frame") != "SetScheduleRequest" or extra.get("recipient") != 69 or extra.get("queue_left") != 0:
                res.fail("spec", c, "one SetScheduleRequest addressed to the ecoMAX", dict(payload=payload, extra=extra),
                         "commit did not queue exactly one SetScheduleRequest for the device")
                continue
            clause = spec_commit(c, outs, payload)
            if isinstance(clause, tuple):
                judge_reqs.append((c, outs, payload, clause[1]))
            elif clause:
                res.fail("spec", c, "statement of C18 (commit)", dict(edits=outs, payload=payload), clause)
        if wellformed and any(o == "ok" and e[2] in ON for e, o in zip(c["edits"], outs)) and not any(s.get("part") == "commit" for s in res.samples):
            res.sample(dict(part="commit", response=c["responses"][0][:40] + "...", commit=c["commit"], edits=c["edits"], outcomes=outs, payload=payload), limit=8)
    for (c, outs, payload, _), v in zip(judge_reqs, driver_batch(r[3] for r in judge_reqs)):
        res.count("commit-judged-by-lean")
        if v != "pass":
            res.fail("spec", c, "C18.specCommit", dict(edits=outs, payload=payload, judge=v), "C18.specCommit (Lean judge) rejects the committed payload")



# ---------------------------------------------------------------------------------------------
# part 2b: histories with a write queue -- response / edit / commit / drain in any order.
# The queued request is serialised when it is DRAINED (as the producer does), not at commit time.


def flip_slot(bm, k):
    bm = bytearray(bm)
    bm[k // 8] ^= 0x80 >> (k % 8)
    return bytes(bm)


def gen_history(rng, i):
    pool = rng.sample(range(40), rng.choice([1, 1, 2, 3]))
    base = {j: mk_entry(rng, j) for j in pool}
    evs = [["r", mk_response(rng, [base[j] for j in pool]).hex()]]
    deferred = i % 2 == 1          # half of the histories leave frames queued while edits go on
    n = rng.randint(3, 12)
    for _ in range(n):
        r = rng.random()
        idx = rng.choice(pool)
        if r < 0.45:
            e = rnd_edit(rng, idx if rng.random() < 0.85 else rng.randrange(40), malformed=0.06)
            evs.append(["e"] + e)
        elif r < 0.70:
            evs.append(["c", idx])
            if not deferred or rng.random() < 0.25:
                evs.append(["d"])
        elif r < 0.80:
            evs.append(["d"])
        else:
            # a further response: same schedules again (equal / one late slot / one early slot / all different),
            # a subset, or other schedules only
            kind = rng.choice(["equal", "late-slot", "early-slot", "different", "subset", "others", "unknown-idx", "truncated"])
            if kind == "others":
                ent = [mk_entry(rng, j) for j in rng.sample([x for x in range(40) if x not in pool], 1)]
            else:
                members = pool if kind != "subset" else rng.sample(pool, max(1, len(pool) - 1))
                ent = []
                for j in members:
                    e = dict(base[j])
                    bm = bytes.fromhex(e["bm"])
                    if kind == "late-slot":
                        d = rng.randrange(7)
                        bm = flip_slot(bm, 48 * d + rng.randrange(2, 48))
                    elif kind == "early-slot":
                        bm = flip_slot(bm, 48 * rng.randrange(7) + rng.randrange(0, 2))
                    elif kind == "different":
                        e = mk_entry(rng, j)
                        bm = bytes.fromhex(e["bm"])
                    e["bm"] = bm.hex()
                    ent.append(e)
                    base[j] = e
                if kind == "unknown-idx":
                    ent.append(mk_entry(rng, rng.choice([40, 77, 255])))
            resp = mk_response(rng, ent)
            if kind == "truncated":
                resp = resp[: rng.randrange(3, len(resp))]
            evs.append(["r", resp.hex()])
    evs += [["d"]] * (sum(1 for e in evs if e[0] == "c") + 1)
    return dict(part="history", cls="deferred" if deferred else "immediate", events=evs)


def run_histories_impl(cases):
    from pyplumio.devices.ecomax import EcoMAX
    from pyplumio.frames.responses import SchedulesResponse
    from pyplumio.structures.network_info import NetworkInfo
    from pyplumio.structures.schedules import SCHEDULES

    async def quiesce():
        me = asyncio.current_task()
        for _ in range(10000):
            if not [t for t in asyncio.all_tasks() if t is not me and not t.done()]:
                return
            await asyncio.sleep(0)
        raise RuntimeError("no quiescence")

    async def one(c):
        asyncio.get_running_loop().set_exception_handler(lambda *_: None)
        device = EcoMAX(asyncio.Queue(), NetworkInfo())
        outs = []
        try:
            for ev in c["events"]:
                if ev[0] == "r":
                    try:
                        device.handle_frame(SchedulesResponse(message=bytearray(bytes.fromhex(ev[1]))))
                        outs.append("received")
                    except Exception:  # noqa: BLE001
                        outs.append("err")
                    await quiesce()
                elif ev[0] == "e":
                    _, idx, day, st, a, b = ev
                    try:
                        getattr(device.data["schedules"][SCHEDULES[idx]], day).set_state(st, a, b)
                        outs.append("ok")
                    except Exception as e:  # noqa: BLE001
                        outs.append(type(e).__name__)
                elif ev[0] == "c":
                    try:
                        await device.data["schedules"][SCHEDULES[ev[1]]].commit()
                        await quiesce()
                        outs.append("queued")
                    except Exception as e:  # noqa: BLE001
                        outs.append(type(e).__name__)
                else:
                    if device.queue.empty():
                        outs.append("idle")
                    else:
                        req = device.queue.get_nowait()
                        outs.append(bytes(req.message).hex() if type(req).__name__ == "SetScheduleRequest" else "!" + type(req).__name__)
            return outs
        finally:
            await device.shutdown()

    async def main():
        return [await one(c) for c in cases]

    return vloop.run(main())


def history_oracle(c):
    """the statement, event by event: per drain (snapshot payload at commit time, position of the commit,
    idx); the schedules of the LAST accepted response with the effective aligned edits made after it"""
    cur = {}      # idx -> bytearray bitmap (schedules of the last accepted response)
    sw, par = {}, {}
    queue = []
    drains = {}   # event position of a drain -> (snapshot hex, commit position, idx)
    for pos, ev in enumerate(c["events"]):
        if ev[0] == "r":
            resp = bytes.fromhex(ev[1])
            if len(resp) < 3:
                cur = {}
                continue
            n = resp[2]
            if len(resp) < 3 + 47 * n:
                continue
            ents = [resp[3 + 47 * k: 3 + 47 * (k + 1)] for k in range(n)]
            if any(e[0] >= 40 for e in ents):
                continue
            cur = {}
            for e in ents:
                cur[e[0]] = bytearray(e[5:])
                sw[e[0]] = e[1]
                if tuple(e[2:5]) != (255, 255, 255):
                    par[e[0]] = e[2]
        elif ev[0] == "e":
            _, idx, day, st, a, b = ev
            if idx in cur and st in STATES and a in TIMES and b in TIMES:
                lo, hi = TIMES.index(a), (47 if b == "00:00" else TIMES.index(b))
                if hi > lo:
                    d = DAYS.index(day)
                    for i in range(lo, hi + 1):
                        if st in ON:
                            cur[idx][6 * d + i // 8] |= 0x80 >> (i % 8)
                        else:
                            cur[idx][6 * d + i // 8] &= ~(0x80 >> (i % 8)) & 0xFF
        elif ev[0] == "c":
            idx = ev[1]
            if idx in cur and idx in sw and idx in par:
                queue.append(((bytes([1, idx, sw[idx], par[idx]]) + bytes(cur[idx])).hex(), pos, idx))
        else:
            if queue:
                drains[pos] = queue.pop(0)
    return drains


def run_history_cases(cases, res):
    def tok(ev):
        if ev[0] == "r":
            return "r:" + hexs(bytes.fromhex(ev[1]))
        if ev[0] == "e":
            _, i, d, st, a, b = ev
            return f"e:{i},{d},{state_token(st)},{parse_time(a)},{parse_time(b)}"
        if ev[0] == "c":
            return f"c:{ev[1]}"
        return "d"

    answers = driver_batch("s.sys " + " ".join(tok(ev) for ev in c["events"]) for c in cases)
    obs = run_histories_impl(cases)
    for c, ans, o in zip(cases, answers, obs):
        res.count("history:" + c["cls"])
        res.count("history-responses:%d" % min(3, sum(1 for e in c["events"] if e[0] == "r")))
        model = ans.split()
        drains = history_oracle(c)
        res.case(json.dumps(c["events"]), nontrivial=bool(drains))
        accepted = list(model)
        f6 = False
        for pos, (snap, cpos, idx) in drains.items():
            later_edit = any(e[0] == "e" and e[1] == idx for e in c["events"][cpos + 1: pos])
            if later_edit:
                res.count("history-drain:edit-between-commit-and-write")
            else:
                res.count("history-drain:no-edit-in-between")
            got = o[pos] if pos < len(o) else None
            if got != snap:
                if later_edit:
                    f6 = True
                    res.fail("spec", c, dict(drain_event=pos, commit_event=cpos, commit_time_payload=snap), got,
                             "the transmitted set-schedule payload is not the week as committed: an edit made after commit() "
                             "and before the write is transmitted too", finding="F6")
                else:
                    res.fail("spec", c, dict(drain_event=pos, commit_event=cpos, commit_time_payload=snap), got,
                             "the transmitted payload is not [1, index, switch, parameter] + the bitmap of the last received "
                             "response with exactly the edits made after it (no edit between commit and write)")
            elif later_edit and pos < len(accepted) and accepted[pos] != snap:
                accepted[pos] = snap   # the implementation snapshots at commit time: finding F6 no longer reproduces
                res.count("history-drain:F6-not-reproduced")
        if o != accepted:
            k = next((i for i, (x, y) in enumerate(zip(o, accepted)) if x != y), min(len(o), len(accepted)))
            res.fail("corr", c, dict(model=accepted[k] if k < len(accepted) else None, at_event=k),
                     dict(impl=o[k] if k < len(o) else None), "model and device differ on a response / edit / commit / drain history")
        if f6 and not any(s.get("part") == "history" for s in res.samples):
            res.sample(dict(part="history", events=[e if e[0] != "r" else ["r", e[1][:24] + "..."] for e in c["events"]], observed=o), limit=10)


# ---------------------------------------------------------------------------------------------
# part 2c: histories with OBJECT IDENTITY (heap machine of Model/ScheduleHeap.lean): the client keeps
# Schedule objects across later responses and edits / commits through the objects it holds.
# Object ids: every accepted response allocates one id per entry, in entry order.


def gen_heap_history(rng, i):
    pool = rng.sample(range(40), rng.choice([1, 2, 2, 3]))
    base = {j: mk_entry(rng, j) for j in pool}
    n_alloc = 0
    cur = {}          # idx -> object id the device holds now
    handles = []      # ids the client holds
    evs = []

    def receive(entries):
        nonlocal n_alloc, cur
        evs.append(["r", mk_response(rng, entries).hex()])
        cur = {}
        for k, e in enumerate(entries):
            cur[e["idx"]] = n_alloc + k
        n_alloc += len(entries)

    receive([base[j] for j in pool])
    deferred = i % 2 == 1
    for _ in range(rng.randint(4, 14)):
        r = rng.random()
        idx = rng.choice(pool)
        if r < 0.15 and idx in cur:
            evs.append(["k", idx])
            handles.append(cur[idx])
        elif r < 0.30:
            evs.append(["e"] + rnd_edit(rng, idx, malformed=0.05))
        elif r < 0.50 and handles:
            e = rnd_edit(rng, 0, malformed=0.05)
            evs.append(["he", rng.choice(handles)] + e[1:])
        elif r < 0.60:
            evs.append(["c", idx])
            if not deferred:
                evs.append(["d"])
        elif r < 0.75 and handles:
            evs.append(["hc", rng.choice(handles)])
            if not deferred or rng.random() < 0.3:
                evs.append(["d"])
        elif r < 0.80:
            evs.append(["d"])
        else:
            kind = rng.choice(["same", "same", "late-slot", "different", "subset", "reordered", "dup"])
            members = list(pool)
            if kind == "subset" and len(pool) > 1:
                members = rng.sample(pool, len(pool) - 1)
            if kind == "reordered":
                rng.shuffle(members)
            ent = []
            for j in members:
                e = dict(base[j])
                if kind == "late-slot":
                    e["bm"] = flip_slot(bytes.fromhex(e["bm"]), 48 * rng.randrange(7) + rng.randrange(2, 48)).hex()
                elif kind == "different":
                    e = mk_entry(rng, j)
                base[j] = e
                ent.append(e)
            if kind == "dup":
                ent.append(dict(ent[0]))
            receive(ent)
    evs += [["d"]] * (sum(1 for e in evs if e[0] in ("c", "hc")) + 1)
    return dict(part="heap", cls="deferred" if deferred else "immediate", events=evs)


def run_heap_impl(cases):
    from pyplumio.devices.ecomax import EcoMAX
    from pyplumio.frames.responses import SchedulesResponse
    from pyplumio.structures.network_info import NetworkInfo
    from pyplumio.structures.schedules import SCHEDULES

    async def quiesce():
        me = asyncio.current_task()
        for _ in range(10000):
            if not [t for t in asyncio.all_tasks() if t is not me and not t.done()]:
                return
            await asyncio.sleep(0)
        raise RuntimeError("no quiescence")

    async def one(c):
        asyncio.get_running_loop().set_exception_handler(lambda *_: None)
        device = EcoMAX(asyncio.Queue(), NetworkInfo())
        registry = {}           # object id -> Schedule object (as handed to a subscriber of "schedules")
        seen = []               # dicts the subscriber received

        async def on_schedules(value):
            seen.append(value)

        device.subscribe("schedules", on_schedules)
        n_alloc = 0
        outs = []
        notes = []
        try:
            for ev in c["events"]:
                if ev[0] == "r":
                    raw = bytes.fromhex(ev[1])
                    before = len(seen)
                    try:
                        device.handle_frame(SchedulesResponse(message=bytearray(raw)))
                        outs.append("received")
                    except Exception:  # noqa: BLE001
                        outs.append("err")
                    await quiesce()
                    if len(seen) > before and isinstance(seen[-1], dict):
                        idxs = [raw[3 + 47 * k] for k in range(raw[2])] if len(raw) >= 3 else []
                        for k, j in enumerate(idxs):
                            if j < 40 and k == max(p for p, q in enumerate(idxs) if q == j):
                                registry[n_alloc + k] = seen[-1].get(SCHEDULES[j])
                        n_alloc += len(idxs)
                elif ev[0] == "k":
                    try:
                        obj = device.data["schedules"][SCHEDULES[ev[1]]]
                        hid = next((h for h, o in registry.items() if o is obj), None)
                        outs.append("h%s" % ("?" if hid is None else hid))
                    except Exception as e:  # noqa: BLE001
                        outs.append(type(e).__name__)
                elif ev[0] in ("e", "he"):
                    _, ref, day, st, a, b = ev
                    try:
                        sched = device.data["schedules"][SCHEDULES[ref]] if ev[0] == "e" else registry[ref]
                        getattr(sched, day).set_state(st, a, b)
                        outs.append("ok")
                    except Exception as e:  # noqa: BLE001
                        outs.append(type(e).__name__)
                elif ev[0] in ("c", "hc"):
                    try:
                        sched = device.data["schedules"][SCHEDULES[ev[1]]] if ev[0] == "c" else registry[ev[1]]
                        await sched.commit()
                        await quiesce()
                        outs.append("queued")
                    except Exception as e:  # noqa: BLE001
                        outs.append(type(e).__name__)
                else:
                    if device.queue.empty():
                        outs.append("idle")
                    else:
                        req = device.queue.get_nowait()
                        outs.append(bytes(req.message).hex() if type(req).__name__ == "SetScheduleRequest" else "!" + type(req).__name__)
            return outs
        finally:
            await device.shutdown()

    async def main():
        return [await one(c) for c in cases]

    return vloop.run(main())


def heap_oracle(c):
    """the statement per OBJECT: content of an object = the bitmap it was received with + exactly the edits
    addressed to it, in order; a commit (through the device or through a handle) sends [1, index, switch,
    parameter of the device for that index] + the content of THAT object.  -> {drain position: (snapshot, commit pos, object)}"""
    content, owner = {}, {}      # object id -> bytearray, schedule index
    cur, sw, par = {}, {}, {}
    n_alloc = 0
    queue, drains = [], {}

    def apply(h, day, st, a, b):
        if h in content and st in STATES and a in TIMES and b in TIMES:
            lo, hi = TIMES.index(a), (47 if b == "00:00" else TIMES.index(b))
            if hi > lo:
                d = DAYS.index(day)
                for i in range(lo, hi + 1):
                    if st in ON:
                        content[h][6 * d + i // 8] |= 0x80 >> (i % 8)
                    else:
                        content[h][6 * d + i // 8] &= ~(0x80 >> (i % 8)) & 0xFF

    for pos, ev in enumerate(c["events"]):
        if ev[0] == "r":
            resp = bytes.fromhex(ev[1])
            if len(resp) < 3:
                cur = {}
                continue
            n = resp[2]
            if len(resp) < 3 + 47 * n:
                continue
            ents = [resp[3 + 47 * k: 3 + 47 * (k + 1)] for k in range(n)]
            if any(e[0] >= 40 for e in ents):
                continue
            cur = {}
            for k, e in enumerate(ents):
                content[n_alloc + k] = bytearray(e[5:])
                owner[n_alloc + k] = e[0]
                cur[e[0]] = n_alloc + k
                sw[e[0]] = e[1]
                if tuple(e[2:5]) != (255, 255, 255):
                    par[e[0]] = e[2]
            n_alloc += n
        elif ev[0] == "e":
            if ev[1] in cur:
                apply(cur[ev[1]], *ev[2:])
        elif ev[0] == "he":
            apply(ev[1], *ev[2:])
        elif ev[0] in ("c", "hc"):
            h = cur.get(ev[1]) if ev[0] == "c" else (ev[1] if ev[1] in content else None)
            if h is not None:
                idx = owner[h]
                if idx in cur and idx in sw and idx in par:
                    queue.append(((bytes([1, idx, sw[idx], par[idx]]) + bytes(content[h])).hex(), pos, h, dict(cur)))
        elif ev[0] == "d":
            if queue:
                drains[pos] = queue.pop(0)
    return drains


def run_heap_cases(cases, res):
    def tok(ev):
        if ev[0] == "r":
            return "r:" + hexs(bytes.fromhex(ev[1]))
        if ev[0] in ("e", "he"):
            _, i, d, st, a, b = ev
            return f"{ev[0]}:{i},{d},{state_token(st)},{parse_time(a)},{parse_time(b)}"
        if ev[0] in ("c", "k", "hc"):
            return f"{ev[0]}:{ev[1]}"
        return "d"

    answers = driver_batch("s.heap " + " ".join(tok(ev) for ev in c["events"]) for c in cases)
    obs = run_heap_impl(cases)
    for c, ans, o in zip(cases, answers, obs):
        res.count("heap:" + c["cls"])
        model = ans.split()
        drains = heap_oracle(c)
        res.case(json.dumps(c["events"]), nontrivial=bool(drains))
        accepted = list(model)
        for pos, (snap, cpos, h, cur_at_commit) in drains.items():
            cev = c["events"][cpos]
            stale = cev[0] == "hc" and h not in cur_at_commit.values()
            res.count("heap-drain:" + ("commit-through-device" if cev[0] == "c" else "commit-through-stale-handle" if stale else "commit-through-current-handle"))
            # an edit that hits the SAME OBJECT between commit and write (finding F6)
            later_edit = False
            cur = dict(cur_at_commit)
            for e in c["events"][cpos + 1: pos]:
                if e[0] == "he" and e[1] == h:
                    later_edit = True
                elif e[0] == "e" and cur.get(e[1]) == h:
                    later_edit = True
                elif e[0] == "r":
                    cur = {}     # conservatively: after a response the device holds other objects
            got = o[pos] if pos < len(o) else None
            if got != snap:
                if later_edit:
                    res.fail("spec", c, dict(drain_event=pos, commit_event=cpos, object=h, commit_time_payload=snap), got,
                             "the transmitted set-schedule payload is not the week as committed: an edit made after commit() "
                             "and before the write is transmitted too", finding="F6")
                else:
                    res.fail("spec", c, dict(drain_event=pos, commit_event=cpos, object=h, commit_time_payload=snap), got,
                             "commit() does not transmit [1, index, switch, parameter] + the bitmap of the schedule OBJECT it was called on "
                             "(the week that object was received with, with exactly the edits made to it)")
            elif later_edit and pos < len(accepted) and accepted[pos] != snap:
                accepted[pos] = snap
                res.count("heap-drain:F6-not-reproduced")
        if o != accepted:
            k = next((i for i, (x, y) in enumerate(zip(o, accepted)) if x != y), min(len(o), len(accepted)))
            res.fail("corr", c, dict(model=accepted[k] if k < len(accepted) else None, at_event=k),
                     dict(impl=o[k] if k < len(o) else None), "heap machine and device differ on a history with kept Schedule objects")
        if any(e[0] == "hc" for e in c["events"]) and not any(s.get("part") == "heap" for s in res.samples):
            res.sample(dict(part="heap", events=[e if e[0] != "r" else ["r", e[1][:24] + "..."] for e in c["events"]], observed=o), limit=12)

# ---------------------------------------------------------------------------------------------
# part 3: codec functions directly (split / join on all bytes, decode / encode on random bitmaps)


def run_codec(rng, tier, res):
    from pyplumio.frames.requests import SetScheduleRequest
    from pyplumio.frames.responses import SchedulesResponse
    from pyplumio.structures import schedules as S

    reqs, want = [], []
    for b in range(256):
        reqs.append(f"s.split {b}")
        sp = S._split_byte(b)
        want.append(bits(sp))
        reqs.append(f"s.join {bits(sp)}")
        want.append(str(int(S._join_bits(sp))))
        if int(S._join_bits(sp)) != b:
            res.fail("spec", dict(part="codec", byte=b), b, int(S._join_bits(sp)), "join(split(b)) != b")
        res.case(("byte", b))
    res.count("codec:bytes", 256)
    n = 200 if tier == "quick" else 5000
    for i in range(n):
        bm = bytes(rng.getrandbits(8) for _ in range(42)) if i > 3 else [bytes(42), b"\xff" * 42, bytes([0x80] + [0] * 41), bytes([0] * 41 + [1])][i]
        idx, sw, par = rng.randrange(40), rng.getrandbits(8), rng.getrandbits(8)
        # the entry stands at any place of a response with any header: first header byte arbitrary, the second (number of the
        # first entry) 0, 1, 2, the entry's own index or arbitrary, the third the number of entries
        before = [rng.randrange(40) for _ in range(rng.choice([0, 0, 0, 1, 2]))]
        after = [rng.randrange(40) for _ in range(rng.choice([0, 0, 0, 1, 3]))]
        first = rng.choice([0, 1, 1, 2, idx, (before + [idx])[0], rng.getrandbits(8)])
        msg = bytes([rng.choice([0, 1, 0x10, rng.getrandbits(8)]), first, len(before) + 1 + len(after)])
        for j in before:
            msg += bytes([j, rng.getrandbits(8), rng.getrandbits(8), 0, 255]) + bytes(rng.getrandbits(8) for _ in range(42))
        msg += bytes([idx, sw, par, 0, 255]) + bm
        for j in after:
            msg += bytes([j, rng.getrandbits(8), rng.getrandbits(8), 0, 255]) + bytes(rng.getrandbits(8) for _ in range(42))
        cin = dict(part="codec", response=msg.hex(), entry=len(before), bitmap=bm.hex(), idx=idx, switch=sw, parameter=par)
        res.count("codec:first-entry-number=%s" % ("0" if first == 0 else "1" if first == 1 else "other"))
        res.count("codec:entries=%d" % (len(before) + 1 + len(after)))
        try:
            data = SchedulesResponse(message=bytearray(msg)).data
            entries = list(data["schedules"])
        except Exception as e:  # noqa: BLE001 -- a well-formed response decodes
            res.fail("spec", cin, "the response decodes to its %d schedules" % (len(before) + 1 + len(after)), dict(raised=type(e).__name__),
                     "decoding a well-formed schedules response raised")
            res.case(("bitmap", bm))
            continue
        if [e[0] for e in entries] != before + [idx] + after:
            res.fail("spec", cin, dict(decoded_indexes=before + [idx] + after), dict(decoded_indexes=[e[0] for e in entries]),
                     "decoding a well-formed schedules response does not yield exactly the schedules it carries, in order")
            res.case(("bitmap", bm))
            continue
        didx, table = entries[len(before)]
        reqs.append(f"s.decode {hexs(bm)}")
        want.append("/".join(bits(d) for d in table))
        enc = bytes(SetScheduleRequest(data={"type": S.SCHEDULES[idx], "switch": sw, "parameter": par, "schedule": table}).message)
        reqs.append("s.encode " + "/".join(bits(d) for d in table))
        want.append(hexs(enc[4:]))
        res.case(("bitmap", bm))
        if enc != bytes([1, idx, sw, par]) + bm or didx != idx or [len(d) for d in table] != [48] * 7:
            res.fail("spec", cin, (bytes([1, idx, sw, par]) + bm).hex(), enc.hex(),
                     "decoding and re-encoding an unedited schedule is not the identity")
    res.count("codec:bitmaps", n)
    answers = driver_batch(reqs)
    for r, w, a in zip(reqs, want, answers):
        if w != a:
            res.fail("corr", dict(part="codec", request=r), a, w, "model and codec function differ")


RULE = ("set_state: exhaustively all 48x48 half-hour aligned (start, end) pairs x 4 states x day patterns (3 quick / 8 thorough) through the real "
        "ScheduleDay.set_state, set_on/set_off and defaults, invalid states (case, whitespace, homoglyph, non-str), malformed and oddly written "
        "times, random non-aligned minutes; commit: SchedulesResponse payloads (1-5 or all 40 entries, random / single-bit / whole-day bitmaps, "
        "every schedule kind committed in turn, switch and parameter values) fed to a real EcoMAX via handle_frame, edited through the Schedule "
        "objects it created, Schedule.commit() and the queued SetScheduleRequest payload; second responses, duplicate / unknown indexes, undefined "
        "parameter, truncated payloads; histories of responses (repeated for the same schedule: equal, one late / early slot flipped, "
        "all different, subsets, other schedules, unknown index, truncated) / edits / commits / drains with the queued request serialised only "
        "when drained (half of them with edits between commit and write); hand-made days of other lengths; codec functions on all 256 bytes and random bitmaps. distinct = distinct input; "
        "non-trivial = the call changed the day / at least one edit took effect before the commit")


def run(ctx):
    rng = random.Random(ctx["seed"] * 7907 + 18)
    res = Result("C18")
    res.rule = RULE
    import pycode  # translator validation: generated Lean definitions vs the real functions (harness/pycode.py)
    pycode.check(res, random.Random(ctx["seed"] * 7919 + 77), ctx["tier"], ["schedule"])
    corpus = [json.loads(ln) for _, ln in load_corpus("C18")]
    set_cases = [c for c in corpus if c.get("part") == "set"] + list(gen_set_cases(rng, ctx["tier"]))
    commit_cases = [c for c in corpus if c.get("part") == "commit"] + list(gen_commit_cases(rng, ctx["tier"]))
    if ctx.get("max_cases"):
        set_cases, commit_cases = set_cases[: ctx["max_cases"]], commit_cases[: ctx["max_cases"]]
    hist_cases = [c for c in corpus if c.get("part") == "history"] + \
        [gen_history(rng, i) for i in range(500 if ctx["tier"] == "quick" else 12000)]
    heap_cases = [c for c in corpus if c.get("part") == "heap"] + \
        [gen_heap_history(rng, i) for i in range(400 if ctx["tier"] == "quick" else 10000)]
    from common import Parts
    parts = Parts(res)
    parts.run("time strings", check_time_parse, res, ctx["tier"])
    parts.run("set_state", run_set_cases, set_cases, res)
    if not ctx.get("max_cases"):
        parts.run("set_state minute sweep", run_minute_sweep, ctx["tier"], res)
    parts.run("receive / edit / commit", run_commit_cases, commit_cases, res)
    parts.run("histories with a write queue", run_history_cases, hist_cases, res)
    parts.run("histories with kept objects", run_heap_cases, heap_cases, res)
    parts.run("codec", run_codec, rng, ctx["tier"], res)
    parts.finish()
    res.extra["aligned_pairs_enumerated_completely"] = True
    res.extra["schedule_kinds_committed"] = len({c["commit"] for c in commit_cases})
    return res


def replay(ctx):
    f = ctx["replay"].get("failure") or ctx["replay"].get("first_difference")
    res = Result("C18")
    res.rule = "replay of one recorded case"
    c = f["input"]
    if c.get("part") == "commit":
        run_commit_cases([c], res)
    elif c.get("part") == "history":
        run_history_cases([c], res)
    elif c.get("part") == "heap":
        run_heap_cases([c], res)
    elif c.get("part") == "set":
        c = dict(c)
        c.setdefault("how", "set_state")
        run_set_cases([c], res)
    else:
        run_codec(random.Random(0), "quick", res)
    res.sample(c)
    return res

"""Correspondence for `AsyncProtocol.frame_producer` (used by the C09 and C14 harnesses).

The real producer runs on a real asyncio.StreamReader and a FakeWriter whose `drain()` follows a
write-fault script (ok / ConnectionResetError / hang until the real WRITER_TIMEOUT fires under
virtual time); other tasks' puts on the write queue and a foreign `connected.clear()` are applied
at chosen cycle boundaries.  The byte stream is fed one `read()` call at a time (the bytes each
call consumes come from the reader model, driver op `read`), so every quiescent point "parked in
the k-th read()" can be observed and compared with the producer machine of
lean/PlumVerif/Model/Producer.lean (driver op `prod`):

    sent frames (ids, FIFO) | frames on the read queue | write queue unfinished count | queue size |
    loop alive | connection_lost callbacks (0/1) | connected flag          … and at the end the
    frames on the read queue themselves.

The statement-level predicates are evaluated on the implementation's observation directly
(`spec` failures): unfinished == queue size at every boundary (write_balance), at most one frame
sent per cycle and in put order (one_write_per_cycle), the loop alive unless a read/write loss or a
foreign disconnect happened (producer_continues), loss announced at most once.
"""
import asyncio
import random
import signal

from common import driver_batch, hexs, use_repo
import framegen as fg
import pipefake

use_repo()
from pyplumio.const import DeviceType  # noqa: E402
from pyplumio.frames.requests import SetEcomaxParameterRequest  # noqa: E402
from pyplumio.protocol import AsyncProtocol  # noqa: E402
from pyplumio.stream import READER_TIMEOUT, WRITER_TIMEOUT  # noqa: E402

START_MASTER, SET_PARAM = 25, 51
END_CAUSED = {"incompleteHeader", "incompleteFrame"}


def put_frame(i):
    """frame with id i (1..65535) for the write queue; id 0 is the start-master request"""
    return SetEcomaxParameterRequest(recipient=DeviceType.ECOMAX, data={"index": i & 0xFF, "value": (i >> 8) & 0xFF})


def frame_id(b):
    if len(b) >= 10 and b[7] == START_MASTER:
        return 0
    if len(b) >= 12 and b[7] == SET_PARAM:
        return b[8] | (b[9] << 8)
    return -1


class ScriptedWriter(pipefake.FakeWriter):
    """`drain()` follows the script entry of the cycle the harness says the producer is in"""

    def __init__(self, script):
        super().__init__()
        self.script = script
        self.cycle = 0
        self.sent = []        # (id, outcome tag) per write
        self.hanging = False

    async def drain(self):
        wr = self.script[self.cycle]["wr"] if self.cycle < len(self.script) else "ok"
        self.sent.append((frame_id(self.frames[-1]), {"ok": "o", "os": "e", "to": "t"}[wr]))
        if wr == "os":
            raise ConnectionResetError("scripted write fault")
        if wr == "to":
            self.hanging = True
            await asyncio.get_running_loop().create_future()


def parse_reads(ans):
    """driver `read` answer -> [(consumed, end_caused, lost, delivered)] per read() call"""
    out = []
    for part in ans.split(";"):
        w = part.split(" ")
        if w[0] == "E":
            out.append((int(w[2]), w[1] in END_CAUSED, False, False))
        elif w[0] == "L":
            out.append((int(w[1]), True, True, False))
        else:
            out.append((int(w[-1]), False, False, w[0] == "D"))
    return out


class Spin(BaseException):
    """raised by the watchdog inside a producer loop that never yields to the event loop"""


def _watchdog(signum, frame):
    raise Spin()


def run_impl(stream, mode, script, reads):
    """-> (snapshots, enqueued frames at the end, extra); a loop that spins without ever yielding (it
    can only be interrupted from a signal handler) is ended by a 3 s watchdog and reported"""
    old = signal.signal(signal.SIGALRM, _watchdog)
    signal.setitimer(signal.ITIMER_REAL, 3.0)
    try:
        return _run_impl(stream, mode, script, reads)
    except Spin:
        return [], [], dict(exc="Spin", spin=[0])
    finally:
        signal.setitimer(signal.ITIMER_REAL, 0)
        signal.signal(signal.SIGALRM, old)


def _run_impl(stream, mode, script, reads):
    snaps = []
    with pipefake.Driven() as loop:
        proto = AsyncProtocol(consumers_count=0)
        lost = []

        async def on_lost():
            lost.append(loop.time())

        proto.on_connection_lost.add(on_lost)
        sr = asyncio.StreamReader()
        w = ScriptedWriter(script)

        def boundary(k):
            if k < len(script):
                for i in script[k]["puts"]:
                    proto._queues.write.put_nowait(put_frame(i))
                if script[k]["disc"]:
                    proto.connected.clear()

        def start():
            proto.connection_established(sr, w)
            boundary(0)

        loop.call_soon(start)
        loop.settle(max_iter=20000)
        prod = [t for t in proto.tasks if t.get_name() == "frame_producer_task"]
        prod = prod[0] if prod else None

        spin = []

        def settle(until=None):
            try:
                loop.settle(until=until, max_iter=20000)
            except RuntimeError:      # no quiescence: the loop (or what it scheduled) spins
                spin.append(len(snaps))
                for t in list(asyncio.all_tasks(loop)):
                    t.cancel()
                loop.settle(max_iter=200000)

        def settle_write():
            settle()
            if w.hanging:
                w.hanging = False
                settle(until=loop.time() + WRITER_TIMEOUT)
                settle()

        def snap():
            running = prod is not None and not prod.done()
            snaps.append(dict(sent=list(w.sent), enq=proto._queues.read.qsize(), unf=proto._queues.write._unfinished_tasks,
                              wq=proto._queues.write.qsize(), run=int(running), loss=len(lost),
                              connected=int(proto.connected.is_set())))
            return running

        settle_write()
        alive = snap()
        pos = 0
        for k, (n, end_caused, _lost, _dlv) in enumerate(reads):
            if not alive:
                break
            w.cycle = k + 1
            if not (_lost or (mode == "s" and end_caused)):
                boundary(k + 1)   # (a read that ends the loop is followed by no further cycle)
            sr.feed_data(stream[pos:pos + n]) if n else None
            pos += n
            if end_caused:
                if mode == "e":
                    sr.feed_eof()
                    settle_write()
                else:
                    settle_write()
                    if prod is not None and not prod.done():
                        settle(until=loop.time() + READER_TIMEOUT)
                        settle()
                alive = snap()
                break
            settle_write()
            alive = snap()
            if spin:
                break
        enq = []
        q = proto._queues.read
        while not q.empty():
            f = q.get_nowait()
            enq.append(f"{int(f.frame_type)}.{int(f.recipient)}.{int(f.sender)}.{int(f.econet_type)}.{int(f.econet_version)}.{hexs(f.message)}")
        extra = dict(exc=None, spin=list(spin))
        if prod is not None and prod.done() and not prod.cancelled() and prod.exception() is not None:
            extra["exc"] = repr(prod.exception())
            if isinstance(prod.exception(), Spin):
                extra["spin"] = extra["spin"] or [len(snaps)]
    return snaps, enq, extra


STOP_CLASS = {"-": "-", "disconnected": "disconnected", "readLost": "lost", "readTimeout": "lost",
              "writeError": "lost", "writeTimeout": "lost"}


def show_impl(o):
    sent = ",".join(f"{i}:{t}" for i, t in o["sent"]) or "-"
    cls = "-" if o["run"] else ("lost" if o["loss"] else "disconnected")
    return f"{sent} {o['enq']} {o['unf']} {o['wq']} {o['run']} {cls} {o['loss']} {o['connected']}"


def show_model(part):
    """`sent enq unf wq run stop loss reads logged` -> the observable part"""
    w = part.split(" ")
    connected = 1 if w[4] == "1" else 0
    return f"{w[0]} {w[1]} {w[2]} {w[3]} {w[4]} {STOP_CLASS[w[5]]} {w[6]} {connected}"


def script_words(script):
    return " ".join(f"{','.join(map(str, c['puts'])) or '-'}/{int(c['disc'])}/{c['wr']}" for c in script)


def judge(case, snaps, reads):
    """statement-level predicates on the implementation's observation -> list of violated clauses"""
    bad = []
    script = case["script"]
    if case.get("_spin"):
        bad.append("loss_scheduled_once: after a loss the loop did not end (no quiescence: it keeps scheduling connection_lost)")
    puts_so_far = [0]
    for k, o in enumerate(snaps):
        if o["unf"] != o["wq"]:
            bad.append(f"write_balance: unfinished {o['unf']} != queued {o['wq']} at boundary {k}")
        if len(o["sent"]) > k + 2:
            bad.append(f"one_write_per_cycle: {len(o['sent'])} frames sent after {k + 1} cycles")
        if o["loss"] > 1:
            bad.append("loss_scheduled_once: connection_lost announced more than once")
    order = [0] + [i for c in script for i in c["puts"]]
    sent_ids = [i for i, _ in snaps[-1]["sent"]] if snaps else []
    if sent_ids != order[:len(sent_ids)] and sorted(sent_ids) == sorted(order[:len(sent_ids)]):
        bad.append("one_write_per_cycle: frames not sent in the order they were queued")
    # enqueued_exactly_delivered: what is on the read queue at quiescent point k (parked in read k, its write phase done)
    # is what the first k reads delivered -- nothing is dropped between the reader and the queue, however many pile up.
    # (at the last point after end of stream one more read may have been made; a run ended by a write fault made fewer)
    dl = [r[3] for r in reads]
    if not any(c["wr"] != "ok" or c["disc"] for c in script):
        for k, o in enumerate(snaps):
            lo = sum(dl[:k])
            hi = sum(dl[:k + 2]) if k == len(snaps) - 1 else lo
            if not (lo <= o["enq"] <= hi):
                bad.append(f"enqueued_exactly_delivered: {o['enq']} frames on the read queue after {k} reads that delivered {lo}")
                break
    # the reader's timeout bounds every wait, also in the middle of a frame: after READER_TIMEOUT of silence the loop
    # has announced the loss (stops_only_on_loss / readTimeout)
    if case["mode"] == "s" and snaps and snaps[-1]["run"] and not any(c["wr"] != "ok" or c["disc"] for c in script) \
            and len(snaps) == 1 + next((k for k, r in enumerate(reads) if r[1]), len(reads)) + 1:
        bad.append("reader timeout: the loop is still waiting after READER_TIMEOUT of silence"
                   + (" in the middle of a frame" if any(r[1] and not r[2] for r in reads) else ""))
    # producer_continues: the loop may only have ended for a scripted loss / disconnect / end of input
    for k, o in enumerate(snaps):
        if not o["run"]:
            excused = any(c["wr"] != "ok" or c["disc"] for c in script[:k + 1]) or \
                (k >= 1 and k - 1 < len(reads) and any(r[1] for r in reads[:k]))
            if not excused:
                bad.append(f"producer_continues: the loop ended at boundary {k} without a loss")
            break
    return bad


def evaluate(res, cases, prop, via="producer"):
    """cases: dict(stream hex, mode 'e'|'s', script=[dict(puts, disc, wr)…], label)"""
    if not cases:
        return
    reads_ans = driver_batch("read " + (c["stream"] or "-") for c in cases)
    model_ans = driver_batch(f"prod {c['mode']} 1 0 {c['stream'] or '-'} {script_words(c['script'])}".rstrip() for c in cases)
    for c, ra, ma in zip(cases, reads_ans, model_ans):
        stream = bytes.fromhex(c["stream"])
        reads = parse_reads(ra)
        snaps, enq, extra = run_impl(stream, c["mode"], c["script"], reads)
        inp = dict(via=via, stream=c["stream"], mode=c["mode"], script=c["script"], label=c.get("label", ""))
        res.count(f"{via}:runs")
        res.count(f"{via}:mode:{c['mode']}")
        faults = [x["wr"] for x in c["script"] if x["wr"] != "ok"]
        res.count(f"{via}:write-fault:{faults[0] if faults else 'none'}")
        if any(x["disc"] for x in c["script"]):
            res.count(f"{via}:foreign-disconnect")
        got = [show_impl(o) for o in snaps]
        c["_spin"] = bool(extra.get("spin"))
        for clause in judge(c, snaps, reads):
            res.fail("spec", inp, "the producer loop's statement-level predicates hold", dict(snapshots=got, enqueued=enq, **extra),
                     f"{prop} producer: {clause}")
        if ma == "bad-op":
            res.fail("corr", inp, "model answer", "bad-op", "driver rejected the prod request")
            continue
        mpart, menq = ma.split(" | ")
        msnaps = [show_model(p) for p in mpart.split(" ; ")]
        want_enq = [] if menq == "-" else menq.split(",")
        # after end of stream the remaining cycles run back to back: only the last point is observable
        ok = (len(msnaps) - len(got) in (0, 1) and got[:-1] == msnaps[:len(got) - 1] and got[-1:] == msnaps[-1:]) if got else False
        if not ok or enq != want_enq:
            res.fail("corr", inp, dict(snapshots=msnaps, enqueued=want_enq), dict(snapshots=got, enqueued=enq, **extra),
                     f"{prop} producer: producer machine and AsyncProtocol.frame_producer differ")
        res.count(f"{via}:stop:{mpart.split(' ; ')[-1].split(' ')[5]}")
        if c["_spin"]:
            break   # every further run with a loss would spin as well (a watchdog period each)


# ------------------------------------------------------------------ generators

def rand_script(rng, cycles, faulty=True):
    script = []
    next_id = 1
    for k in range(cycles + 2):
        puts = []
        if rng.random() < 0.35:
            for _ in range(rng.choice([1, 1, 2, 3])):
                puts.append(next_id)
                next_id += 1
        script.append(dict(puts=puts, disc=False, wr="ok"))
    if faulty and script:
        r = rng.random()
        k = rng.randrange(len(script))
        if r < 0.3:
            script[k]["wr"] = "os"
        elif r < 0.55:
            script[k]["wr"] = "to"
        elif r < 0.7 and k > 0:
            script[k]["disc"] = True
    return script


def rand_stream(rng):
    parts = []
    for _ in range(rng.randint(0, 8)):
        r = rng.random()
        if r < 0.45:
            parts.append(fg.rand_frame(rng, 16, own=True))
        elif r < 0.6:
            parts.append(fg.rand_frame(rng, 16, own=False))
        elif r < 0.8:
            parts.append(bytes(rng.choice([0x68, 0x68, 0x0a, 0x00, 0x56, 0x45, rng.randrange(256)]) for _ in range(rng.randint(1, 12))))
        else:
            f = bytearray(fg.rand_frame(rng, 10))
            f[rng.randrange(len(f))] = rng.randrange(256)
            parts.append(bytes(f))
    s = b"".join(parts)
    if rng.random() < 0.3 and s:
        s = s[:rng.randint(0, len(s))]          # ends inside a frame
    return s


def long_stream(rng, n):
    """n small deliverable frames back to back (more than any plausible bound on pending frames)"""
    return b"".join(fg.mk(rng.choice([25, 64, 48, 186]), bytes(rng.randrange(48, 58) for _ in range(rng.randint(0, 4))),
                          rcpt=rng.choice([86, 0]), sender=rng.choice([69, 69, 81])) for _ in range(n))


def gen_cases(rng, n, streams=None):
    cases = []
    for k in (40, 150):       # nothing is dropped between the reader and the read queue, however many frames pile up
        cases.append(dict(stream=long_stream(rng, k).hex(), mode="e", script=[dict(puts=[1, 2], disc=False, wr="ok")], label=f"pile-up:{k}"))
    for _ in range(3):        # the controller goes silent in the middle of a frame body
        fr = fg.mk(186, b"\x04" + bytes(rng.randrange(48, 58) for _ in range(rng.randint(4, 30))))
        cut = rng.randint(8, len(fr) - 1)
        cases.append(dict(stream=(fg.mk(25) + fr[:cut]).hex(), mode="s", script=[], label="stall-in-body"))
    for i in range(n):
        s = rng.choice(streams) if streams and rng.random() < 0.7 else rand_stream(rng)
        cycles = s.count(b"\x68") + 1
        cases.append(dict(stream=bytes(s).hex(), mode=rng.choice("ees"), script=rand_script(rng, min(cycles, 40), faulty=rng.random() < 0.7),
                          label="gen"))
    return cases


CORPUS = [
    # D18 (fix 7e0d3a8): a failed / timed-out write must still acknowledge the frame it took
    dict(stream=fg.mk(25).hex(), mode="e", script=[dict(puts=[], disc=False, wr="os")], label="corpus:D18-oserror"),
    dict(stream=(fg.mk(25) * 2).hex(), mode="e", script=[dict(puts=[1, 2], disc=False, wr="ok"), dict(puts=[], disc=False, wr="to")],
         label="corpus:D18-timeout"),
    # noise, checksum error, foreign frame, then frames for us: the loop runs to the end of the stream
    dict(stream=(b"\x00\x68\x68\x0a" + fg.mk(25, rcpt=1) + bytes(bytearray(fg.mk(25))[:-2]) + b"\x00\x16" + fg.mk(25) + fg.mk(64)).hex(),
         mode="e", script=[dict(puts=[1, 2, 3], disc=False, wr="ok")], label="corpus:noise"),
    dict(stream=(fg.mk(25) + fg.mk(64)[:5]).hex(), mode="s", script=[], label="corpus:silence-inside-frame"),
    dict(stream=(fg.mk(25) * 3).hex(), mode="e", script=[dict(puts=[], disc=False, wr="ok"), dict(puts=[], disc=False, wr="ok"),
                                                       dict(puts=[], disc=True, wr="ok")], label="corpus:foreign-disconnect"),
]


def run_section(res, rng, n, prop, streams=None):
    evaluate(res, [dict(c) for c in CORPUS] + gen_cases(rng, n, streams), prop)


def replay_case(res, inp, prop):
    evaluate(res, [dict(stream=inp["stream"], mode=inp["mode"], script=inp["script"], label=inp.get("label", "replay"))], prop)


# ------------------------------------------------------------------ the whole connection after noise

def run_pipeline(stream, cuts, text, consumers=3):
    """a default AsyncProtocol (producer + consumers) fed with `stream`; -> observation of what reached the ecoMAX device"""
    got = []
    with pipefake.Driven() as loop:
        proto = AsyncProtocol(consumers_count=consumers)

        async def on_device(dev):
            async def on_password(value):
                got.append(value)
            dev.subscribe("password", on_password)

        proto.subscribe("ecomax", on_device)
        sr = asyncio.StreamReader()
        w = pipefake.FakeWriter()
        loop.call_soon(proto.connection_established, sr, w)
        loop.settle()
        prev = 0
        for c in list(cuts) + [len(stream)]:
            if c > prev:
                sr.feed_data(stream[prev:c])
                prev = c
                loop.settle()
        prod = [t for t in proto.tasks if t.get_name() == "frame_producer_task"]
        obs = dict(delivered=sum(1 for v in got if v == text),
                   consumers_alive=sum(1 for t in proto.tasks if t.get_name().startswith("frame_consumer") and not t.done()),
                   unfinished=proto._queues.read._unfinished_tasks, queued=proto._queues.read.qsize(),
                   producer_alive=bool(prod) and not prod[0].done(), connected=proto.connected.is_set())
    return obs


def pipeline_cases(rng, n, noise_fn=None):
    """noise that contains 0..6 checksum-valid frames from known addresses that are no controllers (broadcast 0x00, the
    library's own 0x56: echoes / strays), followed by a run of one valid ecoMAX frame"""
    cases = []
    for i in range(n):
        text = b"%04d" % rng.randrange(10000)
        fr = fg.mk(186, b"\x04" + text, rcpt=86, sender=69)
        if 0x68 in fr[1:]:
            continue
        strays = rng.choice([0, 1, 2, 3, 3, 4, 4, 5, 6])
        parts = []
        for _ in range(strays):
            parts.append(noise_fn(rng) if noise_fn else bytes(rng.randrange(256) for _ in range(rng.randint(0, 20))))
            parts.append(fg.mk(rng.choice([48, 64, 186, 25, 53, 177]), bytes(rng.randrange(256) for _ in range(rng.randint(0, 6))),
                               rcpt=rng.choice([86, 0]), sender=rng.choice([0, 86])))
        parts.append(noise_fn(rng) if noise_fn else bytes(rng.randrange(256) for _ in range(rng.randint(0, 40))))
        copies = (1000 + 3 * len(fr)) // len(fr) + rng.randint(2, 6)
        stream = b"".join(parts) + fr * copies
        k = rng.randint(0, 3)
        cuts = sorted(rng.sample(range(1, len(stream)), k)) if k and len(stream) > 2 else []
        cases.append(dict(stream=stream.hex(), frame=fr.hex(), text=text.decode(), cuts=cuts, strays=strays, label="pipeline-after-noise"))
    return cases


def evaluate_pipeline(res, cases, prop, via="pipeline"):
    """the reader model says which frames the reader hands out; the pool machine (C09: never_stalls,
    delivered_exactly_once, no_consumer_dies) says every one of them that can be handled reaches its device, once,
    whatever else was received: the copies of the run's frame the reader model delivers must all arrive at the ecoMAX
    device, with every consumer alive and the read queue balanced"""
    if not cases:
        return
    answers = driver_batch("read " + c["stream"] for c in cases)
    for c, ans in zip(cases, answers):
        fr = bytes.fromhex(c["frame"])
        want_word = f"D {fr[7]} {fr[3]} {fr[4]} {fr[5]} {fr[6]} {hexs(fr[8:-2])} "
        want = sum(1 for part in ans.split(";") if part.startswith(want_word))
        obs = run_pipeline(bytes.fromhex(c["stream"]), c["cuts"], c["text"])
        inp = dict(via=via, stream=c["stream"], frame=c["frame"], text=c["text"], cuts=c["cuts"], strays=c["strays"], label=c["label"])
        res.count(f"{via}:runs")
        res.count(f"{via}:stray-frames:{min(c['strays'], 3)}{'+' if c['strays'] >= 3 else ''}")
        exp = dict(delivered=want, consumers_alive=3, unfinished=0, queued=0, producer_alive=True, connected=True)
        if obs != exp:
            res.fail("spec", inp, exp, obs,
                     f"{prop}: after the noise the run's frames did not all reach the device (or a consumer / the producer died, "
                     "or the read queue is not balanced)")


def replay_pipeline(res, inp, prop):
    evaluate_pipeline(res, [dict(stream=inp["stream"], frame=inp["frame"], text=inp["text"], cuts=inp.get("cuts", []),
                                 strays=inp.get("strays", 0), label=inp.get("label", "replay"))], prop)

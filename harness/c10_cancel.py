"""C10, cancellation dimension: the task that is CREATING the device entry is cancelled while the (thread-pool) class
loading is still pending; later frames from the same address - on the same connection or on a second one - must still
find (create) the one device object of the address, and that object must receive every one of them.

Statement clause: "for the lifetime of a connection there is at most one device object per controller address ... that
object receives every frame from the address, and the device's set-up requests are started once".  A device that can
never be created again after one cancelled creator receives no frame at all.

Routes by which the creating task is cancelled while it awaits the import (public API only):
  * `U<a>` / `XU`: a user task awaits `protocol.get_device_entry(DeviceType(a))` (public method; the tests call it) and is
    cancelled - `asyncio.wait_for(..., timeout)` expiring does exactly this; the user task holds `_entry_lock` and the
    pending import, `async with` releases the lock on cancellation;
  * `XT`: `protocol.cancel_tasks()` (public, TaskManager) cancels the frame consumers (one of them holds the lock and the
    pending import) and the producer; the connection is then established again (`connection_established` with a new
    reader / writer: the second connection), which tops the consumers up.
  (`shutdown()` itself never cancels a consumer in this state: it waits in Queues.join until the frame in hand is
  acknowledged, i.e. until the import has completed; `connection_lost` cancels nothing.)
Other events: `F<a>:<m>` feed m frames, `R` the oldest pending import completes, `G<a>` a task awaiting get(name),
`C` connection lost and re-established from an on_connection_lost callback.

The executor of the virtual loop behaves like the real one here: the job's future IS the future the awaiter is suspended
on, cancelling the awaiter cancels it (`Task.cancel` -> `_fut_waiter.cancel()`; the real `run_in_executor` future is a
`wrap_future` that behaves the same), and with `loop.drop_cancelled` the cancelled job is taken off the pending list (a
cancelled concurrent future never runs).  The section asserts that this is what happened.

Judged on the implementation's observation at the end of the run (every pending import released, loop quiescent):
exactly one device object was ever announced / is the entry for every address with a device class that got a frame which
was not in the hands of a task cancelled by the schedule; that object handled every such frame exactly once; its set-up
was started once; every get() caller has it; no consumer died that the schedule did not cancel; the read queue's
unfinished counter is 0.  Correspondence: the snapshot after every event (pending imports, objects created, set-ups,
announcements, (frame, object) handled, get() results) equals the one of the cancel machine Model/EntryCancel.lean
(`replayC`, driver op `c10c <consumers> <cr> <events>`), whose theorems are C10.cancelled_creator_does_not_block /
single_device_with_cancels (all schedules).
"""
import asyncio
import itertools

import pipefake

from common import driver_batch
from c10 import ECOMAX, ECOSTER, CREATABLE, CR_WORD, frame_bytes, name_of
from c10 import AsyncProtocol, DeviceType, PhysicalDevice


def run_history(case):
    events, consumers = list(case["events"]), case["consumers"]
    obs = dict(events=events, consumers=consumers)
    announced, handled, setups, gets, users = [], [], [], [], []
    objs = []

    def canon(o):
        for i, x in enumerate(objs):
            if x is o:
                return i
        objs.append(o)
        return len(objs) - 1

    with pipefake.Driven(hold_devices=True) as loop:
        loop.drop_cancelled = True
        proto = AsyncProtocol(consumers_count=consumers)

        def factory(lp, coro, **kw):
            task = asyncio.Task(coro, loop=lp, **kw)
            code = getattr(coro, "cr_code", None)
            if code is not None and code.co_name == "async_setup":
                owner = coro.cr_frame.f_locals.get("self")
                if isinstance(owner, PhysicalDevice):
                    setups.append(owner)
            return task

        loop.set_task_factory(factory)

        def subscribe(addr):
            async def on_device(dev):
                announced.append((addr, dev))

                async def on_password(value, dev=dev):
                    handled.append((value, dev))
                dev.subscribe("password", on_password)
            proto.subscribe(name_of(addr), on_device)

        for a in (ECOMAX, ECOSTER):
            subscribe(a)
        conn = dict(reader=asyncio.StreamReader(), established=1)

        async def reconnect():
            conn["reader"] = asyncio.StreamReader()
            proto.connection_established(conn["reader"], pipefake.FakeWriter())
            conn["established"] += 1

        proto.on_connection_lost.add(reconnect)
        loop.call_soon(proto.connection_established, conn["reader"], pipefake.FakeWriter())
        loop.settle()
        fed = []            # address of frame i (content i)
        excused = set()     # frames in the hands of a task the schedule cancelled
        cancelled_consumers = 0
        executor_ok = True

        def n_handled():
            return len(handled)

        effective, snaps = [], []

        def snapshot():
            for d in setups:
                canon(d)
            g = [(str(canon(t.result())) if t.done() and not t.cancelled() and t.exception() is None else ("w" if not t.done() else "x")) for _, t in gets]
            return " ".join([str(len(loop.held)), str(loop.device_imports_ok), str(len(setups)),
                             lst(f"{a}.{canon(d)}" for a, d in announced),
                             lst(f"{int(v)}.{canon(d)}" for v, d in handled if isinstance(v, str) and v.isdigit()),
                             lst(g)])

        for ev in events:
            if ev == "R" and not loop.held:
                continue
            effective.append(ev)
            if ev[0] == "F":
                a, m = ev[1:].split(":")
                chunk = b""
                for _ in range(int(m)):
                    chunk += frame_bytes(len(fed), int(a))
                    fed.append(int(a))
                conn["reader"].feed_data(chunk)
            elif ev == "R":
                if loop.held:
                    loop.release(0)
            elif ev[0] == "G":
                gets.append((int(ev[1:]), loop.create_task(proto.get(name_of(int(ev[1:]))))))
            elif ev[0] == "U":
                users.append(loop.create_task(proto.get_device_entry(DeviceType(int(ev[1:])))))
            elif ev == "XU":
                pending = len(loop.held)
                if users:
                    users[-1].cancel()
                loop.settle()
                if users and not users[-1].cancelled():
                    executor_ok = False
                obs.setdefault("pending_jobs_around_XU", []).append((pending, len(loop.held)))
            elif ev == "XT":
                # frames in hand = fed - handled so far - still queued - already failed/dropped (none in this section)
                inhand = len(fed) - n_handled() - proto._queues.read.qsize() - len(excused)
                first = n_handled() + len(excused)
                excused.update(range(first, first + max(0, inhand)))
                cancelled_consumers += sum(1 for t in proto.tasks if t.get_name().startswith("frame_consumer") and not t.done())
                pending = len(loop.held)
                proto.cancel_tasks()
                loop.settle()
                obs.setdefault("pending_jobs_around_XT", []).append((pending, len(loop.held)))
                conn["reader"] = asyncio.StreamReader()
                proto.connection_established(conn["reader"], pipefake.FakeWriter())
                conn["established"] += 1
            elif ev == "C":
                conn["reader"].feed_eof()
            else:
                raise ValueError(ev)
            loop.settle()
            snaps.append(snapshot())
        guard = 0
        while loop.held and guard < 16:
            loop.release(0)
            loop.settle()
            effective.append("R")
            snaps.append(snapshot())
            guard += 1
        obs.update(effective=effective, snapshots=snaps)
        obs.update(
            fed=fed, excused=sorted(excused),
            entry={a: (canon(proto.data[name_of(a)]) if name_of(a) in proto.data else None) for a in sorted(set(fed))},
            announced=[(a, canon(d)) for a, d in announced],
            handled=[(int(v) if isinstance(v, str) and v.isdigit() else -1, canon(d)) for v, d in handled],
            setups=[canon(d) for d in setups],
            gets=[(a, canon(t.result()) if t.done() and not t.cancelled() and t.exception() is None else ("waiting" if not t.done() else "raised"))
                  for a, t in gets],
            unfinished=proto._queues.read._unfinished_tasks, queued=proto._queues.read.qsize(),
            consumers_alive=len(consumers_alive(proto)),
            connections=conn["established"], executor_cancels_job=executor_ok, still_pending_imports=len(loop.held),
        )
    return obs


def lst(xs):
    xs = list(xs)
    return ",".join(xs) if xs else "-"


def consumers_alive(proto):
    return [t for t in proto.tasks if t.get_name().startswith("frame_consumer") and not t.done()]


def judge(obs):
    """-> list of violated clauses of the statement"""
    bad = []
    fed, excused = obs["fed"], set(obs["excused"])
    for a in sorted(set(fed)):
        if a not in CREATABLE:
            continue
        due = [i for i, x in enumerate(fed) if x == a and i not in excused]
        if not due:
            continue
        objs = sorted({d for x, d in obs["announced"] if x == a} | {d for i, d in obs["handled"] if 0 <= i < len(fed) and fed[i] == a})
        e = obs["entry"].get(a)
        if e is None:
            bad.append(f"address {a}: no device object although {len(due)} frame(s) from it were received after the cancelled creation")
            continue
        if objs != [e]:
            bad.append(f"address {a}: objects {objs} were announced / handled frames, the entry is {e}: more than one device object")
        for i in due:
            n = sum(1 for j, d in obs["handled"] if j == i and d == e)
            if n != 1:
                bad.append(f"address {a}: frame {i} handled {n} times by the entry (that object receives every frame from the address)")
        if obs["setups"].count(e) != 1 or any(d != e for d in obs["setups"] if d in objs):
            bad.append(f"address {a}: set-up started {obs['setups'].count(e)} times for the entry (set-up objects {obs['setups']})")
        for x, g in obs["gets"]:
            if x == a and g != e:
                bad.append(f"address {a}: a get() caller has {g}, the entry is {e}")
    if obs["unfinished"] != 0 or obs["queued"] != 0:
        bad.append(f"read queue: unfinished={obs['unfinished']} queued={obs['queued']} at the end of the run")
    if obs["consumers_alive"] != obs["consumers"]:
        bad.append(f"{obs['consumers_alive']} of {obs['consumers']} consumers alive at the end (a consumer died that the schedule did not cancel)")
    return bad


def histories(tier):
    out = []
    for a in CREATABLE:
        F = lambda m: f"F{a}:{m}"  # noqa: E731
        for after in (1, 2, 3):
            for second in (False, True):
                mid = ["C"] if second else []
                # a user's get_device_entry() holds the lock and the pending import, is cancelled; frames before / after
                out.append([f"U{a}", "XU"] + mid + [F(after), "R"])
                out.append([f"U{a}", F(1), "XU"] + mid + [F(after), "R"])
                out.append([f"U{a}", F(2), f"G{a}", "XU"] + mid + [F(after), "R", "R"])
                out.append([f"U{a}", "XU", f"U{a}", "XU"] + mid + [F(after), f"G{a}", "R"])
                # a consumer holds the import, the user call waits for the lock and is cancelled there (harmless position)
                out.append([F(1), f"U{a}", "XU"] + mid + [F(after), "R"])
                # the consumers are cancelled while one of them awaits the import, second connection, later frames
                for before in (1, 2, 4):
                    out.append([F(before), "XT", F(after), "R"])
                    out.append([F(before), f"G{a}", "XT", F(after), "R", "R"])
                out.append([F(1), "XT", F(1), "XT", F(after), "R"])
    if len(CREATABLE) >= 2:
        a, b = CREATABLE[0], CREATABLE[1]
        out.append([f"U{a}", f"F{b}:1", "XU", f"F{a}:2", f"F{b}:1", "R", "R"])
        out.append([f"F{a}:1", f"F{b}:1", "XT", f"F{b}:2", f"F{a}:1", "R", "R"])
    seen, uniq = set(), []
    for h in out:
        if tuple(h) not in seen:
            seen.add(tuple(h))
            uniq.append(h)
    return uniq


def fmt(case):
    return f"cancelled creation: consumers_count={case['consumers']} events={' '.join(case['events'])}"


def run_section(res, rng, tier, only=None):
    cases = only if only is not None else [dict(consumers=n, events=h) for h in histories(tier) for n in ((1, 3) if tier == "quick" else (1, 2, 3, 5))]
    nX = 0
    ran = []
    for case in cases:
        obs = run_history(case)
        ran.append((case, obs))
        res.case(fmt(case), True)
        kinds = sorted({e for e in case["events"] if e[0] == "X"})
        res.count("cancelled-creation:" + "+".join(kinds) + (",second-connection" if ("C" in case["events"] or "XT" in kinds) else ",same-connection"))
        nX += 1
        if not obs["executor_cancels_job"]:
            res.fail("corr", dict(cancel_history=case), "the cancelled awaiter's job future is cancelled", obs,
                     "virtual executor: cancelling the awaiter cancels the pending job's future")
            continue
        bad = judge(obs)
        if bad:
            res.fail("spec", dict(cancel_history=case, history=fmt(case)),
                     "one device object per address that receives every frame from the address, set-up started once - also after the "
                     "task creating it was cancelled while the class loading was pending", dict(violated=bad, observed=obs),
                     "that object receives every frame from the address (after a cancelled creation): " + bad[0])
    # correspondence with the cancel machine (Model/EntryCancel.lean replayC, driver op c10c): one snapshot per event
    answers = driver_batch([f"c10c {case['consumers']} {CR_WORD} {' '.join(obs['effective'])}" for case, obs in ran])
    for (case, obs), ans in zip(ran, answers):
        model = [x.strip() for x in ans.split(" ; ")]
        if model != obs["snapshots"]:
            k = next((i for i, (x, y) in enumerate(zip(model, obs["snapshots"])) if x != y), min(len(model), len(obs["snapshots"])))
            res.fail("corr", dict(cancel_history=case, history=fmt(case), effective=obs["effective"], index=k),
                     model[k] if k < len(model) else None, obs["snapshots"][k] if k < len(obs["snapshots"]) else None,
                     "entry machine with cancellations (replayC) and implementation differ")
        else:
            res.count("cancelled-creation:model-agrees")
    res.extra["cancelled_creation_histories"] = nX
    res.rule += ("; cancellation dimension: the task creating the entry (a user's get_device_entry() call cancelled as by wait_for, or the "
                 "consumers cancelled by protocol.cancel_tasks() followed by a second connection) is cancelled while the class loading is "
                 "pending (the executor job's future is cancelled with it), then 1..3 later frames from the same address on the same or a "
                 "second connection, get() callers; x consumers_count; judged by the statement on the observation")

"""Fakes shared by the C09 / C10 harnesses: a stream writer that records what is written and a
virtual loop that tells frame-class imports from device-class imports.

The real `helpers.factory._import_module` hops through `loop.run_in_executor` for BOTH
`Frame.create` (reader side, module `pyplumio.frames.*`) and `PhysicalDevice.create`
(consumer side, module `pyplumio.devices.*`).  `PipeLoop` completes the former at once and
(when `hold_devices`) holds the latter until the harness releases them.
"""
import asyncio
from asyncio import events

import vloop
import watchdog


class FakeWriter:
    """Stands in for asyncio.StreamWriter: write / drain / close / wait_closed."""

    def __init__(self):
        self.frames = []  # one entry per write() call
        self.closed = 0

    def write(self, b):
        self.frames.append(bytes(b))

    async def drain(self):
        return None

    def close(self):
        self.closed += 1

    def is_closing(self):
        return bool(self.closed)

    async def wait_closed(self):
        return None


class PipeLoop(vloop.VirtualLoop):
    def __init__(self, hold_devices=False):
        super().__init__(hold_executor=False)
        self.hold_devices = hold_devices
        self.device_imports = 0  # device-class imports requested so far
        self.frame_imports = 0
        self.device_imports_ok = 0  # … of which completed without raising
        self.dog = None  # a watchdog.Watchdog armed around the current step: once it fired the loop does not go on

    def _run_once(self):
        if self.dog is not None and self.dog.fired:
            raise watchdog.Stall("step cut short by the watchdog")
        super()._run_once()

    def run_in_executor(self, executor, func, *args):
        is_device = any(isinstance(a, str) and ".devices" in a for a in args)
        if is_device:
            self.device_imports += 1
        else:
            self.frame_imports += 1
        self.hold = bool(is_device and self.hold_devices)
        if is_device:
            inner = func

            def func(*a):  # noqa: F811  count the device-class imports that succeed (each is followed by an instantiation)
                r = inner(*a)
                self.device_imports_ok += 1
                return r
        try:
            return super().run_in_executor(executor, func, *args)
        finally:
            self.hold = False


class Driven:
    """Context: a PipeLoop installed as the running loop and driven from synchronous code
    with `loop.settle()` (one external event at a time, then quiescence)."""

    def __init__(self, hold_devices=False):
        self.loop = PipeLoop(hold_devices)

    def __enter__(self):
        asyncio.set_event_loop(self.loop)
        events._set_running_loop(self.loop)
        return self.loop

    def __exit__(self, *exc):
        loop = self.loop
        try:
            for _ in range(3):
                pending = [t for t in asyncio.all_tasks(loop) if not t.done()]
                if not pending:
                    break
                for t in pending:
                    t.cancel()
                loop.held.clear()
                loop.settle()
        finally:
            events._set_running_loop(None)
            asyncio.set_event_loop(None)
            loop.close()
        return False

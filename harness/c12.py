"""C12 correspondence: Connection.close() issued at every point of generated histories, on the
real implementation under the virtual loop vs the Lean connection machine, with the
property's own predicate (connspec.spec_c12) judged on what the implementation did.

Known finding F1 (open, see known_findings.json): AsyncProtocol.shutdown awaits Queues.join()
without bound; with requests queued and no producer able to send them (disconnected, or a
silent controller) close() never returns.  Such runs are detected (close() not done, blocked in
shutdown -> Queues.join, write queue not empty, no producer progress; loop quiescent or only the
periodic reconnect cycle left) and tagged finding="F1".  A deadlock anywhere else, a leftover
task, an unclosed transport or a late return in a state that drains is a VIOLATION.
"""
import random

from common import Result, load_corpus, use_repo

use_repo()

import connhist  # noqa: E402
import connrun  # noqa: E402
import connspec  # noqa: E402

# D30 (a reconnect attempt that succeeds inside shutdown()'s clean-up survived close(): residual of D25) was a genuine defect of
# the pinned tree, repaired by /repo aaad885: the late-open section demands a clean close() at every loop iteration
# (VERIF_C12_LATE_OPEN=report only records what it sees).
LATE_OPEN_DEFAULT = "strict"

ENVS = {
    # controller keeps sending: a frame every ~1 s / every ~9 s (just inside READER_TIMEOUT)
    "sending": ["A:1037", "F:f"] * 220,
    "slow": ["A:9037", "F:f"] * 60,
    # controller sends a burst at once, then a frame every ~0.5 s: queued requests go out faster than a device
    # set-up round (3 s) lasts, so close() returns while set-up request tasks would still be alive
    "fast": ["F:f"] * 12 + ["A:537", "F:f"] * 40 + ["A:1037", "F:f"] * 200,
    # silence for longer than READER_TIMEOUT first (a stalled read must have timed out by then), then a frame every ~1 s
    "late": ["A:10037"] + ["A:1037", "F:f"] * 220,
    # nothing arrives any more (about 190 s of virtual time)
    "silent": ["A:4037", "A:10037", "A:10037", "A:21037", "A:21037", "A:41037", "A:41037", "A:41037"],
    # the controller keeps broadcasting sensor data whose frame-version table says "version 0" for two request kinds and never
    # answers those requests: an unchanged table must not queue anything again (else the queue grows for ever)
    "bcast": ["A:1037", "F:v:2:0"] * 220,
}


def last_z(events):
    return max(i for i, e in enumerate(events) if e.split("~")[0] == "Z")

BASES = [
    # (consumers, reconnect, open script, events)  -- close() is inserted at every position
    (3, 1, [], ["C", "F:p:69", "F:s:2:2", "P:d:69", "P:m:0", "P:t:0", "P:m:1", "A:4037", "F:f", "A:6037", "F:f", "Q:2", "F:f"]),
    (3, 1, ["ooo", "e", "e", "ooo"], ["C", "F:p:69", "Q:1", "X", "A:5037", "A:15037", "A:20037", "F:f", "F:f"]),
    (2, 0, ["ooo", "ooo"], ["C", "F:s:1:1", "P:m:0", "P:t:0", "A:9537", "Q:2", "F:f", "X", "A:3037", "C", "F:f"]),
    (3, 1, ["ooh", "h", "ooo"], ["C", "F:p:81", "F:p:69", "P:d:81", "P:d:69", "X", "A:5037", "A:6037", "A:5037", "A:21037", "F:f"]),
    (1, 1, ["oho", "oro", "ooo"], ["C", "Q:1", "A:10037", "F:f", "F:s:0:2", "F:f", "A:2037", "F:p:69", "F:f"]),
    (3, 1, [], ["C", "F:s:3:1", "F:f", "A:3037", "F:f", "A:3037", "F:f", "A:3037", "F:f", "P:t:0", "P:m:2", "A:10037"]),
    (3, 0, [], ["C", "F:p:69", "Q:2", "D:h", "F:f", "A:4037", "A:6037", "A:1037"]),
    (3, 1, ["ooo", "e"], ["C", "F:s:1:1", "Q:1", "D:r", "F:f", "A:21037", "F:f", "F:f"]),
    # sensor data seen, set-up in progress: close() at every point of the three request rounds (3 s each)
    (3, 1, [], ["C", "F:s:1:1", "A:1037", "F:f", "A:1037", "A:1037", "F:f", "A:1037", "F:p:69", "A:2037", "A:1037", "F:f", "A:1037", "A:1037"]),
    (2, 0, [], ["C", "F:p:69", "F:s:0:0", "F:f", "F:f", "A:2037", "F:f", "A:1537", "F:f", "A:2537", "F:f", "A:2537", "A:1037"]),
    # the controller stalls in the middle of a frame (header complete, body not) with requests queued
    (3, 1, [], ["C", "F:p:69", "Q:2", "A:2037", "S:9", "A:3037"]),
    (3, 0, [], ["C", "F:p:69", "Q:1", "S:12", "A:1037"]),
    (3, 1, [], ["C", "F:s:1:1", "A:1037", "S:8", "A:1037"]),
    # wire-valid frames whose payload cannot be decoded (handle_frame raises): the consumers must survive them
    (3, 1, [], ["C", "F:u", "F:u", "F:u", "F:p:69", "F:f", "Q:1", "F:u", "F:p:69"]),
    (2, 1, [], ["C", "F:p:69", "F:u", "F:u", "F:p:69", "F:u", "F:f"]),
    (1, 0, [], ["C", "F:u", "F:p:69", "Q:1", "F:p:69"]),
    # the connection object is used again: close() returns, connect() again (also through the context manager), traffic,
    # loss; close() twice in a row; close() before the first connect()
    (3, 1, [], ["C", "F:p:69", "Z", "C", "F:s:1:1", "P:m:0", "Q:1", "F:f", "X", "A:537", "F:f"]),
    (2, 1, ["ooo", "ooo", "e", "ooo"], ["C~ctx", "F:s:1:1", "A:9537", "F:f", "F:f", "Z~ctx", "A:1037", "C~ctx", "F:p:69", "X", "A:20037", "F:f"]),
    (3, 0, [], ["Z", "C", "F:p:69", "P:d:69", "Z", "Z", "A:537", "C", "F:p:69", "Q:1", "F:f"]),
    (1, 1, ["ooh", "ooo"], ["C", "F:p:81", "Z", "A:10037", "Z", "C", "F:p:81", "F:p:69"]),
    # frame-version tables: version 0 for one / two kinds, repeated, changed
    (3, 1, [], ["C", "F:v:2:0", "F:f", "F:v:2:0", "F:v:1:3", "F:f", "F:v:2:3", "F:f", "F:f"]),
    (2, 1, [], ["C", "F:p:69", "F:v:1:0", "A:9537", "F:v:2:0", "F:f", "F:v:2:0"]),
    # frames from addresses that have no device class (ecoNET, broadcast) before the first frames of real devices
    (3, 1, [], ["C", "F:o:86", "F:p:69", "F:o:0", "F:p:81", "F:f", "Q:1", "F:p:69"]),
    (2, 0, [], ["C", "F:p:69", "F:o:0", "F:s:1:1", "F:o:86", "F:p:81"]),
]


def rand_base(rng):
    W = dict(F=10, A=6, X=1.8, D=0.8, W=0.8, Q=2.5, P=2.5)
    cfg = rng.choice([1, 2, 3, 3])
    rc = rng.choice([1, 1, 0])
    script = connhist.gen_script(rng, rng.randint(0, 6), fail_bias=0.4)
    evs = ["C"] + [connhist.gen_event(rng, W) for _ in range(rng.randint(2, 14))]
    return (cfg, rc, script, evs)


def with_close(base, k, env):
    cfg, rc, script, evs = base
    return (cfg, rc, script, evs[:k] + ["Z"] + ENVS[env])


def gated_items(tier):
    """close() at every quiescent point (no user callback holding a frame) of the gated histories of connhist"""
    envs = ["sending", "fast", "silent"]
    n = 0
    for h in connhist.gated_histories(tier):
        cfg, rc, script, evs = h
        if tier == "quick" and (n % 3) != 0:
            n += 1
            continue
        n += 1
        closed_gate = False
        for k in range(1, len(evs) + 1):
            e = evs[k - 1].split(":")[0]
            if e == "G":
                closed_gate = True
            elif e == "R":
                closed_gate = False
            if closed_gate or k < evs.index("X"):
                continue
            env = envs[(k + n) % 3]
            yield "gated:" + env, (cfg, rc, script, evs[:k] + ["Z"] + ENVS[env])


def gen(rng, tier):
    quick = tier == "quick"
    bases = list(BASES) + [rand_base(rng) for _ in range(170 if quick else 800)]
    envs = list(ENVS)
    for bi, b in enumerate(bases):
        n = len(b[3])
        for k in range(0, n + 1):
            if any(e.startswith("S:") for e in b[3][:k]):
                chosen = ["late", "silent"]  # nothing can be fed to a reader that holds half a frame
            elif quick and bi >= len(BASES):
                chosen = [envs[(k + bi) % len(envs)]]
            else:
                chosen = [e for e in envs if e not in ("late", "bcast")]
            if any(e.startswith("F:v") for e in b[3][:k]):
                chosen = chosen + ["bcast"]
            for env in chosen:
                yield ("base" if bi < len(BASES) else "random") + ":" + env, with_close(b, k, env)


def judge(res, lab, h, segs, extras, info, m):
    cfg, rc, script, events = h
    line = connhist.fmt_line(h)
    states = [connrun.parse_state(s) for s in segs]
    zpos = last_z(events)
    env = lab.split(":")[-1] if ":" in lab else "?"
    before = states[zpos - 1] if zpos > 0 else dict(q="0", c="0", p="0")
    xb = extras[zpos - 1] if zpos > 0 else dict(classes=dict(rq=0, s=0, k=0), drain_mode="ok")
    q0 = int(before["q"])
    connected0 = before["c"] == "1" and before["p"] == "1"
    # a state *drains* if nothing is queued, or a producer is sending on a working transport to a controller that
    # keeps sending and no device is in the middle of a set-up request round (which queues more requests)
    sending_env = any(e.startswith("F:") for e in events[zpos + 1:])
    after = segs[zpos:]
    loss_after = any("/wclose/" in x for x in after[:-1]) or after[-1].count("/wclose/") > 1 or any("/open/" in x for x in after)
    idle_drains = q0 == 0 and xb["classes"]["rq"] == 0 and not xb.get("writing", False)
    sending_drains = (connected0 and sending_env and xb["classes"]["rq"] == 0 and xb.get("drain_mode") == "ok"
                      and not xb.get("writing", False) and not loss_after)
    # frames left in the read queue with no live consumer while nothing is connected: the read-queue side of F1
    read_starved0 = xb.get("rqsize", 0) > 0 and xb["classes"].get("k", 0) == 0 and before["c"] == "0"
    # (a user callback that holds a frame while close() is called - harness gate G not yet released - delays close() for as long
    # as the user likes: not a state that drains within the I/O time-outs)
    drains = (idle_drains or sending_drains) and not read_starved0 and not xb.get("gate_closed")
    bound = (q0 + 1) * max(connspec.RT, connspec.WT)
    issued = states[zpos]["z"] != "n"
    if not issued:
        res.count("close-not-issued:connect() still running")
    else:
        res.count("close-at:" + ("connected" if before["c"] == "1" else "disconnected") + (",queued" if q0 else ",empty"))
        res.count("env:" + env)
    fails, stuck = connspec.spec_c12(h, segs, extras, states, info, zpos, drains, bound) if issued else ([], False)
    for clause, detail in fails:
        res.fail("spec", dict(history=line), clause, detail, clause)
    f1_input = not drains
    if stuck:
        chain = info["close_chain"] or []
        in_join = "shutdown" in chain and "join" in chain
        qs = [int(s["q"]) for s in states[zpos:]]
        no_progress = len(qs) < 9 or qs[-1] >= qs[-9]
        # the F1 match: a non-empty write queue and no producer progress, or a non-empty read queue with no live
        # consumer while nothing is connected (a connected protocol must have its consumers)
        # (a silent controller must have been noticed: by now the protocol is disconnected, or losses are being handled
        # periodically; a connected producer that sits there for longer than READER_TIMEOUT without any loss is not F1)
        noticed = states[-1]["c"] == "0" or any("/wclose/" in x or "/open/" in x for x in segs[zpos + 1:])
        long_enough = int(states[-1]["zt"]) > 2 * connspec.RT
        write_f1 = info["wq"] > 0 and no_progress and (noticed or not long_enough)
        read_f1 = (info["rq"] or 0) > 0 and extras[-1]["classes"]["k"] == 0 and states[-1]["c"] == "0"
        starved = write_f1 or read_f1
        if drains:
            res.fail("spec", dict(history=line), "close() returns (it never deadlocks)",
                     f"close() has not returned {states[-1]['zt']} ms after the call in a state that drains "
                     f"(queued={q0}, bound {bound} ms); blocked in {chain}; quiescent={info['quiescent']}",
                     "close() returns within the bound in a state that drains")
        elif in_join and starved:
            res.count("F1:stuck")
            if res.extra.setdefault("f1_recorded", 0) < 4:
                res.extra["f1_recorded"] += 1
                res.fail("spec", dict(history=line), "close() returns (it never deadlocks)",
                         f"close() has not returned {states[-1]['zt']} ms after the call: blocked in {chain}, write queue holds "
                         f"{info['wq']} request(s), no producer progress; loop quiescent={info['quiescent']} next timer={info['next_timer']}",
                         "close() returns", finding="F1")
        else:
            res.fail("spec", dict(history=line), "close() returns (it never deadlocks)",
                     f"close() has not returned {states[-1]['zt']} ms after the call, blocked in {chain} "
                     f"(write queue {info['wq']}, read queue {info['rq']}, quiescent={info['quiescent']}) - not the known finding F1",
                     "close() returns")
    elif issued:
        res.count("close:returned")
    # correspondence with the model
    if m is None:
        res.fail("corr", dict(history=line), "a model answer", "bad-op", "the model driver rejected the history")
        return
    if connhist.has_tie(m, len(segs)):
        res.count("skipped:timer-tie")
        return
    d = connhist.first_diff(segs, m)
    if d is not None:
        model_stuck = all(connrun.parse_state(x)["z"] != "d" for x in m)
        if f1_input and model_stuck and not stuck and not fails:
            res.count("F1:no-longer-reproduces")
            res.notes.append("finding F1 no longer reproduces on: " + line) if len(res.notes) < 5 else None
        else:
            res.fail("corr", dict(history=connhist.fmt_line((cfg, rc, script, events[:d + 1])), event=events[d], index=d),
                     m[d] if d < len(m) else None, segs[d], "connection machine model and implementation differ")


def after_event(r, i, e):
    pass


def evaluate(res, items):
    hists = [h for _, h in items]
    impl = []
    for lab, h in items:
        marks = []

        def hook(r, i, e, marks=marks):
            w = r.conn.writers[-1] if r.conn.writers else None
            marks.append((w.drain_mode if w else "ok", w.close_mode if w else "ok", not r.producer_reading() and r.last_classes["p"] > 0))

        segs, extras, info = connhist.run_impl(h, after_event=hook)
        for x, mk in zip(extras, marks):
            x["drain_mode"], x["close_mode"], x["writing"] = mk
        impl.append((segs, extras, info))
    model = connhist.model_batch(hists)
    for (lab, h), (segs, extras, info), m in zip(items, impl, model):
        line = connhist.fmt_line(h)
        zpos = last_z(h[3])
        pre = extras[zpos - 1]["classes"] if zpos > 0 else {}
        nontrivial = zpos > 0 and (pre.get("p", 0) + pre.get("k", 0) + pre.get("l", 0) + pre.get("r", 0) + pre.get("s", 0)
                                   + pre.get("d", 0) + pre.get("b", 0)) > 0
        res.case(line, nontrivial)
        res.count("source:" + lab.split(":")[0])
        if pre:
            res.count("tasks-at-close:" + ",".join(k for k in ("p", "k", "l", "r", "s", "d", "b") if pre.get(k)))
        if info.get("error") or len(segs) <= zpos:
            res.fail("spec", dict(history=line), "the library settles after every event",
                     "the implementation could not be driven further: " + str(info.get("error")), "the library reaches quiescence after every event")
            continue
        judge(res, lab, h, segs, extras, info, m)
        if len(res.samples) < 6 and zpos > 3 and not any(x.get("label") == lab for x in res.samples):
            res.sample(dict(label=lab, history=line, observed=segs[zpos - 1:zpos + 3], final=segs[-1]))


def read_queue_variant(res):
    """The read-queue side of known finding F1 (implementation only, not modelled): a burst of frames from a NEW
    device plus EOF while the device-class import is still in flight (held executor, C10-style timing); the
    import completes while disconnected, every consumer finishes its frame, sees the flag cleared and exits;
    the remaining frames stay in the read queue.  close() then waits in Queues.join until a reconnect tops the
    consumers up - for ever with reconnect off."""
    import asyncio

    import connfake
    import vloop

    for rc, script, expect_stuck in ((False, ["ok"], True), (True, ["ok", "err", "ok"], False)):
        loop = vloop.new_loop(hold_executor=True)
        conn = connfake.ScriptedConnection(script=list(script), reconnect_on_failure=rc)
        loop.create_task(conn.connect(), name="harness-connect")
        connfake.settle(loop)
        for _ in range(6):
            conn.readers[-1].feed_data(connfake.password_frame())
        conn.readers[-1].feed_eof()
        connfake.settle(loop)
        loop.release(0)
        connfake.settle(loop)  # frame 1 built -> held = [frame 2, device class]
        loop.release(0)
        connfake.settle(loop)  # -> held = [device class, frame 3]
        while len(loop.held) > 1:
            loop.release(1)
            connfake.settle(loop)
        loop.release(0)  # the device class arrives after the loss
        connfake.settle(loop)
        rq = None
        for v in vars(conn.protocol).values():
            if isinstance(v, connrun.Queues):
                rq = v.read
        consumers = sum(1 for t in conn.protocol.tasks if not t.done() and t.get_coro().cr_code.co_name == "frame_consumer")
        close = loop.create_task(conn.close(), name="harness-close")
        connfake.settle(loop, 120.0)
        chain = connrun.coro_chain(close) if not close.done() else []
        left = [t.get_coro().cr_code.co_name for t in asyncio.all_tasks(loop) if not t.done() and t is not close]
        hist = f"held-import burst: reconnect={'on' if rc else 'off'} script={script}, 6 password frames + EOF, device import released last, then close()"
        res.case(hist, True)
        res.count("read-queue-variant:" + ("stuck" if not close.done() else "returned"))
        if not close.done():
            if "join" in chain and rq is not None and rq.qsize() > 0 and consumers == 0 and not conn.protocol.connected.is_set():
                res.fail("spec", dict(history=hist), "close() returns (it never deadlocks)",
                         f"close() blocked in {chain}: read queue holds {rq.qsize()} frame(s), no live consumer (quiescent={loop.quiescent()})",
                         "close() returns", finding="F1")
            else:
                res.fail("spec", dict(history=hist), "close() returns (it never deadlocks)",
                         f"close() blocked in {chain}, read queue {rq.qsize() if rq else None}, consumers {consumers}", "close() returns")
        else:
            if left or any(w.closed == 0 for w in conn.writers):
                res.fail("spec", dict(history=hist), "nothing left after close()",
                         f"tasks {left}, transports closed {[w.closed for w in conn.writers]}", "no task left, transport closed")
            if expect_stuck:
                res.notes.append("finding F1 (read-queue variant) no longer reproduces")
        from asyncio import events

        events._set_running_loop(loop)
        try:
            for t in asyncio.all_tasks(loop):
                t.cancel()
            for _ in range(20):
                if not loop._ready:
                    break
                loop._run_once()
        finally:
            events._set_running_loop(None)
            asyncio.set_event_loop(None)
            loop.close()


def held_open_variant(res, tier):
    """close() while a reconnect attempt of the connection's OWN retry chain (second or later attempt: a task of the
    Connection, not of the protocol) is in flight, the attempt succeeding at each of the event-loop iterations between the
    start of close() and its return (implementation only: the machine's close() is one step, `cancelConn` first - the
    connection's tasks are cancelled before anything else, so a late success finds nobody).  `_open_connection` of the
    held attempt waits for the harness; it is released k loop iterations after close() was started (k = 0 .. 24), or
    close() is started j iterations after the release.  Afterwards: close() returned, no library task pending, every
    transport ever opened is closed."""
    import asyncio
    from asyncio import events

    import connfake
    import vloop

    class HeldConn(connfake.ScriptedConnection):
        nopen = 0
        hold_from = 3

        @connfake.timeout(connfake.CONNECT_TIMEOUT)
        async def _open_connection(self):
            self.nopen += 1
            if self.nopen >= self.hold_from:
                await self.go.wait()
            return await connfake.scripted_open(self)

    def spin(loop, n):
        events._set_running_loop(loop)
        try:
            for _ in range(n):
                if not loop._ready:
                    break
                loop._run_once_nonblocking()
        finally:
            events._set_running_loop(None)

    offsets = list(range(0, 25)) + [-1, -2, -3]
    for with_device in (True, False):
        for off in offsets:
            loop = vloop.new_loop()
            conn = HeldConn(script=["ok", "err", "ok", "ok"], reconnect_on_failure=True)
            conn.go = asyncio.Event()
            loop.create_task(conn.connect(), name="harness-connect")
            connfake.settle(loop)
            if with_device:
                conn.readers[-1].feed_data(connfake.password_frame())
                connfake.settle(loop)
            conn.readers[-1].feed_eof()
            connfake.settle(loop)            # loss; the first attempt (inside the protocol's loss handler) fails
            connfake.settle(loop, 20.037)    # back-off over: the retry runs as a task of the connection, its open is held
            held = conn.nopen >= conn.hold_from
            if off < 0:
                conn.go.set()
                spin(loop, -off)
            close = loop.create_task(conn.close(), name="harness-close")
            if off >= 0:
                spin(loop, off)
                conn.go.set()
            connfake.settle(loop, 21.0)
            left = sorted(t.get_coro().cr_code.co_name for t in asyncio.all_tasks(loop) if not t.done() and t is not close)
            unclosed = [w.tid for w in conn.writers if not w.closed]
            hist = (f"held-open: connect, {'password frame, ' if with_device else ''}EOF, first reconnect attempt fails, back-off, second attempt "
                    f"(connection's own task) in flight; close() and the attempt succeeding {off} loop iteration(s) later")
            res.case(hist, True)
            res.count("held-open:" + ("attempt-in-flight" if held else "not-held"))
            if not close.done():
                res.fail("spec", dict(history=hist), "close() returns (it never deadlocks)",
                         f"close() blocked in {connrun.coro_chain(close)}", "close() returns")
            elif left or unclosed:
                res.fail("spec", dict(history=hist), "no task created by the protocol, the connection, a device or a sub-device is left pending; the transport is closed",
                         f"after close() returned: tasks {left}, transports never closed {unclosed} (opened: {len(conn.writers)})",
                         "no task left, every transport closed")
            events._set_running_loop(loop)
            try:
                for t in asyncio.all_tasks(loop):
                    t.cancel()
                for _ in range(30):
                    if not loop._ready:
                        break
                    loop._run_once()
            finally:
                events._set_running_loop(None)
                asyncio.set_event_loop(None)
                loop.close()


def late_open_variant(res, tier):
    """A retry attempt of the connection's OWN chain that is created WHILE close() waits in Queues.join (so the first
    cancel_tasks() of close() cannot know it) and whose open COMPLETES k event-loop iterations after join() returned, i.e.
    somewhere inside the rest of shutdown(): cancel_tasks / wait_until_done / close_writer / device.shutdown, before the
    second cancel_tasks() of close().  The machine's `shutdownRun` is one micro event; this section walks through it on the
    implementation (`C12Clean.late_open_window` is the model-level witness of what an establishment inside it does).
    Afterwards: close() returned, no library task pending, every transport ever opened is closed, not connected.
    Report W5b-defect-1: on a tree without a guard against an establishment during the clean-up the section FAILS for
    k = 3..8 (genuine defect, residual of D25).  VERIF_C12_LATE_OPEN=report turns the failures into notes."""
    import asyncio
    import os
    from asyncio import events

    import connfake
    import vloop

    strict = os.environ.get("VERIF_C12_LATE_OPEN", LATE_OPEN_DEFAULT) != "report"

    class HeldConn(connfake.ScriptedConnection):
        nopen = 0
        hold_from = 3

        @connfake.timeout(connfake.CONNECT_TIMEOUT)
        async def _open_connection(self):
            self.nopen += 1
            if self.nopen >= self.hold_from:
                await self.go.wait()
            return await connfake.scripted_open(self)

    def spin(loop, n):
        events._set_running_loop(loop)
        try:
            for _ in range(n):
                if not loop._ready:
                    break
                loop._run_once_nonblocking()
        finally:
            events._set_running_loop(None)

    bad = []
    for outcome in ("ok", "err"):
        for off in range(0, 16):
            loop = vloop.new_loop()
            conn = HeldConn(script=["ok", "err", outcome, "ok"], reconnect_on_failure=True)
            conn.go = asyncio.Event()
            gate = asyncio.Event()

            async def slow(device, gate=gate):
                await gate.wait()

            conn.protocol.subscribe_once("ecomax", slow)
            loop.create_task(conn.connect(), name="harness-connect")
            connfake.settle(loop)
            conn.readers[-1].feed_data(connfake.password_frame())
            connfake.settle(loop)            # a consumer sits in the slow subscriber: read queue unfinished
            conn.readers[-1].feed_eof()
            connfake.settle(loop)            # loss; the first attempt (inside the protocol's loss handler) fails
            close = loop.create_task(conn.close(), name="harness-close")
            connfake.settle(loop, 20.037)    # back-off over while close() waits in join: the retry is a task of the connection
            held = conn.nopen >= conn.hold_from
            in_join = (not close.done()) and "join" in connrun.coro_chain(close)
            gate.set()                       # the subscriber returns: join() returns, shutdown() goes on
            spin(loop, off)
            conn.go.set()                    # ... and the open completes `off` loop iterations later
            connfake.settle(loop, 2.0)
            left = sorted(t.get_coro().cr_code.co_name for t in asyncio.all_tasks(loop) if not t.done() and t is not close)
            unclosed = [w.tid for w in conn.writers if not w.closed]
            hist = (f"late-open: connect, password frame held by a slow subscriber, EOF, first reconnect attempt fails, close() (waits in join), "
                    f"back-off ends: second attempt (connection's own task) in flight, subscriber returns, the open "
                    f"{'completes' if outcome == 'ok' else 'fails'} {off} loop iteration(s) later")
            res.case(hist, True)
            res.count("late-open:" + ("attempt-in-flight,close-in-join" if held and in_join else "precondition-missed"))
            if not close.done():
                res.fail("spec", dict(history=hist), "close() returns (it never deadlocks)",
                         f"close() blocked in {connrun.coro_chain(close)}", "close() returns")
            elif left or unclosed or conn.protocol.connected.is_set():
                res.count("late-open:not-clean")
                detail = (f"after close() returned: tasks {left}, transports never closed {unclosed} (opened: {len(conn.writers)}), "
                          f"connected={conn.protocol.connected.is_set()}")
                bad.append((off, detail))
                if strict:
                    res.fail("spec", dict(history=hist), "no task created by the protocol, the connection, a device or a sub-device is left pending; the transport is closed",
                             detail, "no task left, every transport closed")
            else:
                res.count("late-open:clean")
            events._set_running_loop(loop)
            try:
                for t in asyncio.all_tasks(loop):
                    t.cancel()
                for _ in range(30):
                    if not loop._ready:
                        break
                    loop._run_once()
            finally:
                events._set_running_loop(None)
                asyncio.set_event_loop(None)
                loop.close()
    if bad and not strict:
        res.notes.append(f"W5b-defect-1 reproduces (report mode): a retry attempt succeeding inside shutdown()'s clean-up survives close() at loop "
                         f"iterations {[k for k, _ in bad]} after join() returned; e.g. {bad[-1][1]}")


def run(ctx):
    rng = random.Random(ctx["seed"] * 15485863 + 12)
    res = Result("C12")
    res.rule = ("histories (establish, frames creating ecoMAX / ecoSTER, mixers and thermostats with overlapping indexes, parked device / "
                "mixer / thermostat tasks, queued requests, hung or failing writes, loss, failed reconnects) with close() inserted at "
                "EVERY position, each followed by an environment (controller sending every ~1 s, every ~9 s, or silent for ~190 s); "
                "fixed base histories + seeded random ones; distinct = distinct history text; non-trivial = at least one library task "
                "alive when close() is called")
    items = []
    for fn, ln in load_corpus("C12"):
        items.append(("corpus:" + ("sending" if "F:f" in ln.split("Z")[-1] else "silent"), connhist.parse_line(ln)))
    items.extend(gated_items(ctx["tier"]))
    items.extend(gen(rng, ctx["tier"]))
    if ctx.get("max_cases"):
        items = items[:ctx["max_cases"]]
    B = 400
    for i in range(0, len(items), B):
        evaluate(res, items[i:i + B])
        if sum(1 for f in res.failures if not f.get("finding")) >= 150:
            res.notes.append(f"stopped after {i + B} histories: {len(res.failures)} failures already")
            break
    read_queue_variant(res)
    held_open_variant(res, ctx["tier"])
    late_open_variant(res, ctx["tier"])
    res.extra["partial"] = ("liveness is checked for the real event loop on generated histories and proved for the modelled scheduler; "
                            "F1 (unbounded Queues.join) is an open known finding")
    return res


def replay(ctx):
    rp = ctx["replay"]
    f = rp.get("failure") or rp.get("first_difference")
    h = connhist.parse_line(f["input"]["history"])
    res = Result("C12")
    res.rule = "replay of one recorded history"
    if not any(e.split("~")[0] == "Z" for e in h[3]):
        h = (h[0], h[1], h[2], h[3] + ["Z"])
    env = "sending" if any(e.startswith("F:") for e in h[3][last_z(h[3]) + 1:]) else "silent"
    evaluate(res, [("replay:" + env, h)])
    return res

"""Comparison of a decoded Python value with the Lean model's `Val` (JSON from the driver).

Model JSON (Val.toJson):  int -> number, bool -> true/false, none -> null,
  str -> {"s": hex}, f32 -> {"f": bits}, f64 -> {"d": bits}, list -> [...],
  record -> {"r": [[key, value], ...]} (insertion order),
  ratio n/d -> record with keys ratio_num / ratio_den (the correctly rounded binary64 quotient).
Python side: IntEnum counts as int, bool only as bool, a dict with str keys or a dataclass is a
record (order compared), a dict with int keys is a list of [key, value] (order compared),
floats are compared by their bit pattern after struct.pack (every NaN is one token).
"""
import dataclasses
import math
import socket
import struct
from fractions import Fraction


def f32_bits(x):
    return struct.unpack("<I", struct.pack("<f", x))[0]


def f64_bits(x):
    return struct.unpack("<Q", struct.pack("<d", x))[0]


def is_nan32(bits):
    return (bits & 0x7FFFFFFF) > 0x7F800000


def is_nan64(bits):
    return (bits & 0x7FFFFFFFFFFFFFFF) > 0x7FF0000000000000


def correctly_rounded(x, num, den):
    """x is the binary64 nearest (ties-to-even not needed: we accept any nearest) to num/den"""
    if not isinstance(x, float) or math.isnan(x) or math.isinf(x):
        return False
    q = Fraction(num, den)
    e = abs(Fraction(x) - q)
    lo, hi = math.nextafter(x, -math.inf), math.nextafter(x, math.inf)
    return e <= abs(Fraction(lo) - q) and e <= abs(Fraction(hi) - q)


def show(v):
    """printable, deterministic rendering of an implementation value (for reports)"""
    if isinstance(v, bool) or v is None:
        return repr(v)
    if isinstance(v, int):
        return str(int(v))
    if isinstance(v, float):
        return "nan" if math.isnan(v) else v.hex()
    if isinstance(v, str):
        return "s:" + v.encode("utf-8", "surrogatepass").hex()
    if isinstance(v, (bytes, bytearray)):
        return "b:" + bytes(v).hex()
    if dataclasses.is_dataclass(v) and not isinstance(v, type):
        return "{" + ",".join(f"{f.name}={show(getattr(v, f.name))}" for f in dataclasses.fields(v)) + "}"
    if isinstance(v, dict):
        return "{" + ",".join(f"{show(k) if not isinstance(k, str) else k}={show(x)}" for k, x in v.items()) + "}"
    if isinstance(v, (list, tuple)):
        return "[" + ",".join(show(x) for x in v) + "]"
    return f"<{type(v).__name__}:{v!r}>"


def agree(model, impl, codec="latin-1", path=""):
    """None when `impl` is the value `model` describes, else a short description of the first difference"""
    def bad(msg):
        return f"{path or '.'}: {msg} (model {str(model)[:80]}, impl {show(impl)[:80]})"

    if model is None:
        return None if impl is None else bad("expected None")
    if isinstance(model, bool):
        return None if isinstance(impl, bool) and impl == model else bad("bool differs")
    if isinstance(model, int):
        if isinstance(impl, bool) or not isinstance(impl, int):
            return bad("expected int")
        return None if int(impl) == model else bad("int differs")
    if isinstance(model, list):
        if isinstance(impl, dict):
            items = [[k, v] for k, v in impl.items()]
        elif isinstance(impl, (list, tuple)):
            items = list(impl)
        else:
            return bad("expected list / int-keyed dict")
        if len(items) != len(model):
            return bad(f"length {len(items)} != {len(model)}")
        for i, (m, x) in enumerate(zip(model, items)):
            d = agree(m, x, codec, f"{path}[{i}]")
            if d:
                return d
        return None
    if isinstance(model, dict):
        if "s" in model:
            want = bytes.fromhex(model["s"])
            if not isinstance(impl, str):
                return bad("expected str")
            use = codec
            if codec == "bypath":  # device state: regulator data strings are UTF-8, module versions latin-1
                use = "utf-8" if "regdata" in path else "latin-1"
            if use == "latin-1":
                ok = impl == want.decode("latin-1")
            else:
                ok = impl == want.decode("utf-8", "replace")
            return None if ok else bad("str differs")
        if "f" in model:
            if not isinstance(impl, float):
                return bad("expected float")
            bits = model["f"]
            if is_nan32(bits):
                return None if math.isnan(impl) else bad("expected NaN")
            if math.isnan(impl):
                return bad("unexpected NaN")
            try:
                return None if f32_bits(impl) == bits and struct.unpack("<f", struct.pack("<f", impl))[0] == impl else bad("f32 differs")
            except OverflowError:
                return bad("not a binary32 value")
        if "d" in model:
            if not isinstance(impl, float):
                return bad("expected float")
            bits = model["d"]
            if is_nan64(bits):
                return None if math.isnan(impl) else bad("expected NaN")
            return None if (not math.isnan(impl)) and f64_bits(impl) == bits else bad("f64 differs")
        if "r" in model:
            fields = model["r"]
            keys = [k for k, _ in fields]
            if keys == ["ratio_num", "ratio_den"]:
                num, den = fields[0][1], fields[1][1]
                return None if correctly_rounded(impl, num, den) else bad("not the correctly rounded quotient")
            if keys == ["ipv6_packed"]:
                raw = bytes.fromhex(fields[0][1]["s"])
                if not isinstance(impl, str):
                    return bad("expected str (IPv6)")
                try:
                    ok = socket.inet_pton(socket.AF_INET6, impl) == raw and impl == socket.inet_ntop(socket.AF_INET6, raw)
                except (OSError, ValueError):
                    ok = False
                return None if ok else bad("IPv6 text does not denote the 16 wire bytes")
            if dataclasses.is_dataclass(impl) and not isinstance(impl, type):
                items = [(f.name, getattr(impl, f.name)) for f in dataclasses.fields(impl)]
            elif isinstance(impl, dict):
                items = list(impl.items())
            else:
                return bad("expected dict / dataclass")
            ikeys = [k for k, _ in items]
            if ikeys != keys:
                extra = [k for k in ikeys if k not in keys]
                missing = [k for k in keys if k not in ikeys]
                return bad(f"keys differ: missing {missing[:4]} extra {extra[:4]}" if (extra or missing) else "key order differs")
            for (k, m), (_, x) in zip(fields, items):
                d = agree(m, x, codec, f"{path}.{k}")
                if d:
                    return d
            return None
    return bad("unknown model value")

"""Object re-use scenarios (multi-step sequences on ONE frame / data-type instance).

The main harnesses build a fresh object per case and tie it to the Lean model.  A whole class
of realistic defects (memoised length / message / packed bytes that are not invalidated) only
shows when an object is serialised, changed through its public setters and serialised again.
Oracle here: whatever was done before, the observable state of the re-used object must equal
that of a FRESH object built from the final content (the fresh object itself is what the main
harness compares with the model) -- a mismatch is a failure of the property's own statement
("the payload encodes exactly the fields it was given", "size equals the packed length", ...).
"""
import random

from common import hexs, use_repo

use_repo()
from pyplumio.const import DeviceType  # noqa: E402
from pyplumio.frames import requests, responses  # noqa: E402
from pyplumio.helpers import data_types as dt  # noqa: E402
from pyplumio.structures.network_info import EthernetParameters, NetworkInfo, WirelessParameters  # noqa: E402
from pyplumio.structures.program_version import VersionInfo  # noqa: E402


# ---------------------------------------------------------------- frames -----------------
# A scenario is plain JSON (so a failure replays exactly):
#   dict(t="frame_reuse", cls=<class name>, header=dict(recipient, sender, econet_type, econet_version),
#        init=dict(message=<hex|None>, data=<jdata|None>), steps=[[op, arg?], ...])
# jdata: {key: int | None | str | {"__sched__": [...]} | {"__net__": {...}} | {"__ver__": {...}}}
# Two oracles: (1) the Lean frame-object model (Model/FrameObject.lean, driver op `obj`): what every
# single step returned must be what the model returns; (2) a FRESH frame built from the final content.
import json
import struct

from common import driver_batch
from pyplumio import const as _const  # noqa: E402
from pyplumio.const import EncryptionType, FrameType  # noqa: E402
from pyplumio.exceptions import FrameDataError  # noqa: E402
from pyplumio.frames import Request, Response  # noqa: E402

# data keys: the library's constants -> the model's names
KEYS = {getattr(_const, a): n for a, n in [
    ("ATTR_COUNT", "count"), ("ATTR_START", "start"), ("ATTR_INDEX", "index"), ("ATTR_VALUE", "value"),
    ("ATTR_DEVICE_INDEX", "device_index"), ("ATTR_OFFSET", "offset"), ("ATTR_SIZE", "size"), ("ATTR_TYPE", "type"),
    ("ATTR_SWITCH", "switch"), ("ATTR_PARAMETER", "parameter"), ("ATTR_SCHEDULE", "schedule")]}
KEYS["network"] = "network"
KEYS["version"] = "version"
MODEL_KEY = {v: k for k, v in KEYS.items()}   # model name -> key the library uses

FRAME_CLASSES = [
    requests.SetEcomaxParameterRequest, requests.SetMixerParameterRequest, requests.SetThermostatParameterRequest,
    requests.EcomaxControlRequest, requests.EcomaxParametersRequest, requests.MixerParametersRequest,
    requests.ThermostatParametersRequest, requests.AlertsRequest, responses.ProgramVersionResponse,
    responses.DeviceAvailableResponse, requests.SetScheduleRequest, requests.StartMasterRequest, requests.UIDRequest,
    responses.SetEcomaxParameterResponse, responses.EcomaxControlResponse,
]
_BY_NAME = {c.__name__: c for c in FRAME_CLASSES}
# frame-type codes as the protocol numbers them (pinned against the source by C02.frame_codes_pinned)
_PINNED = {"REQUEST_SET_ECOMAX_PARAMETER": 51, "REQUEST_SET_MIXER_PARAMETER": 52, "REQUEST_SET_THERMOSTAT_PARAMETER": 93,
           "REQUEST_ECOMAX_CONTROL": 59, "REQUEST_ECOMAX_PARAMETERS": 49, "REQUEST_MIXER_PARAMETERS": 50,
           "REQUEST_THERMOSTAT_PARAMETERS": 92, "REQUEST_ALERTS": 61, "RESPONSE_PROGRAM_VERSION": 192,
           "RESPONSE_DEVICE_AVAILABLE": 176, "REQUEST_SET_SCHEDULE": 55, "REQUEST_START_MASTER": 25, "REQUEST_UID": 57,
           "RESPONSE_SET_ECOMAX_PARAMETER": 179, "RESPONSE_ECOMAX_CONTROL": 187}


def _code(cls):
    return _PINNED[FrameType(cls.frame_type).name]


def _rand_jdata(rng, cls, bad=False):
    b = lambda: rng.choice([0, 1, 2, 7, 100, 254, 255, rng.randrange(256)])  # noqa: E731
    n = cls.__name__
    if n == "SetEcomaxParameterRequest":
        d = {"index": b(), "value": b()}
    elif n == "SetMixerParameterRequest":
        d = {"device_index": b(), "index": b(), "value": b()}
    elif n == "SetThermostatParameterRequest":
        size = rng.choice([1, 2])
        d = {"index": rng.randrange(0, 100), "value": rng.randrange(256 ** size), "offset": rng.choice([None, 0, 5, 12, 24]), "size": size}
    elif n == "EcomaxControlRequest":
        d = {"value": rng.choice([0, 1, b()])}
    elif n in ("EcomaxParametersRequest", "MixerParametersRequest", "ThermostatParametersRequest", "AlertsRequest"):
        d = {"count": b(), "start": b()}
        if rng.random() < 0.2:
            del d[rng.choice(["count", "start"])]      # the defaults of data.get
    elif n == "SetScheduleRequest":
        d = {"type": rng.choice(["heating", "water_heater", "mixer_3", "intake_summer"]), "switch": rng.randrange(2), "parameter": b(),
             "schedule": {"__sched__": ["".join(rng.choice("01") for _ in range(48)) for _ in range(7)]}}
    elif n == "ProgramVersionResponse":
        d = {"version": {"__ver__": dict(a=rng.randrange(65536), b=rng.randrange(65536), c=rng.randrange(65536),
                                         tag=bytes([b(), b()]).hex(), sv=b(), dev=bytes([b(), b()]).hex(),
                                         sig=bytes([b(), b(), b()]).hex())}}
    elif n == "DeviceAvailableResponse":
        ipa = lambda: [rng.randrange(256) for _ in range(12)]  # noqa: E731
        ssid = rng.choice(["", "a", "net", "Café", "Łódź-dom", "x" * rng.randint(1, 40)])
        d = {"network": {"__net__": dict(eth=ipa(), est=rng.random() < 0.5, wlan=ipa(), wst=rng.random() < 0.5, ssid=ssid,
                                         enc=rng.randrange(5), sig=b(), srv=rng.random() < 0.5)}}
    else:
        d = rng.choice([{}, {"value": b()}, {"index": b(), "value": b()}])   # ignored by the encoder
    if bad and n in ("SetEcomaxParameterRequest", "SetMixerParameterRequest", "SetThermostatParameterRequest"):
        k = rng.choice(["index", "value"])
        if rng.random() < 0.5:
            d[k] = rng.choice([256, 300, -1])       # FrameDataError (thermostat value: OverflowError)
        else:
            del d[k]                                # missing key
    return d


def _dotted(b):
    return ".".join(str(x) for x in b)


def _to_py(jd):
    """JSON data -> the dict handed to the real frame"""
    if jd is None:
        return None
    out = {}
    for k, v in jd.items():
        if isinstance(v, dict) and "__net__" in v:
            c = v["__net__"]
            e, w = c["eth"], c["wlan"]
            v = NetworkInfo(
                eth=EthernetParameters(ip=_dotted(e[0:4]), netmask=_dotted(e[4:8]), gateway=_dotted(e[8:12]), status=c["est"]),
                wlan=WirelessParameters(ip=_dotted(w[0:4]), netmask=_dotted(w[4:8]), gateway=_dotted(w[8:12]), status=c["wst"],
                                        ssid=c["ssid"], encryption=EncryptionType(c["enc"]), signal_quality=c["sig"]),
                server_status=c["srv"])
        elif isinstance(v, dict) and "__ver__" in v:
            c = v["__ver__"]
            v = VersionInfo(software=f"{c['a']}.{c['b']}.{c['c']}", struct_tag=bytes.fromhex(c["tag"]), struct_version=c["sv"],
                            device_id=bytes.fromhex(c["dev"]), processor_signature=bytes.fromhex(c["sig"]))
        elif isinstance(v, dict) and "__sched__" in v:
            v = [[ch == "1" for ch in day] for day in v["__sched__"]]
        out[MODEL_KEY.get(k, k)] = v
    return out


def _val_word(v):
    import socket
    if isinstance(v, bool):
        return "i%d" % int(v)
    if isinstance(v, int):
        return "i%d" % int(v)
    if v is None:
        return "N"
    if isinstance(v, str):
        return "t" + v
    if isinstance(v, list):
        return "S" + ("-" if not v else "s" + "/".join("".join("1" if x else "0" for x in day) for day in v))
    if isinstance(v, NetworkInfo):
        a = lambda s: socket.inet_aton(s).hex()  # noqa: E731
        return "n" + "|".join([a(v.eth.ip) + a(v.eth.netmask) + a(v.eth.gateway), str(int(v.eth.status)),
                               a(v.wlan.ip) + a(v.wlan.netmask) + a(v.wlan.gateway), str(int(v.wlan.status)),
                               hexs(v.wlan.ssid.encode()), str(int(v.wlan.encryption)), str(int(v.wlan.signal_quality)),
                               str(int(v.server_status))])
    if isinstance(v, VersionInfo):
        return "v" + "|".join(v.software.split(".") + [hexs(v.struct_tag), str(v.struct_version), hexs(v.device_id),
                                                       hexs(v.processor_signature)])
    return "?" + type(v).__name__


def _dict_word(d):
    """a real data dict -> the model's dict word (keys sorted by the model's names)"""
    if d is None:
        return "_"
    if not d:
        return "{}"
    return ";".join(k + "~" + w for k, w in sorted((KEYS.get(k, k), _val_word(v)) for k, v in d.items()))


def _err_word(e, op):
    if op == "gd":
        return "E:decode"          # decode_message raised (class not compared)
    if isinstance(e, FrameDataError):
        return "E:frameData"
    if isinstance(e, OverflowError):
        return "E:overflow"
    if isinstance(e, struct.error):
        return "E:struct"
    if isinstance(e, ValueError):
        return "E:value"
    if isinstance(e, TypeError):
        return "E:type"
    return "X:" + type(e).__name__


def _sw_version():
    from pyplumio._version import __version_tuple__
    return ".".join(str(x if isinstance(x, int) else 0) for x in (tuple(__version_tuple__) + (0, 0, 0))[:3])


def gen_scenario(rng):
    cls = rng.choice(FRAME_CLASSES)
    hdr = dict(recipient=int(rng.choice(list(DeviceType))), sender=int(rng.choice(list(DeviceType))),
               econet_type=rng.choice([48, rng.randrange(256)]), econet_version=rng.choice([5, rng.randrange(256)]))
    r = rng.random()
    if r < 0.6:
        init = dict(message=None, data=_rand_jdata(rng, cls))
    elif r < 0.85:
        init = dict(message=_some_message(rng, cls, hdr), data=None)
    elif r < 0.93:
        init = dict(message="", data=None)          # a legal empty payload is a payload, not "unset"
    else:
        init = dict(message=None, data=None)
    steps = []
    for _ in range(rng.randint(1, 5)):
        op = rng.choice(["read", "read", "len", "read_message", "read_data", "set_new", "set_inplace", "set_ior", "set_message",
                         "set_header", "set_header"])
        if op == "set_header":
            # the four header fields are plain attributes: re-assigned between serialisations
            field = rng.choice(["recipient", "sender", "econet_type", "econet_version"])
            if field in ("recipient", "sender"):
                v = int(rng.choice(list(DeviceType))) if rng.random() < 0.8 else rng.choice([1, 0x68, 255, rng.randrange(256), 256, -1])
            else:
                v = rng.choice([48, 5, 0, 255, rng.randrange(256), rng.randrange(256), 256, -1])
            steps.append([op, field, v])
            if rng.random() < 0.7:
                steps.append(["read"])
        elif op in ("set_new", "set_inplace", "set_ior"):
            steps.append([op, _rand_jdata(rng, cls, bad=rng.random() < 0.08)])
        elif op == "set_message":
            steps.append([op, rng.choice(["", _some_message(rng, cls, hdr), _some_message(rng, cls, hdr)])])
        else:
            steps.append([op])
    return dict(t="frame_reuse", cls=cls.__name__, header=hdr, init=init, steps=steps)


CODEC_KINDS = ("ProgramVersionResponse", "DeviceAvailableResponse")   # both an encoder and a decoder
# C03 ("building from data and then decoding returns the same data") judges the DATA read from a re-used object whose
# content was last defined by a message; C02 speaks about the bytes only (harness/c03.py switches this on)
JUDGE_DATA = False


def gen_codec_scenario(rng):
    """the two kinds that can be built from data AND decoded: sequences in which a MESSAGE is set on an object that holds
    (cached) data and the data is read afterwards — "set message, read data", "set data, read message, set message, read
    data, read bytes", and the in-place update of the data read after a message was set (`frame.data |= …`).  The data read
    must be the decoding of the message last set (C03: data -> message -> data on ONE object; C02: the bytes after the
    update carry the decoded fields with exactly the update applied)."""
    cls = _BY_NAME[rng.choice(CODEC_KINDS)]
    hdr = dict(recipient=int(rng.choice(list(DeviceType))), sender=int(rng.choice(list(DeviceType))),
               econet_type=rng.choice([48, rng.randrange(256)]), econet_version=rng.choice([5, rng.randrange(256)]))
    shape = rng.randrange(5)
    msg = lambda: _some_message(rng, cls, hdr)  # noqa: E731
    if shape == 0:
        init = dict(message=None, data=_rand_jdata(rng, cls))
        steps = [["set_message", msg()], ["read_data"]]
    elif shape == 1:
        init = rng.choice([dict(message=None, data=None), dict(message=msg(), data=None)])
        steps = [["set_new", _rand_jdata(rng, cls)], ["read_message"], ["set_message", msg()], ["read_data"], ["read"]]
    elif shape == 2:
        init = dict(message=None, data=_rand_jdata(rng, cls))
        steps = [["read"], ["set_message", msg()], ["set_ior", {}], ["read"]]
    elif shape == 3:
        init = dict(message=msg(), data=None)
        steps = [["read_data"], ["set_message", msg()], ["read_data"], ["set_message", msg()], ["len"], ["read_data"]]
    else:
        init = dict(message=None, data=_rand_jdata(rng, cls))
        steps = [["read_data"], ["set_message", msg()], ["read"], ["read_data"], ["set_new", _rand_jdata(rng, cls)], ["read_data"], ["read"]]
    return dict(t="frame_reuse", cls=cls.__name__, header=hdr, init=init, steps=steps)


def _some_message(rng, cls, hdr):
    m = bytes(cls(data=_to_py(_rand_jdata(rng, cls)), sender=DeviceType(hdr["sender"])).message)
    if rng.random() < 0.4:
        m += bytes(rng.randrange(256) for _ in range(rng.randint(1, 5)))
    return m.hex()


def _hdr_kwargs(h):
    return dict(recipient=DeviceType(h["recipient"]), sender=DeviceType(h["sender"]), econet_type=h["econet_type"],
                econet_version=h["econet_version"])


def _observe(f):
    try:
        b = f.bytes
        return dict(bytes=b.hex(), length=len(f), header_len=int.from_bytes(b[1:3], "little"), message=bytes(f.message).hex())
    except Exception as e:  # noqa: BLE001
        return dict(raised=_err_word(e, "b"))


def _observe_data(f):
    """what `.data` of a frame of a kind with a decoder reads (the dict as a word, or the exception class)"""
    try:
        return "d:" + _dict_word(f.data)
    except Exception as e:  # noqa: BLE001
        return _err_word(e, "gd")


def run_scenario(sc, writer=None):
    """execute one scenario on the real classes -> (model request line, observed words, re-used obs, fresh obs).
    `writer(frame) -> bytes that reached the transport` serves the "write" steps (the frame handed to a FrameWriter /
    put on the write queue of a running protocol); the model's statement of a write is `bytes` at that moment."""
    cls = _BY_NAME[sc["cls"]]
    h = sc["header"]
    kw = _hdr_kwargs(h)
    init = sc["init"]
    ikw = dict(kw)
    if init["message"] is not None:
        ikw["message"] = bytearray.fromhex(init["message"])
    if init["data"] is not None:
        ikw["data"] = _to_py(init["data"])
    f = cls(**ikw)
    final = ("init", None)
    words, ops = [], []
    hdr_set = set()

    def do(op, fn):
        ops.append(op)
        try:
            words.append(fn())
        except Exception as e:  # noqa: BLE001
            words.append(_err_word(e, op))

    for st in sc["steps"]:
        op = st[0]
        if op == "read":
            do("b", lambda: "b:" + hexs(f.bytes))
        elif op == "write":
            do("b", lambda: "b:" + hexs(writer(f)))
        elif op == "len":
            do("l", lambda: "l:%d" % len(f))
        elif op == "read_message":
            do("gm", lambda: "m:" + hexs(f.message))
        elif op == "read_data":
            do("gd", lambda: "d:" + _dict_word(f.data))
        elif op == "set_new":
            d = _to_py(st[1])

            def setter(d=d):
                f.data = d
                return "ok"
            do("sd=" + _dict_word(d), setter)
            final = ("data", st[1])
        elif op == "set_inplace":
            d = _to_py(st[1])
            got = []

            def getter():
                got.append(f.data)
                return "d:" + _dict_word(got[0])
            do("gd", getter)
            if got:
                cur = got[0]
                cur.clear()
                cur.update(d)

                def setter(cur=cur):
                    f.data = cur
                    return "ok"
                do("sd=" + _dict_word(d), setter)
                final = ("data", st[1])
        elif op == "set_ior":
            d = _to_py(st[1])
            got = []

            def getter():
                got.append(f.data)
                return "d:" + _dict_word(got[0])
            do("gd", getter)
            if got:
                merged = dict(got[0])
                merged.update(d)
                want_merged = merged
                if final[0] == "message" and sc["cls"] in CODEC_KINDS:
                    # the fields the frame was GIVEN are those of the message last set: the update applies to ITS decoding
                    # (computed on a fresh frame, not taken from what the re-used object's getter answered)
                    try:
                        want_merged = dict(cls(message=bytearray(final[1]), **kw).data)
                        want_merged.update(d)
                    except Exception:  # noqa: BLE001
                        want_merged = merged

                def setter(d=d):
                    f.data |= d          # getter (cached by now), in-place update, setter with the same dict
                    return "ok"
                ops.append("gd")
                words.append("d:" + _dict_word(got[0]))
                do("sd=" + _dict_word(merged), setter)
                final = ("pydata", want_merged)
        elif op == "set_message":
            m = bytes.fromhex(st[1])

            def setter(m=m):
                f.message = bytearray(m)
                return "ok"
            do("sm=" + hexs(m), setter)
            final = ("message", m)
        elif op == "set_header":
            field, v = st[1], st[2]
            try:
                pv = DeviceType(v) if field in ("recipient", "sender") else v
            except ValueError:
                pv = v

            def setter(field=field, pv=pv):
                setattr(f, field, pv)
                return "ok"
            do({"recipient": "hr", "sender": "hs", "econet_type": "ht", "econet_version": "hv"}[field] + "=%d" % v, setter)
            kw[field] = pv
            ikw[field] = pv
            hdr_set.add(field)
    # closing observations, also part of the model comparison
    do("gm", lambda: "m:" + hexs(f.message))
    do("l", lambda: "l:%d" % len(f))
    do("b", lambda: "b:" + hexs(f.bytes))
    line = "obj %s %d %d %d %d %d %s %s %s" % (
        _sw_version(), _code(cls), h["recipient"], h["sender"], h["econet_type"], h["econet_version"],
        "_" if init["message"] is None else hexs(bytes.fromhex(init["message"])),
        _dict_word(_to_py(init["data"])), " ".join(ops))
    # fresh-object oracle
    if final[0] == "data":
        fresh = cls(data=_to_py(final[1]), **kw)
    elif final[0] == "pydata":
        fresh = cls(data=dict(final[1]), **kw)
    elif final[0] == "message":
        fresh = cls(message=bytearray(final[1]), **kw)
    else:
        fresh = cls(**ikw) if init["data"] is None else cls(**dict(ikw, data=_to_py(init["data"])))
    by_message = JUDGE_DATA and (final[0] == "message" or (final[0] == "init" and init["message"] is not None))
    if sc["cls"] in CODEC_KINDS and by_message:
        # the kinds with a decoder, content last defined by a MESSAGE: the data of the re-used object is the data of a fresh frame built from the final content
        # (after a message was set: the DECODING of that message), read BEFORE the bytes so that nothing is cached yet
        gd, wd = _observe_data(f), _observe_data(fresh)
    got, want = _observe(f), _observe(fresh)
    if sc["cls"] in CODEC_KINDS and by_message:
        got["data"], want["data"] = gd, wd
    if "sender" in hdr_set and sc["cls"] == "ProgramVersionResponse":
        # the payload of this kind carries the sender's address and is cached: what "built from the final content" means
        # for it after a sender assignment is the frame-object model's business (oracle 1), not the fresh frame's
        want = got
    return line, words, got, want


def check_plain_kinds(res):
    """the model treats these classes as inheriting create_message / decode_message"""
    for cls in (requests.StartMasterRequest, requests.UIDRequest):
        if cls.create_message is not Request.create_message or cls.decode_message is not Request.decode_message:
            res.fail("corr", dict(cls=cls.__name__), "inherits Request.create_message/decode_message", "overridden",
                     "frame-object model: a plain request kind now has its own codec")
    for cls in (responses.SetEcomaxParameterResponse, responses.SetMixerParameterResponse, responses.EcomaxControlResponse,
                responses.SetThermostatParameterResponse):
        if cls.create_message is not Response.create_message or cls.decode_message is not Response.decode_message:
            res.fail("corr", dict(cls=cls.__name__), "inherits Response.create_message/decode_message", "overridden",
                     "frame-object model: a plain response kind now has its own codec")


def frame_scenarios(res, scenarios, writer=None):
    runs = [run_scenario(sc, writer) for sc in scenarios]
    answers = driver_batch(r[0] for r in runs)
    for sc, (line, words, got, want), ans in zip(scenarios, runs, answers):
        res.case(("frame_reuse", json.dumps(sc, sort_keys=True)), True)
        res.count("reuse:frame:" + sc["cls"])
        # oracle 1: the frame-object model, step by step.  The model is the statement of what every
        # step must return (C02.bytes_reflect_last_content, length_consistent, getters_pure,
        # C03.eq_*): a step that serialises something else is a concrete failing input.
        model = ans.split(" ") if ans not in ("-", "bad-op") else []
        if ans == "bad-op":
            res.fail("corr", sc, "a model answer", dict(line=line), "frame-object driver rejected the operation sequence")
        elif model != words:
            k = next((i for i, (a, b) in enumerate(zip(model, words)) if a != b), min(len(model), len(words)))
            ser = any(w[:2] in ("b:", "l:", "m:") for w in (words[k:k + 1] + model[k:k + 1]))
            res.fail("spec" if ser else "corr", sc,
                     dict(step=k, model=model[k] if k < len(model) else None, ops=line.split(" ")[9:], model_trace=model),
                     dict(step=k, observed=words[k] if k < len(words) else None, observed_trace=words),
                     ("operation %d of a sequence on ONE frame object returns something else than the frame-object model "
                      "(bytes must reflect the last content set, len() = length field = byte count, getters are pure)" % k)
                     if writer is None else
                     ("operation %d of a sequence on ONE frame object written / queued several times: what reached the transport is not the "
                      "envelope of the fields the frame had at the time of THAT write (C02.written_reflects_last_content)" % k))
        # oracle 2: a fresh frame built from the final content
        if got != want and {k: v for k, v in got.items() if k != "data"} == {k: v for k, v in want.items() if k != "data"}:
            res.fail("spec", sc, want, got,
                     "the data read from a frame object after its message was last set is not the decoding of THAT message "
                     "(differs from a fresh frame built from the final content; C03: data -> message -> data, "
                     "TieFrameObj.Frame_run_sim / Obj.step setMessage clears the cached data)")
        elif got != want:
            res.fail("spec", sc, want, got,
                     "a frame that was serialised, updated through its setters / header attributes and serialised again does not carry "
                     "exactly the fields it was last given (differs from a fresh frame built from them; C02.bytes_reflect_last_content_hdr)")
        elif "bytes" in got and (got["length"] != len(bytes.fromhex(got["bytes"])) or got["header_len"] != got["length"]):
            res.fail("spec", sc, "length field = total byte count", got, "length field / len() do not equal the number of bytes")


def frame_reuse(res, rng, n):
    """n scenarios; returns nothing, records into res"""
    check_plain_kinds(res)
    frame_scenarios(res, [gen_scenario(rng) for _ in range(n)])
    # the kinds with both an encoder and a decoder: message set on an object that holds data, data read afterwards
    crng = random.Random(rng.random())
    frame_scenarios(res, [gen_codec_scenario(crng) for _ in range(max(40, n // 8))])


# ---------------------------------------------------------------- data types -------------
def _rand_value(rng, cls):
    import struct
    if issubclass(cls, dt.BuiltInDataType):
        fmt = cls._struct.format
        if fmt in ("<f", "<d"):
            return rng.choice([0.0, 1.5, -2.25, 1024.0, float(rng.randrange(-1000, 1000)) / 8])  # exactly representable in binary32
        size = cls._struct.size
        signed = fmt[-1].islower()
        lo, hi = (-(1 << (8 * size - 1)), (1 << (8 * size - 1)) - 1) if signed else (0, (1 << (8 * size)) - 1)
        return rng.choice([lo, hi, 0, 1, rng.randint(lo, hi)])
    if cls is dt.IPv4:
        return ".".join(str(rng.randrange(256)) for _ in range(4))
    if cls is dt.IPv6:
        import socket
        return socket.inet_ntop(socket.AF_INET6, bytes(rng.randrange(256) for _ in range(16)))
    if cls in (dt.String, dt.VarString):
        return rng.choice(["", "a", "abc", "Kocioł", "20°C", "€", "x" * rng.randint(1, 30)])
    if cls is dt.VarBytes:
        return bytes(rng.randrange(256) for _ in range(rng.randint(0, 20)))
    raise KeyError(cls)


DT_CLASSES = [dt.SignedChar, dt.UnsignedChar, dt.Short, dt.UnsignedShort, dt.Int, dt.UnsignedInt, dt.Int64, dt.UInt64,
              dt.Float, dt.Double, dt.IPv4, dt.IPv6, dt.String, dt.VarString, dt.VarBytes]


def _dt_obs(x):
    v = x.value
    if isinstance(v, float):
        import struct
        v = struct.pack("<d", v).hex()
    return dict(value=v.hex() if isinstance(v, bytes) else v, size=x.size, packed=x.to_bytes().hex())


def datatype_reuse(res, rng, n):
    for _ in range(n):
        cls = rng.choice(DT_CLASSES)
        v = _rand_value(rng, cls)
        x = cls(v)
        steps = [("new", repr(v))]
        final = v
        # the operations are drawn first (the random stream does not depend on what the implementation does)
        plan = []
        for _ in range(rng.randint(1, 4)):
            op = rng.choice(["to_bytes", "size", "unpack", "unpack", "value"])
            if op == "unpack":
                plan.append((op, _rand_value(rng, cls), bytes(rng.randrange(256) for _ in range(rng.randint(0, 4)))))
            else:
                plan.append((op, None, b""))
        raised = None
        try:
            for op, w, rest in plan:
                steps.append((op,) if op != "unpack" else (op, repr(w)))
                if op == "to_bytes":
                    x.to_bytes()
                elif op == "size":
                    x.size
                elif op == "value":
                    x.value
                else:
                    x.unpack(cls(w).to_bytes() + rest)
                    final = w
            # a fresh instance unpacked from the same bytes is the reference for value/size
            ref = cls.from_bytes(cls(final).to_bytes() + b"\x01\x02")
            got, want = _dt_obs(x), _dt_obs(ref)
        except Exception as e:  # noqa: BLE001 -- every value here is representable: no operation of the sequence may raise
            raised = type(e).__name__
        res.case(("dt_reuse", cls.__name__, tuple(steps)), True)
        res.count("reuse:datatype:" + cls.__name__)
        inp = dict(t="datatype_reuse", cls=cls.__name__, steps=[list(s) for s in steps])
        if raised is not None:
            res.fail("spec", inp, "pack / unpack / size / value of representable values succeed", dict(raised=raised, after=list(steps[-1])),
                     "an operation on a representable value raised (packing the value an instance holds after unpacking its own packed form)")
            continue
        if got != want:
            res.fail("spec", inp, want, got,
                     "a re-used data type instance: value / size / packed form after unpack differ from a fresh instance "
                     "(packed form must be that of the current value, size its length)")
        elif got["size"] != len(bytes.fromhex(got["packed"])):
            res.fail("spec", inp, "size = len(packed)", got, "reported size differs from the packed length")
    # one bit array walked over all eight positions, re-used across bytes
    for _ in range(max(1, n // 50)):
        x = dt.BitArray()
        for _ in range(3):
            byte = rng.randrange(256)
            x.unpack(bytes([byte]) + b"\xff")
            for idx in rng.sample(range(8), 8):
                x.next(idx)
                res.case(("bit_reuse", byte, idx), True)
                if x.value != bool(byte & (1 << idx)) or x.to_bytes() != bytes([byte]):
                    res.fail("spec", dict(t="bit_reuse", byte=byte, index=idx), dict(value=bool(byte & (1 << idx)), packed=hexs(bytes([byte]))),
                             dict(value=x.value, packed=x.to_bytes().hex()), "re-used bit array does not report the bit / byte it was last given")
        res.count("reuse:datatype:BitArray")
    # the other order: position first (constructor index / next), unpack afterwards
    for _ in range(max(2, n // 25)):
        byte = rng.randrange(256)
        idx = rng.randrange(8)
        x = dt.BitArray(index=idx) if rng.random() < 0.5 else dt.BitArray()
        if x._index != idx:
            x.next(idx)
        x.unpack(bytes([byte]) + bytes(rng.randrange(256) for _ in range(rng.randint(0, 3))))
        res.case(("bit_position_then_unpack", byte, idx), True)
        want = dict(value=bool(byte & (1 << idx)), size=1 if idx == 7 else 0, packed=hexs(bytes([byte])))
        got = dict(value=x.value, size=x.size, packed=hexs(x.to_bytes()))
        if got != want:
            res.fail("spec", dict(t="bit_reuse", order="position-then-unpack", byte=byte, index=idx), want, got,
                     "a bit field positioned before it is unpacked does not report the bit at its position / the cursor size")


# ---------------------------------------------------------------- data types vs the Lean instance model ----
# Every operation of a sequence on ONE instance is observed and compared with the instance model of
# lean/PlumVerif/Model/Types.lean (`Inst.step`, `BitInst.step`, driver op `t.seq`): theorems
# C19.pack_reflects_last_value / size_is_packed_length / unpack_then_pack / bit_position_unpack_commute
# speak about exactly these sequences.
def _kind(cls):
    import struct  # noqa: F401
    if issubclass(cls, dt.BuiltInDataType):
        fmt = cls._struct.format
        if fmt == "<f":
            return "bits:4"
        if fmt == "<d":
            return "bits:8"
        return "int:%s%d" % ("i" if fmt[-1].islower() else "u", 8 * cls._struct.size)
    return {dt.IPv4: "addr:4", dt.IPv6: "addr:16", dt.String: "str", dt.VarString: "var", dt.VarBytes: "var"}[cls]


def _vtok(cls, v):
    """model token of a python value of the class"""
    import socket
    import struct
    if issubclass(cls, dt.BuiltInDataType):
        fmt = cls._struct.format
        if fmt in ("<f", "<d"):
            return str(int.from_bytes(struct.pack(fmt, v), "little"))
        return str(int(v))
    if cls is dt.IPv4:
        return hexs(socket.inet_aton(v))
    if cls is dt.IPv6:
        return hexs(socket.inet_pton(socket.AF_INET6, v))
    if cls is dt.VarBytes:
        return hexs(v)
    return hexs(v.encode())


def _step_impl(cls, x, tok, arg):
    """-> (instance, observation token)"""
    try:
        if tok == "new":
            x = cls(arg) if arg is not None else cls()
            return x, "."
        if tok == "pack":
            return x, "b:" + hexs(x.to_bytes())
        if tok == "unpack":
            x.unpack(arg)
            return x, "."
        if tok == "size":
            return x, "s:%d" % x.size
        if tok == "value":
            return x, "v:" + _vtok(cls, x.value)
    except Exception:  # noqa: BLE001
        return x, "!"
    raise KeyError(tok)


def datatype_sequences(res, rng, n):
    from common import driver_batch
    reqs, seen = [], []
    for _ in range(n):
        cls = rng.choice(DT_CLASSES)
        kind = _kind(cls)
        ops = []      # (token, python argument, model token)
        first = _rand_value(rng, cls) if rng.random() < 0.85 else None
        if first is not None and kind.startswith("int") and rng.random() < 0.1:
            size = cls._struct.size
            first = rng.choice([256 ** size, -(256 ** size) // 2 - 1, 256 ** size + 5])   # not representable: pack must raise
        ops.append(("new", first, "new" if first is None else "new:" + _vtok(cls, first)))
        for _ in range(rng.randint(2, 8)):
            r = rng.random()
            if r < 0.2:
                ops.append(("pack", None, "pack"))
            elif r < 0.35:
                ops.append(("size", None, "size"))
            elif r < 0.5:
                ops.append(("value", None, "value"))
            elif r < 0.58:
                w = _rand_value(rng, cls)
                ops.append(("new", w, "new:" + _vtok(cls, w)))
            else:
                w = _rand_value(rng, cls)
                buf = cls(w).to_bytes() + bytes(rng.randrange(256) for _ in range(rng.randint(0, 4)))
                q = rng.random()
                if q < 0.12:      # too short / cut inside the field (the class raises, or -- Var* -- keeps a stale prefix)
                    buf = buf[: rng.randrange(0, max(1, len(cls(w).to_bytes())))]
                    if cls in (dt.String, dt.VarString):
                        buf = bytes(b for b in buf if b < 0x80)   # keep the text <-> bytes mapping exact
                elif q < 0.2 and kind.startswith(("int", "addr")):
                    buf = bytes(rng.randrange(256) for _ in range(rng.randint(0, 20)))
                ops.append(("unpack", buf, "unpack:" + hexs(buf)))
        x, obs = None, []
        for tok, arg, _ in ops:
            x, o = _step_impl(cls, x, tok, arg)
            obs.append(o)
        reqs.append("t.seq %s %s" % (kind, " ".join(m for _, _, m in ops)))
        seen.append((cls.__name__, [m for _, _, m in ops], obs))
        res.case(("dt_seq", cls.__name__, tuple(m for _, _, m in ops)), True)
        res.count("sequence:datatype:" + cls.__name__)
    # bit array instances: construct (with / without value, any index) / unpack / next / reads in any order
    for seq_no in range(max(20, n // 8)):
        toks, obs = [], []
        x = None
        # every fourth sequence is steered: sizes are read around moves of the cursor to and from the last bit
        steered = ["new", "size", "next", "size", "next", "size", "unpack", "size", "pack"] if seq_no % 4 == 0 else None
        for k in range(len(steered) if steered else rng.randint(2, 9)):
            r = rng.random()
            if steered:
                r = dict(new=0.0, unpack=0.2, next=0.5, value=0.7, size=0.8, pack=0.95)[steered[k]]
            try:
                if k == 0 or r < 0.08:
                    v = rng.choice([None, None, True, False])
                    i = rng.choice([7, 7, rng.randrange(8)])
                    toks.append("new:%s:%d" % ("-" if v is None else int(v), i))
                    x = dt.BitArray(v, i)
                    o = "."
                elif r < 0.35:
                    buf = bytes(rng.randrange(256) for _ in range(rng.choice([0, 1, 1, 2, 4])))
                    toks.append("unpack:" + hexs(buf))
                    x.unpack(buf)
                    o = "."
                elif r < 0.6:
                    i = rng.choice([7, rng.randrange(8), rng.randrange(8)])
                    toks.append("next:%d" % i)
                    o = "n:%d" % x.next(i)
                elif r < 0.75:
                    toks.append("value")
                    o = "v:%d" % int(x.value)
                elif r < 0.88:
                    toks.append("size")
                    o = "s:%d" % x.size
                else:
                    toks.append("pack")
                    o = "b:" + hexs(x.to_bytes())
            except Exception:  # noqa: BLE001
                o = "!"
            obs.append(o)
        # statement-level judgement: a bit field accounts for its byte exactly when it stands on the last bit
        cur = None
        for tok, o in zip(toks, obs):
            w = tok.split(":")
            if w[0] == "new":
                cur = int(w[2])
            elif w[0] == "next" and o != "!":
                cur = int(w[1])
            elif w[0] == "size" and o != "s:%d" % (1 if cur == 7 else 0):
                res.fail("spec", dict(t="datatype_sequence", cls="BitArray", ops=toks), "s:%d" % (1 if cur == 7 else 0), o,
                         "a bit array reports a size that is not that of its current position (the byte is consumed on bit 7 only)")
                break
        reqs.append("t.seq bit " + " ".join(toks))
        seen.append(("BitArray", toks, obs))
        res.case(("bit_seq", tuple(toks)), True)
        res.count("sequence:datatype:BitArray")
    for (name, toks, obs), ans in zip(seen, driver_batch(reqs)):
        if ans.split() != obs:
            model = ans.split()
            k = next((i for i, (a, b) in enumerate(zip(model, obs)) if a != b), min(len(model), len(obs)))
            res.fail("corr", dict(t="datatype_sequence", cls=name, ops=toks), dict(model=model, first_difference_at=k), obs,
                     "instance model and implementation differ on an operation sequence on one instance")

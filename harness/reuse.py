"""Object re-use scenarios (multi-step sequences on ONE frame / data-type instance).

The main harnesses build a fresh object per case and tie it to the Lean model.  A whole class
of realistic defects (memoised length / message / packed bytes that are not invalidated) only
shows when an object is serialised, changed through its public setters and serialised again.
Oracle here: whatever was done before, the observable state of the re-used object must equal
that of a FRESH object built from the final content (the fresh object itself is what the main
harness compares with the model) -- a mismatch is a failure of the property's own statement
("the payload encodes exactly the fields it was given", "size equals the packed length", ...).
"""
import random

from common import hexs, use_repo

use_repo()
from pyplumio.const import DeviceType  # noqa: E402
from pyplumio.frames import requests, responses  # noqa: E402
from pyplumio.helpers import data_types as dt  # noqa: E402
from pyplumio.structures.network_info import EthernetParameters, NetworkInfo, WirelessParameters  # noqa: E402
from pyplumio.structures.program_version import VersionInfo  # noqa: E402


# ---------------------------------------------------------------- frames -----------------
def _rand_data(rng, cls):
    b = lambda: rng.choice([0, 1, 2, 7, 100, 254, 255, rng.randrange(256)])  # noqa: E731
    n = cls.__name__
    if n == "SetEcomaxParameterRequest":
        return {"index": b(), "value": b()}
    if n == "SetMixerParameterRequest":
        return {"device_index": b(), "index": b(), "value": b()}
    if n == "SetThermostatParameterRequest":
        size = rng.choice([1, 2])
        return {"index": rng.randrange(0, 100), "value": rng.randrange(256 ** size), "offset": rng.choice([0, 5, 12, 24]), "size": size}
    if n == "EcomaxControlRequest":
        return {"value": rng.choice([0, 1, b()])}
    if n in ("EcomaxParametersRequest", "MixerParametersRequest", "ThermostatParametersRequest", "AlertsRequest"):
        return {"count": b(), "start": b()}
    if n == "ProgramVersionResponse":
        return {"version": VersionInfo(software="%d.%d.%d" % (rng.randrange(65536), rng.randrange(65536), rng.randrange(65536)),
                                       struct_tag=bytes([b(), b()]), struct_version=b(), device_id=bytes([b(), b()]),
                                       processor_signature=bytes([b(), b(), b()]))}
    if n == "DeviceAvailableResponse":
        ipa = lambda: ".".join(str(rng.randrange(256)) for _ in range(4))  # noqa: E731
        ssid = rng.choice(["", "a", "net", "Café", "Łódź-dom", "x" * rng.randint(1, 40)])
        return {"network": NetworkInfo(
            eth=EthernetParameters(ip=ipa(), netmask=ipa(), gateway=ipa(), status=rng.random() < 0.5),
            wlan=WirelessParameters(ip=ipa(), netmask=ipa(), gateway=ipa(), status=rng.random() < 0.5, ssid=ssid,
                                    encryption=rng.randrange(5), signal_quality=b()),
            server_status=rng.random() < 0.5)}
    raise KeyError(n)


FRAME_CLASSES = [
    requests.SetEcomaxParameterRequest, requests.SetMixerParameterRequest, requests.SetThermostatParameterRequest,
    requests.EcomaxControlRequest, requests.EcomaxParametersRequest, requests.MixerParametersRequest,
    requests.ThermostatParametersRequest, requests.AlertsRequest, responses.ProgramVersionResponse,
    responses.DeviceAvailableResponse,
]


def _observe(f):
    b = f.bytes
    return dict(bytes=b.hex(), length=len(f), header_len=int.from_bytes(b[1:3], "little"), message=bytes(f.message).hex())


def frame_reuse(res, rng, n):
    """n scenarios; returns nothing, records into res"""
    for _ in range(n):
        cls = rng.choice(FRAME_CLASSES)
        hdr = dict(recipient=rng.choice(list(DeviceType)), sender=rng.choice(list(DeviceType)),
                   econet_type=rng.choice([48, rng.randrange(256)]), econet_version=rng.choice([5, rng.randrange(256)]))
        steps = []
        d0 = _rand_data(rng, cls)
        f = cls(data=dict(d0), **hdr)
        final = ("data", d0)
        steps.append(("new", "data"))
        for _ in range(rng.randint(1, 4)):
            op = rng.choice(["read", "read", "len", "set_new", "set_inplace", "set_ior", "set_message", "read_data"])
            steps.append((op,))
            if op == "read":
                f.bytes
            elif op == "len":
                len(f)
            elif op == "read_data":
                f.data
            elif op == "set_new":
                d = _rand_data(rng, cls)
                f.data = dict(d)
                final = ("data", d)
            elif op == "set_inplace":
                d = _rand_data(rng, cls)
                cur = f.data
                cur.clear()
                cur.update(d)
                f.data = cur
                final = ("data", d)
            elif op == "set_ior":
                d = _rand_data(rng, cls)
                f.data |= d
                final = ("data", dict(f.data))
            elif op == "set_message":
                m = cls(data=_rand_data(rng, cls), **hdr).message
                if rng.random() < 0.5:
                    m = m + bytearray(rng.randrange(256) for _ in range(rng.randint(1, 5)))
                f.message = bytearray(m)
                final = ("message", bytes(m))
        fresh = cls(data=dict(final[1]), **hdr) if final[0] == "data" else cls(message=bytearray(final[1]), **hdr)
        got, want = _observe(f), _observe(fresh)
        res.case(("frame_reuse", cls.__name__, tuple(steps), want["bytes"]), True)
        res.count("reuse:frame:" + cls.__name__)
        inp = dict(t="frame_reuse", cls=cls.__name__, steps=[list(s) for s in steps], final=[final[0], repr(final[1])],
                   header={k: int(v) for k, v in hdr.items()})
        if got != want:
            res.fail("spec", inp, want, got,
                     "a frame that was serialised, updated through its setters and serialised again does not carry exactly the "
                     "fields it was last given (differs from a fresh frame built from them)")
        elif got["length"] != len(bytes.fromhex(got["bytes"])) or got["header_len"] != got["length"]:
            res.fail("spec", inp, "length field = total byte count", got, "length field / len() do not equal the number of bytes")


# ---------------------------------------------------------------- data types -------------
def _rand_value(rng, cls):
    import struct
    if issubclass(cls, dt.BuiltInDataType):
        fmt = cls._struct.format
        if fmt in ("<f", "<d"):
            return rng.choice([0.0, 1.5, -2.25, 1024.0, float(rng.randrange(-1000, 1000)) / 8])  # exactly representable in binary32
        size = cls._struct.size
        signed = fmt[-1].islower()
        lo, hi = (-(1 << (8 * size - 1)), (1 << (8 * size - 1)) - 1) if signed else (0, (1 << (8 * size)) - 1)
        return rng.choice([lo, hi, 0, 1, rng.randint(lo, hi)])
    if cls is dt.IPv4:
        return ".".join(str(rng.randrange(256)) for _ in range(4))
    if cls is dt.IPv6:
        import socket
        return socket.inet_ntop(socket.AF_INET6, bytes(rng.randrange(256) for _ in range(16)))
    if cls in (dt.String, dt.VarString):
        return rng.choice(["", "a", "abc", "Kocioł", "20°C", "€", "x" * rng.randint(1, 30)])
    if cls is dt.VarBytes:
        return bytes(rng.randrange(256) for _ in range(rng.randint(0, 20)))
    raise KeyError(cls)


DT_CLASSES = [dt.SignedChar, dt.UnsignedChar, dt.Short, dt.UnsignedShort, dt.Int, dt.UnsignedInt, dt.Int64, dt.UInt64,
              dt.Float, dt.Double, dt.IPv4, dt.IPv6, dt.String, dt.VarString, dt.VarBytes]


def _dt_obs(x):
    v = x.value
    if isinstance(v, float):
        import struct
        v = struct.pack("<d", v).hex()
    return dict(value=v.hex() if isinstance(v, bytes) else v, size=x.size, packed=x.to_bytes().hex())


def datatype_reuse(res, rng, n):
    for _ in range(n):
        cls = rng.choice(DT_CLASSES)
        v = _rand_value(rng, cls)
        x = cls(v)
        steps = [("new", repr(v))]
        final = v
        for _ in range(rng.randint(1, 4)):
            op = rng.choice(["to_bytes", "size", "unpack", "unpack", "value"])
            if op == "to_bytes":
                x.to_bytes()
            elif op == "size":
                x.size
            elif op == "value":
                x.value
            else:
                w = _rand_value(rng, cls)
                rest = bytes(rng.randrange(256) for _ in range(rng.randint(0, 4)))
                x.unpack(cls(w).to_bytes() + rest)
                final = w
            steps.append((op,) if op != "unpack" else (op, repr(final)))
        # a fresh instance unpacked from the same bytes is the reference for value/size
        ref = cls.from_bytes(cls(final).to_bytes() + b"\x01\x02")
        got, want = _dt_obs(x), _dt_obs(ref)
        res.case(("dt_reuse", cls.__name__, tuple(steps)), True)
        res.count("reuse:datatype:" + cls.__name__)
        inp = dict(t="datatype_reuse", cls=cls.__name__, steps=[list(s) for s in steps])
        if got != want:
            res.fail("spec", inp, want, got,
                     "a re-used data type instance: value / size / packed form after unpack differ from a fresh instance "
                     "(packed form must be that of the current value, size its length)")
        elif got["size"] != len(bytes.fromhex(got["packed"])):
            res.fail("spec", inp, "size = len(packed)", got, "reported size differs from the packed length")
    # one bit array walked over all eight positions, re-used across bytes
    for _ in range(max(1, n // 50)):
        x = dt.BitArray()
        for _ in range(3):
            byte = rng.randrange(256)
            x.unpack(bytes([byte]) + b"\xff")
            for idx in rng.sample(range(8), 8):
                x.next(idx)
                res.case(("bit_reuse", byte, idx), True)
                if x.value != bool(byte & (1 << idx)) or x.to_bytes() != bytes([byte]):
                    res.fail("spec", dict(t="bit_reuse", byte=byte, index=idx), dict(value=bool(byte & (1 << idx)), packed=hexs(bytes([byte]))),
                             dict(value=x.value, packed=x.to_bytes().hex()), "re-used bit array does not report the bit / byte it was last given")
        res.count("reuse:datatype:BitArray")
    # the other order: position first (constructor index / next), unpack afterwards
    for _ in range(max(2, n // 25)):
        byte = rng.randrange(256)
        idx = rng.randrange(8)
        x = dt.BitArray(index=idx) if rng.random() < 0.5 else dt.BitArray()
        if x._index != idx:
            x.next(idx)
        x.unpack(bytes([byte]) + bytes(rng.randrange(256) for _ in range(rng.randint(0, 3))))
        res.case(("bit_position_then_unpack", byte, idx), True)
        want = dict(value=bool(byte & (1 << idx)), size=1 if idx == 7 else 0, packed=hexs(bytes([byte])))
        got = dict(value=x.value, size=x.size, packed=hexs(x.to_bytes()))
        if got != want:
            res.fail("spec", dict(t="bit_reuse", order="position-then-unpack", byte=byte, index=idx), want, got,
                     "a bit field positioned before it is unpacked does not report the bit at its position / the cursor size")

"""Shared plumbing of the parameter harnesses (C17, C06, C07): an EcoMAX device fed with real
response frames under the virtual loop, payload builders written from the wire layout,
canonical snapshots of the parameters held by the devices, and the `set` runner.

Everything here goes through public entry points: `EcoMAX(queue, network)`,
`device.handle_frame(frame)`, `device.data`, `Device.set` / `Parameter.set`, and the properties
`value` / `min_value` / `max_value` of the parameters.
"""
import asyncio
from fractions import Fraction

from common import use_repo

use_repo()

from pyplumio.const import DeviceState, ProductType  # noqa: E402
from pyplumio.devices.ecomax import EcoMAX  # noqa: E402
from pyplumio.frames import Response  # noqa: E402
from pyplumio.frames.responses import (  # noqa: E402
    EcomaxParametersResponse,
    MixerParametersResponse,
    SchedulesResponse,
    ThermostatParametersResponse,
    UIDResponse,
)
from pyplumio.helpers.parameter import Parameter  # noqa: E402,F401
from pyplumio.structures.network_info import NetworkInfo  # noqa: E402

import vloop  # noqa: E402

HOLE = None


# ---------------------------------------------------------------- payload builders
def triple_bytes(t, size=1):
    if t is None:
        return b"\xff" * (3 * size)
    return b"".join(int(x).to_bytes(size, "little") for x in t)


def uid_payload(product_type, model="EM350P2-ZF"):
    name = model.encode()
    uid = bytes(range(1, 12))
    return (bytes([product_type]) + (90).to_bytes(2, "little") + bytes([len(uid)]) + uid
            + (23040).to_bytes(2, "little") + (2816).to_bytes(2, "little") + bytes([len(name)]) + name)


def ecomax_payload(start, triples, count=None, lead=0):
    """[lead, start, count] ++ count triples (None = undefined hole)"""
    count = len(triples) if count is None else count
    return bytes([lead, start, count]) + b"".join(triple_bytes(t) for t in triples)


def mixer_payload(start, per_mixer, count=None, mixers=None, lead=0):
    """[lead, start, count, mixers] ++ for each mixer count triples"""
    count = (len(per_mixer[0]) if per_mixer else 0) if count is None else count
    mixers = len(per_mixer) if mixers is None else mixers
    return bytes([lead, start, count, mixers]) + b"".join(triple_bytes(t) for m in per_mixer for t in m)


def thermostat_payload(start, count_field, profile, per_thermostat, sizes, lead=0):
    """[lead, start, count] ++ profile triple ++ for each thermostat its slots; the slot of
    position p is 3*sizes[p] bytes wide"""
    out = bytes([lead, start, count_field]) + triple_bytes(profile)
    for slots in per_thermostat:
        for k, t in enumerate(slots):
            out += triple_bytes(t, sizes[start + k] if start + k < len(sizes) else 1)
    return out


def schedule_bits_bytes(bits):
    out = bytearray()
    for day in bits:
        for j in range(0, 48, 8):
            v = 0
            for b in day[j:j + 8]:
                v = (v << 1) | int(bool(b))
            out.append(v)
    return bytes(out)


def schedules_payload(entries, start=0, count=None, lead=0):
    """[lead, start, count] ++ per entry: index, switch value, parameter triple, 42 bitmap bytes"""
    count = len(entries) if count is None else count
    out = bytes([lead, start, count])
    for index, switch, param, bits in entries:
        out += bytes([index, switch]) + triple_bytes(param) + schedule_bits_bytes(bits)
    return out


# ---------------------------------------------------------------- world
async def settle():
    """run everything that is ready (virtual clock: the timer fires only when nothing else can run)"""
    await asyncio.sleep(0.001)


class World:
    """one EcoMAX with its sub-devices, fed one frame at a time"""

    def __init__(self):
        self.queue = asyncio.Queue()
        self.ecomax = EcoMAX(self.queue, network=NetworkInfo())
        self.errors = []

    async def feed(self, frame):
        try:
            self.ecomax.handle_frame(frame)
            err = None
        except Exception as e:  # noqa: BLE001  decode errors surface here (contained by the consumer in production)
            err = type(e).__name__
            self.errors.append(err)
        await settle()
        return err

    async def uid(self, product_type):
        return await self.feed(UIDResponse(message=bytearray(uid_payload(product_type))))

    async def ecomax_params(self, payload):
        return await self.feed(EcomaxParametersResponse(message=bytearray(payload)))

    async def mixer_params(self, payload):
        return await self.feed(MixerParametersResponse(message=bytearray(payload)))

    async def thermostats_available(self, n):
        return await self.feed(Response(data={"thermostats_available": n}))

    async def thermostat_params(self, payload):
        return await self.feed(ThermostatParametersResponse(message=bytearray(payload)))

    async def schedules(self, payload):
        return await self.feed(SchedulesResponse(message=bytearray(payload)))

    async def state(self, st):
        return await self.feed(Response(data={"state": DeviceState(st)}))

    def drain(self):
        out = []
        while not self.queue.empty():
            out.append(self.queue.get_nowait())
        return out

    def devices(self):
        """[(label, device)]: the controller, its mixers and thermostats, sorted"""
        out = [("ecomax", self.ecomax)]
        for i, m in sorted(self.ecomax.data.get("mixers", {}).items()):
            out.append((f"mixer{i}", m))
        for i, t in sorted(self.ecomax.data.get("thermostats", {}).items()):
            out.append((f"thermostat{i}", t))
        return out

    def device(self, label):
        return dict(self.devices())[label]

    def snapshot(self):
        """canonical view of every Parameter held by any device:
        {label: {name: (class, index, (value,min,max), offset|None, device index|None)}}"""
        snap = {}
        for label, dev in self.devices():
            d = {}
            for name, v in dev.data.items():
                if isinstance(v, Parameter):
                    d[name] = (type(v).__name__, v._index, (v.values.value, v.values.min_value, v.values.max_value),
                               getattr(v, "offset", None), getattr(dev, "index", None),
                               getattr(v.description, "size", 1))
            snap[label] = d
        return snap

    async def shutdown(self):
        for _, dev in self.devices():
            dev.cancel_tasks()
        await settle()


def canon_frame(fr):
    return (type(fr).__name__, int(fr.frame_type), int(fr.recipient), bytes(fr.message).hex() or "-")


async def run_set(world, setter, refresh_types=()):
    """await one `set` call to completion under the virtual clock.
    returns (result, frames): result = ('ret', bool) | ('exc', class name); frames = canonical
    frames put on the device queue by the call"""
    world.drain()
    task = asyncio.get_running_loop().create_task(setter())
    try:
        r = ("ret", await asyncio.wait_for(task, 10000))
    except asyncio.TimeoutError:
        r = ("exc", "HarnessTimeout")
    except Exception as e:  # noqa: BLE001
        r = ("exc", type(e).__name__)
    frames = []
    for fr in world.drain():
        try:
            frames.append(canon_frame(fr))
        except Exception as e:  # noqa: BLE001
            frames.append(("unencodable", type(e).__name__))
    return r, frames


# ---------------------------------------------------------------- values <-> driver encoding
def enc_val(v):
    """Python value -> driver token (exact)"""
    if isinstance(v, bool):
        return f"b:{int(v)}"
    if isinstance(v, int):
        return f"i:{v}"
    if isinstance(v, float):
        n, d = v.as_integer_ratio()
        return f"f:{n}/{d}"
    if isinstance(v, str):
        return f"s:{v}"
    raise TypeError(v)


def canon_val(v):
    """Python value -> canonical token comparable with the driver's `showVal`"""
    if isinstance(v, float):
        fr = Fraction(v)
        return f"f:{fr.numerator}/{fr.denominator}"
    return enc_val(v)


CLS_OF_CLASS = {
    "EcomaxNumber": "so", "MixerNumber": "so", "ThermostatNumber": "sc", "ScheduleNumber": "pl",
    "EcomaxSwitch": "sw", "MixerSwitch": "sw", "ThermostatSwitch": "sw", "ScheduleSwitch": "sw",
}


def conv_words(kind, row):
    """driver words (cls mnum mden offset precision) of a tables.json row living in a table of `kind`
    — mirrors Model/ParamTables.convOf"""
    if row["switch"]:
        cls = "sw"
    else:
        cls = {"ecomax": "so", "mixer": "so", "thermostat": "sc", "schedule": "pl", "control": "sw", "profile": "so"}[kind]
    off = row["offset"] if cls == "so" else 0
    return f"{cls} {row['mult_num']} {row['mult_den']} {off} {row['precision']}"


def load_tables():
    import json
    import os

    from common import VERIF

    with open(os.path.join(VERIF, "build", "tables.json")) as f:
        return json.load(f)


def run(coro):
    return vloop.run(coro)


PRODUCT_P, PRODUCT_I = int(ProductType.ECOMAX_P), int(ProductType.ECOMAX_I)

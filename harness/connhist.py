"""History generation, execution and comparison shared by the C11 and C12 harnesses."""
import connrun
from common import driver_batch

SCRIPT_TOKS_OK = ["ooo"] * 10 + ["oro", "oho", "oor", "ooh", "orh", "ohr"]
DTS = [37, 537, 1037, 2037, 3037, 4037, 5037, 9037, 10037, 11037, 15037, 20037, 21037, 26037, 41037]


def gen_script(rng, n, fail_bias=0.35):
    out = []
    for _ in range(n):
        r = rng.random()
        if r < fail_bias * 0.7:
            out.append("e")
        elif r < fail_bias:
            out.append("h")
        else:
            out.append(rng.choice(SCRIPT_TOKS_OK))
    return out


def gen_feed(rng):
    r = rng.random()
    if r < 0.25:
        return "F:p:69" + rng.choice(["", "", "~split"])
    if r < 0.33:
        return "F:p:81"
    if r < 0.55:
        m, t = rng.choice([(0, 0), (1, 1), (2, 1), (1, 2), (2, 2), (3, 0), (0, 3)])
        return f"F:s:{m}:{t}"
    if r < 0.58:
        return "F:u"
    if r < 0.6:
        return f"F:v:{rng.choice([1, 2, 2])}:{rng.choice([0, 0, 1, 3])}"
    if r < 0.65:
        return rng.choice(["F:o:86", "F:o:0"])
    if r < 0.8:
        return "F:f"
    return "F:b" + rng.choice(["", "~len", "~sender", "~kind"])


def gen_event(rng, weights):
    """weights: dict kind -> weight over F A X D W Q P"""
    kinds = list(weights)
    k = rng.choices(kinds, [weights[x] for x in kinds])[0]
    if k == "F":
        return gen_feed(rng)
    if k == "A":
        return f"A:{rng.choice(DTS)}"
    if k == "X":
        return rng.choice(["X", "X~exc", "XM", "XM~hdr"])
    if k == "D":
        return "D:" + rng.choice("rrhho")
    if k == "W":
        return "W:" + rng.choice("rhhoo")
    if k == "Q":
        return f"Q:{rng.choice([1, 1, 2, 3])}"
    if k == "P":
        return rng.choice(["P:d:69", "P:d:81", "P:m:0", "P:m:1", "P:t:0", "P:t:1", "P:m:2"])
    if k == "C":
        return "C"
    if k == "G":
        return rng.choice(["G:81", "G:69"])
    if k == "R":
        return "R"
    raise ValueError(k)


def parse_line(line):
    """corpus line:  <cfg> <rc> <script|-> <event> <event> ..."""
    w = line.split()
    return int(w[0]), int(w[1]), ([] if w[2] == "-" else w[2].split(",")), w[3:]


def fmt_line(h):
    cfg, rc, script, events = h
    return f"{cfg} {rc} {','.join(script) if script else '-'} " + " ".join(events)


def is_gated(h):
    """histories with the events G / R (a slow subscriber on the protocol's new-device event); the Lean machine
    models the consumers holding frames, so they are replayed by the driver like every other history"""
    return any(e.split(":")[0] in ("G", "R") for e in h[3])


def run_impl(h, stop_when_closed=True, after_event=None):
    """execute a history on the implementation; returns (segments, per-event extras, runner info)"""
    cfg, rc, script, events = h
    kind = events[0].split(":")[1] if events and events[0].startswith("K:") else "x"
    r = connrun.Runner(cfg, rc, script, kind)
    segs, extras = [], []
    error = None
    try:
        for i, e in enumerate(events):
            try:
                seg = r.apply(e)
            except Exception as ex:  # noqa: BLE001  (the implementation could not be driven any further)
                error = f"event {i} ({e}): {type(ex).__name__}: {ex}"
                break
            segs.append(seg)
            if sum(r.last_classes.values()) > 150:
                error = f"event {i} ({e}): {sum(r.last_classes.values())} live tasks: {r.last_classes}"
            extras.append(dict(classes=dict(r.last_classes), names=list(r.last_names), raw=list(r.last_raw),
                               open_tids=list(r.open_tids), dev_ids={a: id(d) for a, d in r.devices.items()},
                               data_ids={a: id(r.protocol.data.get(connrun.ADDR_NAME[a])) for a in r.devices
                                         if connrun.ADDR_NAME[a] in r.protocol.data},
                               gate_closed=bool(r.gate_waiting), fed=list(r.fed), rdepth=reconnect_depth(r),
                               rqsize=(r.read_queue().qsize() if r.read_queue() is not None else 0)))
            if after_event is not None:
                after_event(r, i, e)
            if error or (stop_when_closed and r.close_task is not None and r.close_task.done()
                         and not any(t.split(":")[0] in ("C", "Z") for t in events[i + 1:])):
                break  # (a later connect() / close() uses the closed connection object again)
        info = dict(writers_closed=[w.closed for w in r.conn.writers], opens=list(r.conn.opens),
                    close_chain=connrun.coro_chain(r.close_task) if r.close_task is not None and not r.close_task.done() else None,
                    quiescent=r.loop.quiescent(), next_timer=r.loop.next_timer(),
                    wq=r.write_queue().qsize(), rq=(r.read_queue().qsize() if r.read_queue() is not None else None),
                    error=error)
    finally:
        r.finish()
    return segs, extras, info


def reconnect_depth(r):
    """await-chain depth of the task that runs the reconnect routine (0: none): the machine's back-off state is the SAME state
    after every failed attempt, so the pending coroutine chain must be too"""
    import asyncio

    d = 0
    for t in asyncio.all_tasks(r.loop):
        if not t.done() and t not in r.own and getattr(getattr(t.get_coro(), "cr_code", None), "co_name", "") == "_reconnect":
            d = max(d, len(connrun.coro_chain(t)))
    return d


def model_batch(hists):
    answers = driver_batch(connrun.model_request(*h) for h in hists)
    out = []
    for h, a in zip(hists, answers):
        if a == "bad-op":
            out.append(None)
        else:
            out.append([connrun.canon_model(x) for x in a.split("|")])
    return out


def strip_tie(seg):
    return seg.replace(",tie=1", ",tie=0")


def has_tie(msegs, n):
    return any(",tie=1" in s for s in msegs[:n])


def first_diff(isegs, msegs):
    """index of the first event whose segment differs (model list may be longer)"""
    for i, a in enumerate(isegs):
        if i >= len(msegs) or a != strip_tie(msegs[i]):
            return i
    return None


def gated_histories(tier="quick"):
    """loss while frame consumers are in the middle of a frame: the first frames of a NEW device arrive while a
    (harness) subscriber on the protocol's device-name event is slow (G:<addr>), so one consumer sits in the callback
    holding the entry lock, the others queue behind the lock and further frames stay in the read queue; the
    subscriber returns (R) before the loss, while the link is down, or after the reconnect.  Then traffic, and a
    second plain loss / reconnect cycle."""
    cfgs = [1, 2, 3] if tier == "quick" else [1, 2, 3, 4]
    for cfg in cfgs:
        for addr in (81, 69):
            for burst in sorted({1, cfg, cfg + 2}):
                for release in ("before", "down", "after"):
                    for fails in ((1, 2) if tier == "quick" else (1, 2, 3)):
                        for rc in (1, 0):
                            if rc == 0 and (fails > 1 or release == "after"):
                                continue
                            script = ["ooo"] + (["e"] * fails if rc else []) + ["ooo", "ooo", "ooo"]
                            evs = ["C"] + (["F:p:69", "F:f"] if addr == 81 else ["F:f"])
                            evs += [f"G:{addr}"] + [f"F:p:{addr}"] * burst
                            if release == "before":
                                evs.append("R")
                            evs.append("X")
                            if release == "down":
                                evs.append("R")
                            evs += (["A:20037"] * fails if rc else ["A:1037", "C"])
                            if release == "after":
                                evs.append("R")
                            evs += ["A:537", f"F:p:{addr}", "F:p:69", "F:f", "X"]
                            evs += (["A:537"] if rc else ["A:537", "C"]) + [f"F:p:{addr}", "F:f"]
                            yield (cfg, rc, script, evs)

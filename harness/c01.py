"""C01 correspondence: FrameReader.read() on a real StreamReader vs the Lean reader model,
and the Lean judge `C01.spec` evaluated on what the implementation actually delivered."""
import random

from common import Result, driver_batch, hexs, load_corpus
import framegen as fg
import reader


def gen_streams(rng, tier):
    """yield (label, stream)"""
    quick = tier == "quick"
    # 1. every kind, boundary payload lengths
    lens = [0, 1, 2, 3, 17, 255, 256, 989, 990, 991, 992] if not quick else [0, 1, 2, 255, 990, 991]
    for kind in fg.FRAME_TYPES:
        for n in (lens if (not quick or kind in (25, 53, 177, 8, 64)) else [0, 2]):
            yield "valid", fg.mk(kind, fg.salted_payload(rng, n), rng.choice([86, 0]), rng.choice(fg.DEVICES))
    # 2. single-byte corruption at every position of small frames
    reps = 40 if quick else 600
    for _ in range(reps):
        base = bytearray(fg.mk(rng.choice(fg.FRAME_TYPES), fg.salted_payload(rng, rng.choice([0, 1, 2, 5, 9])),
                               rng.choice([86, 0]), rng.choice(fg.DEVICES)))
        positions = range(len(base))
        for pos in positions:
            vals = [rng.randrange(256) for _ in range(2 if quick else 3)] + [0, 0x68, 0xFF, base[pos] ^ 1]
            for v in vals:
                if v == base[pos]:
                    continue
                b = bytearray(base)
                b[pos] = v
                yield "corrupt1", bytes(b) + fg.mk(25)
    if not quick:
        # all 255 alternatives at header, kind, checksum and end positions
        for kind in fg.FRAME_TYPES:
            base = bytearray(fg.mk(kind, fg.salted_payload(rng, 3)))
            for pos in [0, 1, 2, 3, 4, 5, 6, 7, len(base) - 2, len(base) - 1]:
                for v in range(256):
                    if v != base[pos]:
                        b = bytearray(base)
                        b[pos] = v
                        yield "corrupt255", bytes(b) + fg.mk(25)
    # 3. paired flips that keep the XOR
    for _ in range(150 if quick else 5000):
        base = bytearray(fg.mk(rng.choice(fg.FRAME_TYPES), fg.salted_payload(rng, rng.randint(0, 12)),
                               rng.choice([86, 0]), rng.choice(fg.DEVICES)))
        i, j = rng.randrange(len(base) - 1), rng.randrange(len(base) - 1)
        m = rng.randrange(1, 256)
        if i != j:
            base[i] ^= m
            base[j] ^= m
        yield "xorpair", bytes(base) + fg.mk(25)
    # 3b. multi-byte corruptions over the WHOLE frame, the end delimiter included: the same delta on the last byte and
    #     on one other byte, and the same delta on 2..4 arbitrary positions (an even number keeps the XOR of everything)
    for _ in range(150 if quick else 5000):
        base = bytearray(fg.mk(rng.choice(fg.FRAME_TYPES), fg.salted_payload(rng, rng.randint(0, 12)),
                               rng.choice([86, 0]), rng.choice(fg.DEVICES)))
        m = rng.choice([rng.randrange(1, 256), rng.randrange(1, 256), 0x16, 0x68 ^ 0x16, 0x01, 0x80])
        if rng.random() < 0.5:
            pos = [len(base) - 1, rng.randrange(len(base) - 1)]
        else:
            pos = rng.sample(range(len(base)), rng.choice([2, 2, 3, 4]))
        for i in pos:
            base[i] ^= m
        yield "xormulti", bytes(base) + (fg.mk(25) if rng.random() < 0.7 else b"")
    # 4. XOR-of-prefix is zero with a non-zero stored byte; stored byte zero with non-zero XOR
    for _ in range(150 if quick else 5000):
        pl = bytearray(fg.salted_payload(rng, rng.randint(1, 10)))
        fr = bytearray(fg.mk(rng.choice(fg.FRAME_TYPES), pl, rng.choice([86, 0]), rng.choice(fg.DEVICES)))
        # force xor(prefix)=0 by adjusting the last payload byte
        fr[-3] ^= fg.xor(fr[:-2])
        assert fg.xor(fr[:-2]) == 0
        for stored in (0, rng.randrange(1, 256), 0x55):
            fr[-2] = stored
            yield "xorzero", bytes(fr) + fg.mk(25)
        fr2 = bytearray(fg.mk(rng.choice(fg.FRAME_TYPES), pl, rng.choice([86, 0]), rng.choice(fg.DEVICES)))
        if fr2[-2] != 0:
            fr2[-2] = 0
            yield "storedzero", bytes(fr2) + fg.mk(25)
    # 5. truncations at every length
    for _ in range(15 if quick else 300):
        fr = fg.mk(rng.choice(fg.FRAME_TYPES), fg.salted_payload(rng, rng.randint(0, 8)))
        for k in range(len(fr)):
            yield "trunc", fr[:k]
            if rng.random() < 0.3:
                yield "trunc+", fg.mk(25) + fr[:k]
    # 6. noise
    for _ in range(200 if quick else 20000):
        n = rng.randint(0, 60)
        mode = rng.random()
        if mode < 0.3:
            s = bytes(rng.randrange(256) for _ in range(n))
        elif mode < 0.6:
            s = bytes(rng.choice([0x68, 0x68, 0x0a, 0x00, 0x56, 0x45, rng.randrange(256)]) for _ in range(n))
        else:
            s = b"".join(
                bytes([0x68, rng.choice([10, 11, 12, 13, 9, 232, 233]), rng.choice([0, 0, 3, 4]), rng.choice([86, 0, 1]),
                       rng.choice(fg.DEVICES + [3]), 48, 5]) + bytes(rng.randrange(256) for _ in range(rng.randint(0, 8)))
                for _ in range(rng.randint(1, 4)))
        yield "noise", s + (fg.mk(25) if rng.random() < 0.5 else b"")
    # 6b. length-boundary runts: consistent "frames" of total length 7..12 and 998..1003
    for _ in range(30 if quick else 600):
        for total in [7, 8, 9, 10, 11, 12] + ([998, 999, 1000, 1001, 1002, 1003] if rng.random() < (0.1 if quick else 0.3) else []):
            yield "runt", fg.runt(rng, total) + fg.mk(25) + fg.mk(25)
    # 6c. damaged start byte with a start delimiter elsewhere in the header and the checksum patched to match
    for _ in range(120 if quick else 4000):
        pl = fg.salted_payload(rng, rng.choice([0, 1, 3, 94 if rng.random() < 0.3 else 2]))
        et, ev = rng.choice([48, 0x68]), rng.choice([5, 0x68])
        fr = bytearray(fg.mk(rng.choice(fg.FRAME_TYPES), pl, rng.choice([86, 0]), rng.choice(fg.DEVICES), et, ev))
        x = rng.choice([0, 0x16, 0x69, 0xE8, rng.randrange(256)])
        if x != 0x68:
            fr[-2] ^= 0x68 ^ x
            fr[0] = x
        yield "badstart", bytes(fr) + (fg.mk(25) if rng.random() < 0.5 else b"")
    # 7. random mixed streams
    for _ in range(300 if quick else 30000):
        parts = []
        for _ in range(rng.randint(1, 5)):
            r = rng.random()
            if r < 0.6:
                parts.append(fg.rand_frame(rng, 24))
            elif r < 0.8:
                parts.append(bytes(rng.randrange(256) for _ in range(rng.randint(1, 6))))
            else:
                f = bytearray(fg.rand_frame(rng, 12))
                f[rng.randrange(len(f))] = rng.randrange(256)
                parts.append(bytes(f))
        yield "mixed", b"".join(parts)
    # 8. ONE reader, frames with a byte-identical body (kind, payload, checksum, end) under different headers: the XOR of the
    #    four addressing / version bytes is the same, so the checksum does not tell them apart (C01.twin_frames_each_own_fields).
    #    Each delivery must carry the header bytes of ITS OWN frame; other frames, noise, identical repeats and non-delivered
    #    twins in between.
    for label, s in twin_streams(rng, 120 if quick else 6000):
        yield label, s


def twin_streams(rng, n):
    for _ in range(n):
        kind = rng.choice(fg.FRAME_TYPES)
        pl = fg.salted_payload(rng, rng.choice([0, 1, 1, 2, 5, 9, 30]))
        mode, h, g = fg.twin_headers(rng, deliverable=rng.random() < 0.8)
        a, b = fg.mk(kind, pl, *h), fg.mk(kind, pl, *g)
        assert a[7:] == b[7:] and a[:7] != b[:7]
        between = []
        for _ in range(rng.choice([0, 0, 0, 1, 2])):
            r = rng.random()
            between.append(fg.rand_frame(rng, 12) if r < 0.4 else fg.mk(rng.choice([k for k in fg.FRAME_TYPES if k != kind]), pl, *h) if r < 0.7
                           else a if r < 0.85 else bytes(x for x in (rng.randrange(256) for _ in range(rng.randint(1, 5))) if x != 0x68))
        seq = [a] + between + [b]
        if rng.random() < 0.5:
            seq += [rng.choice([a, b, fg.mk(kind, pl, *fg.twin_headers(rng)[1])])]
        yield "twins:" + mode, b"".join(seq)


def chunkings(rng, n):
    yield (), False
    yield tuple(range(1, n)), True  # one byte at a time, fed only when the reader is blocked
    k = rng.randint(0, max(0, min(6, n - 1)))
    yield tuple(sorted(rng.sample(range(1, n), k))) if n > 2 and k else (), True


def run(ctx):
    rng = random.Random(ctx["seed"] * 7919 + 1)
    res = Result("C01")
    import pycode  # translator validation: generated Lean definitions vs the real functions (harness/pycode.py)
    pycode.check(res, random.Random(ctx["seed"] * 7919 + 77), ctx["tier"], ["frame", "reader"])
    res.rule = ("streams: every frame kind x boundary payload sizes; single-byte corruptions at every position; "
                "XOR-preserving paired flips; the same delta on 2-4 positions of the whole frame incl. the end delimiter; XOR-zero / stored-zero checksum corruptions; truncations at every length; "
                "noise (uniform, delimiter-dense, header-shaped); mixed streams; TWINS: frames with a byte-identical body (kind, payload, checksum, end) under headers that "
                "differ in two or four of recipient / sender / type / version with the same XOR, through ONE reader with other frames, repeats and noise between them "
                "(each delivery judged on ITS OWN consumed bytes; every delivered object kept alive to the end: never the same object twice, fields unchanged by later reads); each under 3 chunkings; sessions on ONE reader object (direct / DummyProtocol.reader) "
                "whose calls are abandoned by READER_TIMEOUT or cancellation after the delimiter, inside the header, at every position of a body, "
                "then further bytes and calls -- incl. continuations that would form a frame when glued to what the abandoned call took; sessions whose calls are ALSO abandoned at "
                "the last await of read() (Frame.create: the harness holds the executor job), with identical frames repeated, checksum-valid frames of UNKNOWN kinds repeated, "
                "and delivered objects modified by the caller (addressing swapped, message / data / versions assigned) before the same bytes arrive again. "
                "distinct = distinct stream bytes; non-trivial = contains a start delimiter followed by >= 6 bytes")
    cases = []
    for fn, ln in load_corpus("C01"):
        cases.append(("corpus:" + fn, bytes.fromhex(ln)))
    cases.extend(gen_streams(rng, ctx["tier"]))
    budget = ctx.get("max_cases")
    if budget:
        cases = cases[:budget]
    # implementation runs
    impl = []
    for label, s in cases:
        obs_by_chunk = []
        for cuts, lazy in chunkings(rng, len(s)):
            fresh = []
            obs_by_chunk.append((cuts if len(cuts) < 12 else "1-byte", lazy, reader.read_all(s, cuts, lazy, fresh=fresh)))
            report_fresh(res, dict(stream=s.hex(), cuts=list(cuts) if len(cuts) < 12 else "1-byte", lazy=lazy, label=label), fresh)
        impl.append(obs_by_chunk)
    answers = driver_batch("read " + hexs(s) for _, s in cases)
    judge(res, cases, impl)
    differing = []
    for (label, s), obs_by_chunk, ans in zip(cases, impl, answers):
        model = reader.canon_model(reader.parse_model(ans)) if ans != "bad-op" else None
        nontrivial = any(s[i] == 0x68 and len(s) - i > 6 for i in range(len(s)))
        res.case(s, nontrivial)
        res.count("label:" + label.split(":")[0])
        for cuts, lazy, obs in obs_by_chunk:
            ci = reader.canon_impl(obs)
            for o in ci:
                res.count("outcome:" + o[0])
            if ci != model:
                res.fail("corr", dict(stream=s.hex(), cuts=list(cuts) if cuts != "1-byte" else "1-byte", lazy=lazy, label=label),
                         model, ci, "reader model and FrameReader.read() differ")
                if s not in differing:
                    differing.append(s)
        if len(res.samples) < 6 and label in ("xorzero", "corrupt1", "mixed", "valid", "noise", "trunc"):
            if not any(x["label"] == label for x in res.samples):
                res.sample(dict(label=label, stream=s.hex(), observed=[list(o) for o in reader.canon_impl(obs_by_chunk[0][2])]))
    res.extra["chunkings_per_stream"] = 3
    if differing and not any(f["kind"] == "spec" for f in res.failures):
        neighbourhood(res, rng, differing)
    from common import Parts
    parts = Parts(res)
    parts.run("reader object re-used after abandoned calls", run_sessions, res, random.Random(ctx["seed"] * 7919 + 101), ctx["tier"])
    parts.run("reader object re-used: calls abandoned at Frame.create, repeated / unknown-kind frames, deliveries modified by the caller",
              run_sessionsx, res, random.Random(ctx["seed"] * 7919 + 103), ctx["tier"])
    # the same reader / connection in a process with HISTORY (calls abandoned at every suspension point of read(), the
    # Frame.create executor hop with its job pending included; each history in a fresh python process): harness/history.py
    import history
    parts.run("reader histories with abandoned calls, in fresh processes", history.evaluate, res,
              random.Random(ctx["seed"] * 7919 + 105), ctx["tier"], "C01", 8 if ctx["tier"] == "quick" else None)
    parts.finish()
    res.failures.sort(key=lambda f: (f["kind"] != "spec", len(str(f.get("input")))))
    return res


def report_fresh(res, inp, fresh):
    """every frame delivered by one reader is kept alive until the stream ends (reader.check_fresh)"""
    for i, what, detail in fresh:
        if what == "changed-after-delivery":
            res.fail("spec", inp, "a delivered frame keeps the kind, addressing and payload it was delivered with",
                     dict(call=i, **detail), "a frame handed to the caller changed its fields after LATER calls of read() on the same reader: "
                     "it no longer carries the bytes it was read from (delivered in altered form)")
        else:
            res.fail("corr", inp, "every delivering call hands out a new frame object (the model's deliveries are independent values)",
                     dict(call=i, **detail), "one reader handed out the SAME frame object for two deliveries")


# ---------------------------------------------------------------------------------------------
# one FrameReader object used again after calls that ended abnormally (READER_TIMEOUT / cancelled by the caller)


def gen_sessions(rng, tier):
    """yield (label, chunks): after each chunk the caller reads until a call blocks, and abandons that call"""
    quick = tier == "quick"

    def own_frame(n=None):
        return fg.mk(rng.choice(fg.FRAME_TYPES), fg.salted_payload(rng, rng.choice([0, 1, 2, 5, 9, 30]) if n is None else n),
                     rng.choice([86, 0]), rng.choice([69, 81, 86, 0]))

    def quiet(n):
        return bytes(rng.choice([b for b in (0x00, 0x16, 0xFF, 0x0a, rng.randrange(256)) if b != 0x68]) for _ in range(n))

    # 1. random streams cut at random places, preferably right after a start delimiter, inside a header, inside a body
    for _ in range(300 if quick else 20000):
        parts = []
        for _ in range(rng.randint(1, 4)):
            r = rng.random()
            parts.append(fg.rand_frame(rng, 24) if r < 0.6 else own_frame() if r < 0.8 else
                         fg.runt(rng, rng.choice([7, 8, 9, 10, 11, 12])) if r < 0.9 else bytes(rng.randrange(256) for _ in range(rng.randint(1, 6))))
        s = b"".join(parts)
        cand = [i + 1 for i, b in enumerate(s) if b == 0x68] + [i + rng.randint(2, 7) for i, b in enumerate(s) if b == 0x68]
        cuts = sorted({c for c in (rng.sample(cand, min(len(cand), rng.randint(1, 3))) + [rng.randrange(len(s) + 1)]) if 0 < c < len(s)})
        chunks = [s[a:b] for a, b in zip([0] + cuts, cuts + [len(s)])]
        yield "session:random", chunks
    # 2. a frame whose arrival stalls at EVERY position; the rest arrives after the call was abandoned, then further frames
    for _ in range(12 if quick else 400):
        f = own_frame(rng.choice([0, 1, 3, 8]))
        for k in range(1, len(f)):
            yield "session:stalled-frame", [quiet(rng.choice([0, 0, 3])) + f[:k], f[k:] + own_frame() + (own_frame() if rng.random() < 0.5 else b"")]
    # 3. what arrives after an abandoned call would, glued to what that call had already taken, make a well-formed frame:
    #    a reader that carries anything over from the abandoned call delivers bytes that are not a frame.
    #    (a) the call took the start delimiter only; (b) the call took a whole header.
    for _ in range(60 if quick else 3000):
        rc, sd = rng.choice([86, 0]), rng.choice([69, 81, 86, 0])
        if rng.random() < 0.5:
            hi = rng.choice([0, 0, 1, 2, 3])         # the glued frame starts 68 68 hi: its length field reads 0x68 + 256 * hi
            total = 0x68 + 256 * hi
            # ... and the glued bytes are as long as that length field says, or longer by what had been taken (a reader that
            # counts the carried-over byte twice)
            glued = total + rng.choice([0, 1])
            w = bytearray([0x68, 0x68, hi, rc, sd, rng.choice([48, 0x69]), 5, rng.choice(fg.FRAME_TYPES)])
            w += bytes(b if b != 0x68 else 0x69 for b in (rng.choice([0, 1, 0x16, 0x55, rng.randrange(256)]) for _ in range(glued - 10)))
            w = bytes(w) + bytes([fg.xor(w), 0x16])
            taken, later = w[:1], w[1:]
            first = quiet(rng.choice([0, 2])) + taken + quiet(rng.choice([0, 0, 2, 5]))
        else:
            total = rng.randint(10, 60)
            hdr = bytes([0x68, total, 0, rc, sd, 48, 5])
            body = bytes([0x68]) + bytes(b if b != 0x68 else 0x69 for b in (rng.randrange(256) for _ in range(total - 3)))
            later = body + bytes([fg.xor(hdr + body), 0x16])
            first = quiet(rng.choice([0, 2])) + hdr + quiet(rng.randrange(0, total - 7))
        yield "session:glue", [first, quiet(rng.choice([0, 0, 3])) + later + own_frame() + own_frame()]
    # 4. twins (byte-identical body, different header with the same XOR) on one reader with abandoned calls in between: the
    #    later twin arrives after a call that blocked with nothing taken, after the delimiter only, or inside a header
    for _ in range(60 if quick else 3000):
        kind = rng.choice(fg.FRAME_TYPES)
        pl = fg.salted_payload(rng, rng.choice([0, 1, 2, 5, 9]))
        mode, h, g = fg.twin_headers(rng)
        a, b = fg.mk(kind, pl, *h), fg.mk(kind, pl, *g)
        stall = rng.choice([b"", b"", b"\x68", a[:rng.randint(2, 7)], quiet(2)])
        chunks = [quiet(rng.choice([0, 0, 2])) + a + stall, b + rng.choice([b"", a, b, own_frame()])]
        if rng.random() < 0.4:
            chunks.append(rng.choice([a, b]) + own_frame())
        yield "session:twins", chunks


def _session(chunks, modes, via_dummy, fresh_out=None):
    """-> canonical events: reader.read_all tuples for completed calls, ("A", taken, how) for abandoned ones"""
    import asyncio
    import vloop
    from pyplumio.exceptions import ProtocolError
    from pyplumio.stream import FrameReader

    async def main():
        sr = asyncio.StreamReader()
        if via_dummy:
            from pyplumio.protocol import DummyProtocol
            proto = DummyProtocol()
            proto.connection_established(sr, _NullWriter())
            fr = proto.reader
        else:
            fr = FrameReader(sr)
        out, fed, before = [], 0, 0
        kept = []

        def taken():
            nonlocal before
            n = fed - len(sr._buffer) - before
            before += n
            return n

        def record(t):
            exc = t.exception()
            if exc is None:
                f = t.result()
                if f is None:
                    out.append(("I", taken()))
                else:
                    out.append(("D", int(f.frame_type), int(f.recipient), int(f.sender), int(f.econet_type), int(f.econet_version),
                                hexs(f.message), taken()))
                    kept.append((len(out) - 1, f, reader._frame_fields(f)))
            elif isinstance(exc, ProtocolError):
                out.append(("E", taken()))
            elif isinstance(exc, OSError) and not isinstance(exc, asyncio.TimeoutError):
                out.append(("L", taken()))
                return False
            else:
                out.append(("X", type(exc).__name__, taken()))
                return False
            return True

        for ch, how in zip(chunks, modes):
            sr.feed_data(ch)
            fed += len(ch)
            for _ in range(len(ch) + 3):
                t = asyncio.ensure_future(fr.read())
                for _ in range(10000):
                    await asyncio.sleep(0)
                    if t.done() or sr._waiter is not None:
                        break
                if t.done() and not t.cancelled():
                    if not record(t):
                        reader.check_fresh(kept, fresh)
                        return out
                    continue
                # the call waits for bytes that do not come: it is abandoned
                if how == "cancel":
                    t.cancel()
                else:
                    await asyncio.sleep(11)          # READER_TIMEOUT is 10 s (virtual time)
                await asyncio.gather(t, return_exceptions=True)
                ended = "cancelled" if t.cancelled() else type(t.exception()).__name__ if t.exception() else "returned"
                out.append(("A", taken(), ended))
                break
        sr.feed_eof()
        for _ in range(fed + 3):
            t = asyncio.ensure_future(fr.read())
            await asyncio.gather(t, return_exceptions=True)
            if not record(t):
                break
        reader.check_fresh(kept, fresh)
        return out

    fresh = []
    ev = vloop.run(main())
    if fresh_out is not None:
        fresh_out.extend(fresh)
    return ev


class _NullWriter:
    def write(self, b):
        pass

    async def drain(self):
        pass

    def close(self):
        pass

    async def wait_closed(self):
        pass


def run_sessions(res, rng, tier, cases=None):
    cases = list(gen_sessions(rng, tier)) if cases is None else cases
    obs = []
    for label, chunks in cases:
        modes = [rng.choice(["timeout", "cancel"]) for _ in chunks]
        via = rng.random() < 0.4
        fresh = []
        obs.append((modes, via, _session(chunks, modes, via, fresh)))
        report_fresh(res, dict(session=[c.hex() for c in chunks], abandoned_by=modes, via="DummyProtocol.reader" if via else "FrameReader", label=label), fresh)
    answers = driver_batch("session " + "+".join(hexs(c) for c in chunks) for _, chunks in cases)
    judge_reqs, judge_at = [], []
    for (label, chunks), (modes, via, ev), ans in zip(cases, obs, answers):
        s = b"".join(chunks)
        inp = dict(session=[c.hex() for c in chunks], abandoned_by=modes, via="DummyProtocol.reader" if via else "FrameReader", label=label)
        res.case(("session", tuple(chunks)), True)
        res.count("label:" + label)
        model = []
        for part in ans.split(";"):
            w = part.split(" ")
            model.append(("A", int(w[1])) if w[0] == "A" else reader.canon_model(reader.parse_model(part))[0])
        canon, pos = [], 0
        for e in ev:
            n = e[-2] if e[0] == "A" else e[-1]
            if e[0] == "D*":
                # a tree on which Frame.create does not suspend in every call: the call completed where the model's caller abandoned
                # it.  The delivery is judged like every other one (below); for the comparison the call counts as the model's abandoned call
                res.count("create-hop-did-not-suspend")
                e = ("D",) + tuple(e[1:])
                canon.append(("A", n))
            elif e[0] == "A":
                canon.append(("A", e[1]))
                res.count("abandoned:" + e[2])
                if e[2] not in ("cancelled", "TimeoutError"):
                    res.fail("spec", inp, "TimeoutError / CancelledError", list(e), "an abandoned read() ended with something else than its time-out / cancellation")
            else:
                canon.append(tuple(e))
                res.count("outcome-after-reuse:" + e[0])
            if e[0] == "D":
                judge_reqs.append(f"c01judge {hexs(s[pos:pos + n])} {e[1]} {e[2]} {e[3]} {e[4]} {e[5]} {e[6]}")
                judge_at.append((inp, e, s[pos:pos + n]))
            if e[0] == "X":
                res.fail("spec", inp, "frame / None / protocol error / connection lost", list(e), "read() on a re-used reader raised something else")
            pos += n
        if canon != model:
            res.fail("corr", inp, [list(x) for x in model], [list(x) for x in canon],
                     "reader session model and one FrameReader object used across abandoned calls differ")
    for (inp, e, consumed), v in zip(judge_at, driver_batch(judge_reqs)):
        if v != "pass":
            res.fail("spec", inp, "no delivery, or a delivery justified by the bytes that call consumed",
                     dict(delivered=list(e), consumed=consumed.hex(), judge=v),
                     "a frame delivered by a reader that was used again after an abandoned (timed-out / cancelled) call is not "
                     "justified by the bytes consumed for it (C01.spec; C01.session_delivered_only_if_well_formed)")


# ---------------------------------------------------------------------------------------------
# one FrameReader object, calls abandoned at ANY await of read() -- the last one included: `await Frame.create(...)`
# (class lookup + executor hop; the harness holds the executor job) -- identical frames repeated, frames of an unknown kind
# repeated, and delivered objects MODIFIED by the caller between reads.  Model: Model/ReaderSession.sessionX
# (C01.sessionX_calls_are_reads, sessionX_delivered_only_if_well_formed).

UNKNOWN_KINDS = [k for k in range(256) if k not in fg.FRAME_TYPES]


def gen_sessionsx(rng, tier):
    """yield (label, steps, mutate); steps: ("f", bytes) | ("c",) | ("x",)"""
    quick = tier == "quick"

    def frame(kind=None, n=None):
        return fg.mk(rng.choice(fg.FRAME_TYPES) if kind is None else kind, fg.salted_payload(rng, rng.choice([0, 1, 2, 5, 9]) if n is None else n),
                     rng.choice([86, 0]), rng.choice([69, 81, 86, 0]), rng.choice([48, 49, rng.randrange(256)]), rng.choice([5, 6, rng.randrange(256)]))

    def unknown():
        return fg.mk(rng.choice(UNKNOWN_KINDS), fg.salted_payload(rng, rng.choice([0, 1, 3])), rng.choice([86, 0]), rng.choice([69, 81]))

    for _ in range(40 if quick else 2000):
        # (a) X delivered, a read of Y abandoned at Frame.create, Y again
        x, y = frame(), frame()
        if rng.random() < 0.3:
            _, h, g = fg.twin_headers(rng)
            y = fg.mk(x[7], x[8:-2], *g)
            x = fg.mk(x[7], x[8:-2], *h)
        steps = [("f", x), ("c",), ("f", y), ("x",), ("f", y + (rng.choice([b"", x, y, frame()]))), ("c",)]
        if rng.random() < 0.3:
            steps = steps[2:]                      # nothing delivered before
        yield "sessionx:abandoned-at-create", steps, False
    for _ in range(30 if quick else 1500):
        # (b) checksum-valid, correctly addressed frames of an UNKNOWN kind, repeated
        x, u = frame(), unknown()
        seq = rng.choice([[x, u, u], [u, u], [x, u, x, u, u], [x, u, u, x], [u, x, u, u, u]])
        if rng.random() < 0.5:
            steps = [("f", b"".join(seq)), ("c",)]
        else:
            steps = [st for fr_ in seq for st in (("f", fr_), ("c",))]
        yield "sessionx:unknown-kind-repeated", steps, False
    for _ in range(40 if quick else 2000):
        # (c) the caller modifies what it was handed; the same bytes arrive again
        x, y = frame(), frame()
        seq = rng.choice([[x, x], [x, x, x], [x, y, x], [x, y, y, x, x]])
        steps = [st for fr_ in seq for st in (("f", fr_), ("c",))] if rng.random() < 0.6 else [("f", b"".join(seq)), ("c",)]
        yield "sessionx:delivered-object-modified", steps, True
    for _ in range(80 if quick else 6000):
        # random histories over a SMALL pool of frames (identical repeats are the rule), every step kind
        pool = [frame(), frame(), unknown(), fg.mk(rng.choice(fg.FRAME_TYPES), b"\x01", rng.choice([1, 69]), 69)]
        pool.append(pool[0][:rng.randint(1, len(pool[0]) - 1)])          # a truncated frame: calls block inside it
        steps = []
        for _ in range(rng.randint(2, 9)):
            r = rng.random()
            steps.append(("f", rng.choice(pool)) if r < 0.5 else ("c",) if r < 0.8 else ("x",))
        yield "sessionx:random", steps, rng.random() < 0.4


def _mutate(f, k):
    """what a caller may do to a frame it was handed"""
    k = k % 4
    if k == 0:
        f.recipient, f.sender = f.sender, f.recipient
    elif k == 1:
        f.message = bytearray(b"\x99\x98\x97")
    elif k == 2:
        f.data = {"modified": k}
    else:
        f.econet_type, f.econet_version = (int(f.econet_type) ^ 0x55) & 0xFF, (int(f.econet_version) + 1) & 0xFF


def _sessionx(steps, how, mutate, fresh):
    import asyncio
    import vloop
    from pyplumio.exceptions import ProtocolError
    from pyplumio.stream import FrameReader

    async def main():
        loop = asyncio.get_running_loop()
        sr = asyncio.StreamReader()
        fr = FrameReader(sr)
        out, kept = [], []
        st = dict(fed=0, before=0, n=0)

        def taken():
            n = st["fed"] - len(sr._buffer) - st["before"]
            st["before"] += n
            return n

        def record(t):
            exc = t.exception()
            if exc is None:
                f = t.result()
                if f is None:
                    out.append(("I", taken()))
                else:
                    fields = reader._frame_fields(f)
                    out.append(("D",) + tuple(fields) + (taken(),) if len(fields) == 6 else ("X", fields[0], taken()))
                    if mutate:
                        try:
                            _mutate(f, st["n"])
                        except Exception:  # noqa: BLE001 -- a frame that cannot be modified is fine
                            pass
                        st["n"] += 1
                    kept.append((len(out) - 1, f, reader._frame_fields(f)))
            elif isinstance(exc, ProtocolError):
                out.append(("E", taken()))
            elif isinstance(exc, OSError) and not isinstance(exc, asyncio.TimeoutError):
                out.append(("L", taken()))
                return False
            else:
                out.append(("X", type(exc).__name__, taken()))
                return False
            return True

        async def start(hold):
            loop.hold = hold
            t = asyncio.ensure_future(fr.read())
            for _ in range(10000):
                await asyncio.sleep(0)
                if t.done() or sr._waiter is not None or loop.held:
                    break
            return t

        async def abandon(t):
            if how == "cancel":
                t.cancel()
            else:
                await asyncio.sleep(11)          # READER_TIMEOUT is 10 s (virtual time)
            loop.held.clear()                    # the executor job of an abandoned Frame.create never reports back
            await asyncio.gather(t, return_exceptions=True)
            ended = "cancelled" if t.cancelled() else type(t.exception()).__name__ if t.exception() else "returned"
            out.append(("A", taken(), ended))

        alive = True
        for step in steps:
            if step[0] == "f":
                sr.feed_data(step[1])
                st["fed"] += len(step[1])
            elif step[0] == "c":
                for _ in range(st["fed"] + 3):
                    t = await start(False)
                    if t.done() and not t.cancelled():
                        alive = record(t)
                        if not alive:
                            break
                        continue
                    await abandon(t)
                    break
            else:
                t = await start(True)
                if t.done() and not t.cancelled():
                    alive = record(t)
                    if out and out[-1][0] == "D":
                        out[-1] = ("D*",) + out[-1][1:]   # delivered although the executor was held: Frame.create did not suspend in this call
                else:
                    await abandon(t)
            if not alive:
                break
        loop.hold = False
        if alive:
            sr.feed_eof()
            for _ in range(st["fed"] + 3):
                t = asyncio.ensure_future(fr.read())
                await asyncio.gather(t, return_exceptions=True)
                if not record(t):
                    break
        reader.check_fresh(kept, fresh)
        return out

    return vloop.run(main())


def run_sessionsx(res, rng, tier, cases=None):
    cases = list(gen_sessionsx(rng, tier)) if cases is None else cases
    obs = []
    for label, steps, mutate in cases:
        how = rng.choice(["timeout", "cancel"])
        fresh = []
        obs.append((how, _sessionx(steps, how, mutate, fresh), fresh))
    answers = driver_batch("sessionx " + ",".join("f" + hexs(st[1]) if st[0] == "f" else st[0] for st in steps) for _, steps, _ in cases)
    judge_reqs, judge_at = [], []
    for (label, steps, mutate), (how, ev, fresh), ans in zip(cases, obs, answers):
        s = b"".join(st[1] for st in steps if st[0] == "f")
        inp = dict(sessionx=[st[1].hex() if st[0] == "f" else st[0] for st in steps], abandoned_by=how, modified_after_delivery=mutate, label=label)
        res.case(("sessionx", tuple(steps), mutate), True)
        res.count("label:" + label)
        report_fresh(res, inp, fresh)
        model = []
        for part in ans.split(";"):
            w = part.split(" ")
            model.append(("A", int(w[1])) if w[0] == "A" else reader.canon_model(reader.parse_model(part))[0])
        canon, pos = [], 0
        for e in ev:
            n = e[-2] if e[0] == "A" else e[-1]
            if e[0] == "D*":
                # a tree on which Frame.create does not suspend in every call: the call completed where the model's caller abandoned
                # it.  The delivery is judged like every other one (below); for the comparison the call counts as the model's abandoned call
                res.count("create-hop-did-not-suspend")
                e = ("D",) + tuple(e[1:])
                canon.append(("A", n))
            elif e[0] == "A":
                canon.append(("A", e[1]))
                res.count("abandoned:" + e[2])
                if e[2] not in ("cancelled", "TimeoutError"):
                    res.fail("spec", inp, "TimeoutError / CancelledError", list(e), "an abandoned read() ended with something else than its time-out / cancellation")
            else:
                canon.append(tuple(e))
                res.count("outcome-after-reuse:" + e[0])
            if e[0] == "D":
                judge_reqs.append(f"c01judge {hexs(s[pos:pos + n])} {e[1]} {e[2]} {e[3]} {e[4]} {e[5]} {e[6]}")
                judge_at.append((inp, e, s[pos:pos + n]))
            if e[0] == "X":
                res.fail("spec", inp, "frame / None / protocol error / connection lost", list(e), "read() on a re-used reader raised something else")
            pos += n
        if canon != model:
            res.fail("corr", inp, [list(x) for x in model], [list(x) for x in canon],
                     "reader session model (sessionX: calls abandoned at any await of read(), Frame.create included) and one FrameReader object differ")
    for (inp, e, consumed), v in zip(judge_at, driver_batch(judge_reqs)):
        if v != "pass":
            res.fail("spec", inp, "no delivery, or a delivery justified by the bytes that call consumed",
                     dict(delivered=list(e), consumed=consumed.hex(), judge=v),
                     "a frame delivered by a reader that was used again -- after a call abandoned while the frame object was being built, after "
                     "a rejected frame, or after the caller modified an earlier delivery -- is not justified by the bytes consumed for it "
                     "(C01.spec; C01.sessionX_delivered_only_if_well_formed)")


def judge(res, cases, impl):
    """C01.spec (Lean judge) on everything the implementation delivered: the delivery must be justified by the bytes
    the call consumed"""
    judge_reqs = []
    judge_idx = []
    for ci, ((label, s), obs_by_chunk) in enumerate(zip(cases, impl)):
        for (cuts, lazy, obs) in obs_by_chunk[:1] if all(o[2] == obs_by_chunk[0][2] for o in obs_by_chunk) else obs_by_chunk:
            pos = 0
            for o in obs:
                n = o[-2] if o[0] == "D" else o[-1]
                if o[0] == "D":
                    judge_reqs.append(f"c01judge {hexs(s[pos:pos + n])} {o[1]} {o[2]} {o[3]} {o[4]} {o[5]} {o[6]}")
                    judge_idx.append((ci, cuts, pos, n, o))
                pos += n
    verdicts = driver_batch(judge_reqs)
    hits = 0
    for (ci, cuts, pos, n, o), v in zip(judge_idx, verdicts):
        if v != "pass":
            hits += 1
            label, s = cases[ci]
            res.fail("spec", dict(stream=s.hex(), cuts=list(cuts) if cuts != "1-byte" else "1-byte", label=label),
                     "no delivery, or a delivery justified by the consumed bytes",
                     dict(delivered=list(o), consumed=s[pos:pos + n].hex(), judge=v),
                     "delivered frame is not justified by the bytes consumed for it (C01.spec)")
    return hits


def neighbourhood(res, rng, differing, budget=6000):
    """Model and implementation differ on some streams but every delivery so far is justified: search the neighbourhood of
    the first differing streams for a delivery that is NOT justified -- every single-byte substitution by a few values and
    the same XOR delta on every pair of positions of the stream (start, length, addressing, checksum and end bytes included)."""
    cases = []
    for s in sorted(differing, key=len)[:4]:
        s = s[:96]
        n = len(s)
        deltas = [0x01, 0x80, 0xFF, rng.randrange(1, 256), rng.randrange(1, 256)]
        for i in range(n):
            for d in deltas + [s[i] ^ 0x68, s[i] ^ 0x16, s[i]]:
                if d:
                    b = bytearray(s)
                    b[i] ^= d
                    cases.append(("near1", bytes(b)))
        pairs = [(i, j) for i in range(n) for j in range(i + 1, n)]
        if len(pairs) * len(deltas) > budget // 2:
            pairs = rng.sample(pairs, budget // (2 * len(deltas)))
        for i, j in pairs:
            for d in deltas:
                b = bytearray(s)
                b[i] ^= d
                b[j] ^= d
                cases.append(("near2", bytes(b)))
    cases = cases[:budget]
    impl = [[((), False, reader.read_all(s))] for _, s in cases]
    for _, s in cases:
        res.case(s, True)
    res.count("label:neighbourhood-of-a-difference", len(cases))
    res.extra["neighbourhood_search"] = dict(streams=len(cases), around=[s.hex() for s in sorted(differing, key=len)[:4]],
                                             unjustified_deliveries=judge(res, cases, impl))


def replay(ctx):
    """re-run one recorded failing input on implementation and model"""
    f = ctx["replay"]["failure"] if "failure" in ctx["replay"] else ctx["replay"].get("first_difference")
    if f["input"].get("via") == "history":
        import history
        res = Result("C01")
        res.rule = "replay of one recorded history of reader sessions in a fresh process"
        history.replay_case(res, f["input"], "C01")
        res.case(str(f["input"]["scenario"]))
        return res
    if "sessionx" in f["input"]:
        res = Result("C01")
        res.rule = "replay of one recorded reader session (calls abandoned at any await, deliveries modified by the caller)"
        i = f["input"]

        class FixedX:
            def choice(self, _):
                return i["abandoned_by"]
        steps = [(w,) if w in ("c", "x") else ("f", bytes.fromhex(w)) for w in i["sessionx"]]
        run_sessionsx(res, FixedX(), "quick", [(i.get("label", "sessionx"), steps, bool(i.get("modified_after_delivery")))])
        return res
    if "session" in f["input"]:
        res = Result("C01")
        res.rule = "replay of one recorded reader session"
        i = f["input"]

        class Fixed:      # the recorded choices instead of random ones
            def __init__(self):
                self.modes = list(i["abandoned_by"])

            def choice(self, _):
                return self.modes.pop(0)

            def random(self):
                return 0.0 if i["via"] == "DummyProtocol.reader" else 1.0
        run_sessions(res, Fixed(), "quick", [(i.get("label", "session"), [bytes.fromhex(c) for c in i["session"]])])
        return res
    s = bytes.fromhex(f["input"]["stream"])
    res = Result("C01")
    res.rule = "replay of one recorded stream"
    cuts = f["input"].get("cuts") or ()
    if cuts == "1-byte":
        cuts = tuple(range(1, len(s)))
    fresh = []
    obs = reader.read_all(s, tuple(cuts), bool(f["input"].get("lazy")), fresh=fresh)
    report_fresh(res, f["input"], fresh)
    ans = driver_batch(["read " + hexs(s)])[0]
    model = reader.canon_model(reader.parse_model(ans))
    ci = reader.canon_impl(obs)
    res.case(s)
    res.sample(dict(stream=s.hex(), observed=[list(o) for o in ci], model=[list(o) for o in model]))
    pos = 0
    for o in ci:
        n = o[-1]
        if o[0] == "D":
            v = driver_batch([f"c01judge {hexs(s[pos:pos + n])} {o[1]} {o[2]} {o[3]} {o[4]} {o[5]} {o[6]}"])[0]
            if v != "pass":
                res.fail("spec", f["input"], "justified delivery", dict(delivered=list(o), consumed=s[pos:pos + n].hex()), "C01.spec")
        pos += n
    if ci != model:
        res.fail("corr", f["input"], model, ci, "reader model and FrameReader.read() differ")
    return res

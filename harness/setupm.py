"""Run the real EcoMAX.async_setup under the virtual loop, one external event at a time (C16).

Events (also the tokens of the Lean driver op `c16`):
  s            first sensor-data message (device.handle_frame(SensorDataMessage(<bytes>)))
  a:<k>        response of set-up kind k (position in SETUP_FRAME_TYPES) built from payload bytes
  w:<ms>       advance the clock (ignored if it would reach the pending timer)
  t            advance the clock to the pending timer(s) and let them fire
  v:<k.k|->    a regulator-data message whose frame-versions table names the requests of these set-up kinds
Observed per event:  X:<k>:<t ms> request of kind k put on the write queue (sorted by k),
                     L:<t ms>:<e.e.e|-> 'loaded' dispatched, with device.data['frame_errors'] as kind positions
                     V:<k>:<t ms> request of kind k put on the write queue while a frame-versions table was handled
"""
import asyncio
from asyncio import events

from common import use_repo
import vloop
import setm

use_repo()
from pyplumio.const import DeviceType, FrameType  # noqa: E402
from pyplumio.devices.ecomax import EcoMAX, SETUP_FRAME_TYPES  # noqa: E402
from pyplumio.frames.messages import RegulatorDataMessage  # noqa: E402
from pyplumio.frames.responses import (  # noqa: E402
    AlertsResponse,
    MixerParametersResponse,
    PasswordResponse,
    RegulatorDataSchemaResponse,
    UIDResponse,
)
from pyplumio.structures.network_info import NetworkInfo  # noqa: E402

NAMES = [d.provides for d in SETUP_FRAME_TYPES]
REQ_TYPES = [int(d.frame_type) for d in SETUP_FRAME_TYPES]
N = len(NAMES)

# sensor-data tail without thermostats (recorded controller message)
SENSOR_TAIL_NO_THERMOSTATS = bytes.fromhex(
    "0c00000000ff0300000900d012b34101ffffffff02ffffffff03ffffffff04ffffffff05ffffffff0600000000"
    "07ffffffff08ffffffff29002d8000ff00ffffffffffffffffffffffffff01120b3a4b01ffffffff120a48ffff05"
    "ffffffff28000800ffffffff28000800ffffffff28000800ffffffff280008000000a04128000800")


FT = FrameType


def response_for(k, mixers=True, minimal=False):
    """the controller's answer to the set-up request at table position k -- chosen by the request's FRAME TYPE
    (what a controller sees), never by the `provides` name of the table.  `minimal`: the smallest well-formed
    answer (empty alert log, no parameters, no schedules, empty schema, empty password)."""
    E = DeviceType.ECOMAX
    ft = REQ_TYPES[k]
    if ft == FT.REQUEST_UID:
        return UIDResponse(sender=E, message=bytearray(setm.UID_PAYLOAD))
    if ft == FT.REQUEST_REGULATOR_DATA_SCHEMA:   # two blocks / none (then nothing is provided: not an answer for set-up)
        return RegulatorDataSchemaResponse(sender=E, message=bytearray(
            b"\x00\x00" if minimal else bytes.fromhex("0200" "040007" "0a0006")))
    if ft == FT.REQUEST_ECOMAX_PARAMETERS:
        if minimal:
            return setm.EcomaxParametersResponse(sender=E, message=bytearray(b"\x00\x00\x00"))
        return setm.report_frame("ecomax", (10, 0, 100))
    if ft == FT.REQUEST_ALERTS:                  # one alert, still open / empty log (total_alerts only)
        return AlertsResponse(sender=E, message=bytearray(
            b"\x00\x00\x00" if minimal else bytes.fromhex("010001" "1a" "5493382b" "ffffffff")))
    if ft == FT.REQUEST_SCHEDULES:
        if minimal:
            return setm.SchedulesResponse(sender=E, message=bytearray(b"\x00\x00\x00"))
        return setm.report_frame("schedule", (10, 0, 100))
    if ft == FT.REQUEST_MIXER_PARAMETERS:
        if mixers:
            return setm.report_frame("mixer", (10, 0, 100))
        return MixerParametersResponse(sender=E, message=bytearray(b"\x00\x00\x01\x00"))   # no mixer listed
    if ft == FT.REQUEST_THERMOSTAT_PARAMETERS:
        return setm.report_frame("thermostat", (10, 0, 100))
    if ft == FT.REQUEST_PASSWORD:
        return PasswordResponse(sender=E, message=bytearray(b"\x00" if minimal else b"\x040000"))
    return None


class SetupRig:
    def __init__(self, mixers=True, thermostats=True, minimal=()):
        self.mixers = mixers
        self.thermostats = thermostats
        self.minimal = set(minimal)    # kinds answered with their smallest well-formed answer
        self.loop = vloop.new_loop(hold_executor=False)
        events._set_running_loop(self.loop)
        self.queue = setm.StampQueue(self.loop)
        self.device = EcoMAX(self.queue, NetworkInfo())
        self.loaded_seen = False
        self.loaded_at = None
        self.tx = [0] * N
        self.vtx = [0] * N
        self.in_versions = False
        self.dead = False
        self.sensors_seen = False
        self.th_decodable = False    # a thermostat answer was handled after the sensor data told how many there are
        self.extra = []
        self.ignored_waits = 0
        self.last_ignored = False

        async def on_loaded(value):
            self.loaded_at = setm.ms(self.loop.time())

        self.device.subscribe("loaded", on_loaded)
        self.task = self.loop.create_task(self.device.async_setup())
        self.loop.settle()
        self.drain()

    def close(self):
        try:
            for t in asyncio.all_tasks(self.loop):
                t.cancel()
            self.loop.settle()
        finally:
            events._set_running_loop(None)
            asyncio.set_event_loop(None)
            self.loop.close()

    def now(self):
        return setm.ms(self.loop.time())

    def errors(self):
        out = []
        for e in self.device.data.get("frame_errors", []):
            try:
                out.append(str(REQ_TYPES.index(int(e))))
            except (ValueError, TypeError):
                out.append("X" + repr(e).replace(" ", "").replace(":", "").replace(",", "").replace("|", "").replace(";", "")[:20])
        return out

    def drain(self):
        out = []
        while not self.queue.empty():
            f = self.queue.get_nowait()
            t = setm.ms(self.queue.stamps.pop(0))
            ft = int(f.frame_type)
            if ft in REQ_TYPES and int(f.recipient) == int(DeviceType.ECOMAX):
                k = REQ_TYPES.index(ft)
                if self.in_versions:
                    self.vtx[k] += 1
                    out.append((100 + k, t))
                else:
                    self.tx[k] += 1
                    out.append((k, t))
            else:
                self.extra.append(f"{type(f).__name__}@{t}")
                out.append((99, t))
        out = [f"X:{k}:{t}" if k < 100 else f"V:{k - 100}:{t}" for k, t in sorted(out)]
        if not self.loaded_seen and "loaded" in self.device.data:
            self.loaded_seen = True
            errs = self.errors()
            out.append(f"L:{self.loaded_at if self.loaded_at is not None else 'X'}:{'.'.join(errs) if errs else '-'}")
        return out

    def apply(self, ev):
        if self.dead:
            return []
        try:
            return self._apply(ev)
        except RuntimeError as e:
            if "no quiescence" not in str(e):
                raise
            self.dead = True
            self.extra.append("the event loop never comes to rest: some task re-schedules itself for ever")
            return []

    def _apply(self, ev):
        p = ev.split(":")
        loop = self.loop
        if p[0] == "s":
            self.sensors_seen = True
            tail = setm.SENSOR_TAIL if self.thermostats else SENSOR_TAIL_NO_THERMOSTATS
            self.device.handle_frame(setm.SensorDataMessage(sender=DeviceType.ECOMAX, message=bytearray(b"\x00" + tail)))
        elif p[0] == "a":
            k = int(p[1])
            if k < N:
                if REQ_TYPES[k] == FT.REQUEST_THERMOSTAT_PARAMETERS and self.sensors_seen:
                    self.th_decodable = True
                fr = response_for(k, self.mixers, k in self.minimal)
                if fr is not None:
                    self.device.handle_frame(fr)
        elif p[0] == "w":
            target = loop.time() + int(p[1]) / 1000.0
            nt = loop.next_timer()
            if nt is None or target < nt:
                loop.settle(until=target)
            else:
                self.ignored_waits += 1     # would reach the pending timer: not an event (the caller drops it from the history)
                self.last_ignored = True
        elif p[0] == "t":
            nt = loop.next_timer()
            if nt is not None:
                loop.settle(until=nt)
        elif p[0] == "v":
            ks = [] if p[1] == "-" else [int(x) for x in p[1].split(".")]
            table = b"".join(bytes([REQ_TYPES[k], 1, 0]) for k in ks if k < N)
            # [_, _, regdata version 1.0, frame-versions table, regulator data (decoded only if a schema is known)]
            msg = bytes([0x62, 0x64, 0x00, 0x01, len(table) // 3]) + table + bytes(8)
            self.in_versions = True
            self.device.handle_frame(RegulatorDataMessage(sender=DeviceType.ECOMAX, message=bytearray(msg)))
            loop.settle()
            out = self.drain()
            self.in_versions = False
            return out
        else:
            raise ValueError(ev)
        loop.settle()
        return self.drain()

    def content_ok(self, k):
        """the CONTENT of the answer given for kind k (chosen by frame type) can be retrieved from the device"""
        d = self.device.data
        ft = REQ_TYPES[k]
        minimal = k in self.minimal
        try:
            if ft == FT.REQUEST_UID:
                return bool(d["product"].model)
            if ft == FT.REQUEST_REGULATOR_DATA_SCHEMA:
                return len(d["regdata_schema"]) == 2
            if ft == FT.REQUEST_ECOMAX_PARAMETERS:
                return True if minimal else "airflow_power_100" in d
            if ft == FT.REQUEST_ALERTS:
                return d["total_alerts"] == 0 if minimal else (d["total_alerts"] == 1 and len(d["alerts"]) == 1)
            if ft == FT.REQUEST_SCHEDULES:
                return True if minimal else ("heating_schedule_parameter" in d and "heating" in d["schedules"])
            if ft == FT.REQUEST_MIXER_PARAMETERS:
                return "mixer_target_temp" in d["mixers"][0].data if self.mixers else True
            if ft == FT.REQUEST_THERMOSTAT_PARAMETERS:
                # (an answer handled before the first sensor data cannot be decoded: the thermostat count is unknown)
                return "mode" in d["thermostats"][0].data if (self.thermostats and self.th_decodable) else True
            if ft == FT.REQUEST_PASSWORD:
                return d["password"] is None if minimal else d["password"] == "0000"
        except (KeyError, AttributeError, TypeError, IndexError):
            return False
        return True

    def summary(self):
        # "available" = the name the request waits for is in device.data AND what was answered can be read back
        present = "".join("1" if (n in self.device.data and self.content_ok(k)) else "0" for k, n in enumerate(NAMES))
        errs = self.errors()
        return dict(now=self.now(), present=present, tx=list(self.tx), vtx=list(self.vtx),
                    loaded_at=self.loaded_at if self.loaded_seen else None,
                    errors=errs if self.loaded_seen else None,
                    task_done=self.task.done(),
                    task_exc=(type(self.task.exception()).__name__ if self.task.done() and not self.task.cancelled()
                              and self.task.exception() is not None else None),
                    extra=list(self.extra))


def run_history(events_, mixers=True, thermostats=True, minimal=()):
    rig = SetupRig(mixers, thermostats, minimal)
    try:
        groups, times = [], []
        ignored = []
        for i, e in enumerate(events_):
            rig.last_ignored = False
            groups.append(rig.apply(e))
            times.append(rig.now())
            if rig.last_ignored:
                ignored.append(i)
        summ = rig.summary()
        summ["times"] = times
        summ["ignored"] = ignored
        return groups, summ
    finally:
        rig.close()

"""C06 over the LIFETIME of one parameter: several `set()` calls — one after the other or OVERLAPPING — interleaved with
controller reports that MOVE THE BOUNDS (narrower, wider, shifted), retry timers, clock advances and (executor held)
request constructions answered later.  The real Parameter.set / update run under the virtual loop through the C08 rig
(`harness/setm.py`: reports enter as real parameter responses); what is judged is C06's statement, by the Lean judge
`C06L.judge` (driver op `c06ljudge`):

  * every call whose raw value lies outside the bounds the controller reported LAST (and is not a value the library may
    hold) ends at once with ValueError and transmits nothing;
  * every set request on the write queue carries a value within the bounds reported last before it was queued.  An
    out-of-bounds request is open finding F7 only if the check-once machine `SetL` queues the same request in the same
    step (a report handled while the call waits in ITS OWN request construction / retry sleep); anything else — e.g. a
    first attempt that waited behind ANOTHER call and was never re-validated — is a violation.
The whole observation is also compared with the machine (`c08l`).
"""
import random

from common import driver_batch
import setm

# parameters whose display value is the raw value (the scaled classes are C17's and the one-call section's business)
TARGETS = ("ecomax", "mixer", "thermostat", "schedule", "mixer1:0", "thermostat1:0", "schedule:heating_circulation:p",
           "schedule:water_heater_2:p", "ecomax:18")


def _targets():
    return [t for t in TARGETS if not setm.target(t).scaled and not setm.target(t).switch]


def overlap_case(rng, tid, k):
    """the scenario of two clients: A sets a, B sets b while A is unconfirmed, then the controller narrows the range so that
    b is excluded (confirming A, or still reporting the old value), then every timer"""
    lo, hi = rng.randint(0, 10), rng.randint(150, 250)
    v0 = rng.randint(lo + 30, hi - 60)
    a = v0 + rng.randint(1, 10)
    b = rng.randint(a + 20, hi)
    nhi = rng.randint(a + 1, b - 1)
    T = rng.choice([1000, 2000, 1200, 700])
    ra, rb = rng.choice([1, 2, 3]), rng.choice([1, 1, 2, 3])
    hold = k % 3 == 2
    ev = [f"c:{a}:{ra}:{T}"] + (["b"] if hold and rng.random() < 0.7 else [])
    ev += [f"w:{rng.choice([40, 125, 250])}", f"c:{b}:{rb}:{T}"]
    if hold and rng.random() < 0.5:
        ev.append("b")
    ev += [f"w:{rng.choice([55, 125])}", "r:%d:%d:%d" % (rng.choice([a, v0, a, b]), lo, nhi)]
    for _ in range(ra + rb + 3):
        ev.append("t")
        if hold:
            ev += ["b", "b"]
        if rng.random() < 0.2:
            ev.append("r:%d:%d:%d" % (rng.choice([a, v0, b]), lo, rng.choice([nhi, hi])))
    return dict(kind=tid, tracking=k % 2 == 0, hold=hold, late=k % 4 == 1, initial=[v0, lo, hi], start=[0, 1000][k % 2], events=ev,
                label="c06-overlap", fresh=k % 5 == 0)


def random_case(rng, tid, k):
    lo, hi = rng.randint(0, 40), rng.randint(120, 250)
    v0 = rng.randint(lo, hi)
    hold = rng.random() < 0.3
    T = rng.choice([1000, 2000, 700, 1500])
    cur = (v0, lo, hi)
    ev, ncall = [], 0
    for _ in range(rng.randint(4, 14)):
        x = rng.random()
        if x < 0.3 and ncall < 4:
            if ncall:
                ev.append(f"w:{40 + 15 * ncall}")       # keeps the sleeps of different calls apart
            y = rng.random()
            v = (rng.randint(cur[1], cur[2]) if y < 0.55 and cur[1] <= cur[2] else cur[2] + 1 + rng.randint(0, 3) if y < 0.7
                 else max(cur[1] - 1 - rng.randint(0, 3), 0) if y < 0.8 else cur[0] if y < 0.9 else rng.randint(0, 254))
            ev.append(f"c:{min(v, 254)}:{rng.choice([0, 1, 1, 2, 2, 3])}:{T}")
            ncall += 1
        elif x < 0.55:
            y = rng.random()
            val = cur[0] if y < 0.5 else rng.randint(0, 254)
            z = rng.random()
            if z < 0.4:
                nlo, nhi = cur[1], cur[2]
            elif z < 0.7:       # narrower
                nlo = rng.randint(cur[1], max(cur[1], (cur[1] + cur[2]) // 2))
                nhi = rng.randint(nlo, max(nlo, cur[2]))
            else:
                nlo = rng.randint(0, 100)
                nhi = rng.randint(nlo, 254)
            cur = (val, nlo, nhi)
            if cur == (255, 255, 255):
                cur = (254, 0, 255)
            ev.append("r:%d:%d:%d" % cur)
        elif x < 0.8:
            ev.append("t")
        elif x < 0.9 and hold:
            ev.append("b")
        else:
            ev.append(f"w:{rng.choice([125, 250])}")
        if hold and rng.random() < 0.5:
            ev.append("b")
    ev += ["t"] * rng.randint(0, 4)
    return dict(kind=tid, tracking=rng.random() < 0.5, hold=hold, late=rng.random() < 0.4, initial=[v0, lo, hi], start=0, events=ev,
                label="c06-lifetime", fresh=rng.random() < 0.3)


def _run_impl(c):
    return setm.run_history(c["kind"], c["tracking"], c["hold"], tuple(c["initial"]), c["events"], start_ms=c["start"],
                            late=c["late"], fresh=c.get("fresh", False))


def _head(c):
    v, lo, hi = c["initial"]
    return f"{int(c['hold'])} {int(c['tracking'])} {v} {lo} {hi} {c['start']}"


def run_lifetime(ctx, res, only=None):
    quick = ctx["tier"] == "quick"
    rng = random.Random(ctx["seed"] * 7368787 + 29)
    if only is not None:
        cases = [only]
    else:
        tids = _targets()
        cases = []
        for k in range(120 if quick else 1500):
            cases.append(overlap_case(rng, tids[k % len(tids)], k))
        for k in range(250 if quick else 6000):
            cases.append(random_case(rng, rng.choice(tids), k))
    done = []
    for c in cases:
        try:
            groups, now, loc, pend = _run_impl(c)
        except setm.Tie:
            res.count("lifetime:tie-skipped")
            continue
        done.append((c, groups, now, loc, pend))
    lines = []
    for c, groups, now, loc, pend in done:
        items = " ".join(f"{e}={','.join(g) if g else '-'}" for e, g in zip(c["events"], groups))
        lines.append(f"c06ljudge {_head(c)} " + items)
        lines.append(f"c08l {_head(c)} " + " ".join(c["events"]))
    ans = driver_batch(lines)
    f7 = 0
    for i, (c, groups, now, loc, pend) in enumerate(done):
        verdict, model = ans[2 * i], ans[2 * i + 1]
        impl = "|".join(",".join(g) if g else "-" for g in groups) + f";{now};{loc[0]}:{loc[1]}:{loc[2]};{int(pend)}"
        ncalls = sum(1 for e in c["events"] if e.startswith("c:"))
        res.case(("lifetime", c["kind"], c["tracking"], c["hold"], c["late"], tuple(c["initial"]), tuple(c["events"])), nontrivial=ncalls > 0)
        res.count("lifetime:" + c["label"])
        res.count("lifetime:verdict:" + verdict.split("@")[0])
        inp = dict(lifetime=c)
        if verdict == "pass":
            pass
        elif verdict.startswith("f7@"):
            f7 += 1
            if f7 <= 3:
                k, v, lo, hi = verdict[3:].split(":")
                res.fail("spec", dict(inp, step=int(k)), f"every transmitted set request within the last reported bounds [{lo}, {hi}]",
                         dict(transmitted=int(v), observed=impl),
                         "a call transmits its value although a controller report handled while the call was waiting in its own request "
                         "construction / retry sleep moved the bounds (the check-once machine does the same)", finding="F7")
        elif verdict.startswith("violation@"):
            k, v, lo, hi = verdict[len("violation@"):].split(":")
            res.fail("spec", dict(inp, step=int(k)), f"every transmitted set request within the last reported bounds [{lo}, {hi}]; the check-once "
                     f"machine transmits nothing of the kind in this step: {model}",
                     dict(transmitted=int(v), event=c["events"][int(k)], observed=impl),
                     "a set request carries a value outside the bounds the controller reported last, and it is not a transmission the "
                     "call's own request construction / retry timer makes (not F7): the value was checked against bounds that were "
                     "replaced long before the request was queued")
        elif verdict.startswith("refusal@"):
            k = int(verdict[len("refusal@"):])
            res.fail("spec", dict(inp, step=k), "ValueError at once, nothing transmitted", dict(event=c["events"][k], outputs=groups[k], observed=impl),
                     "a call whose value lies outside the last reported bounds did not end with ValueError in its own step")
        else:
            res.fail("corr", inp, "a verdict", verdict, "c06ljudge did not understand the observation")
        if impl != model.rsplit(":", 1)[0]:
            res.fail("corr", inp, model, impl, "lifetime history (overlapping calls, reports moving the bounds) differs from the machine SetL (c08l)")

"""C02 correspondence: what the real frame classes serialise (`Frame.bytes`, the bytes that
reach a fake transport through `FrameWriter.write` and through a running producer) versus the
Lean `encode` / payload-builder models, and the Lean judges evaluated on the implementation's
own bytes: `C02.spec` (envelope) and the positional parsers (payload fields read back at their
documented positions)."""
import json
import random

from common import Result, driver_batch, hexs, load_corpus
import frameimpl as fi

from pyplumio.const import (  # noqa: E402  (frameimpl called use_repo())
    ATTR_COUNT,
    ATTR_DEVICE_INDEX,
    ATTR_INDEX,
    ATTR_OFFSET,
    ATTR_PARAMETER,
    ATTR_SCHEDULE,
    ATTR_SIZE,
    ATTR_START,
    ATTR_SWITCH,
    ATTR_TYPE,
    ATTR_VALUE,
    EncryptionType,
)
from pyplumio.structures.network_info import (  # noqa: E402
    ATTR_NETWORK,
    EthernetParameters,
    NetworkInfo,
    WirelessParameters,
)
from pyplumio.structures.program_version import ATTR_VERSION, VersionInfo  # noqa: E402

ABSENT = "_"

# builder name -> (frame-type code, driver builder, [(driver arg name, data key, default or None)], parser)
REQS = {
    "range_ecomax": (49, "range", [("count", ATTR_COUNT, 255), ("start", ATTR_START, 0)], "pair"),
    "range_mixer": (50, "range", [("count", ATTR_COUNT, 255), ("start", ATTR_START, 0)], "pair"),
    "range_thermostat": (92, "range", [("count", ATTR_COUNT, 255), ("start", ATTR_START, 0)], "pair"),
    "alerts": (61, "alerts", [("start", ATTR_START, 0), ("count", ATTR_COUNT, 10)], "pair"),
    "setecomax": (51, "setecomax", [("index", ATTR_INDEX, None), ("value", ATTR_VALUE, None)], "pair"),
    "setmixer": (52, "setmixer", [("device_index", ATTR_DEVICE_INDEX, None), ("index", ATTR_INDEX, None),
                                  ("value", ATTR_VALUE, None)], "triple"),
    "setthermostat": (93, "setthermostat", [("index", ATTR_INDEX, None), ("value", ATTR_VALUE, None),
                                            ("offset", ATTR_OFFSET, None), ("size", ATTR_SIZE, None)], "thermostat"),
    "control": (59, "control", [("value", ATTR_VALUE, None)], "single"),
    "schedule": (55, "schedule", [("type", ATTR_TYPE, None), ("switch", ATTR_SWITCH, None),
                                  ("parameter", ATTR_PARAMETER, None), ("schedule", ATTR_SCHEDULE, None)], "schedule"),
}


def sched_word(s):
    if s == ABSENT:
        return ABSENT
    if not s:
        return "-"
    return "s" + "/".join(s)


def arg_word(name, v):
    if v == ABSENT:
        return ABSENT
    if v is None:
        return "N"
    if name == "schedule":
        return sched_word(v)
    return str(v)


# ------------------------------------------------------------------ generators

def ip(rng):
    return [rng.choice([0, 1, 10, 127, 192, 255, rng.randrange(256)]) for _ in range(4)]


def gen_env(rng, tier, kinds):
    quick = tier == "quick"
    devs = [0, 69, 81, 86]
    for code, _ in kinds:
        for n in ([0, 1, 2, 245, 246, 247] if quick else [0, 1, 2, 3, 245, 246, 247, 255, 256, 501, 757, 758, 990, 991, 1000]):
            yield dict(t="env", code=code, rc=rng.choice(devs), sd=rng.choice(devs), et=48, ev=5,
                       payload=bytes(rng.randrange(256) for _ in range(n)).hex())
        for rc in devs:
            for sd in devs:
                yield dict(t="env", code=code, rc=rc, sd=sd, et=rng.choice([48, rng.randrange(256)]),
                           ev=rng.choice([5, rng.randrange(256)]),
                           payload=bytes(rng.randrange(256) for _ in range(rng.choice([0, 1, 2, 7]))).hex())
        for _ in range(20 if quick else 400):
            yield dict(t="env", code=code, rc=rng.randrange(256), sd=rng.randrange(256), et=rng.randrange(256),
                       ev=rng.randrange(256),
                       payload=bytes(rng.choice([0, 0x68, 0x16, 0xFF, rng.randrange(256)])
                                     for _ in range(rng.choice([0, 1, 2, 3, rng.randint(0, 40)]))).hex())
    # every address / sender type / version byte at least once per position
    for v in range(256):
        code = rng.choice(kinds)[0]
        yield dict(t="env", code=code, rc=v, sd=255 - v, et=v, ev=(v * 7 + 3) % 256, payload=bytes([v]).hex())
        yield dict(t="env", code=code, rc=255 - v, sd=v, et=(v * 5 + 1) % 256, ev=v, payload="")
    # long payloads: the high length byte, the largest frame the 16-bit length field can carry
    for n in ([300, 5000, 65525] if quick else [300, 767, 1022, 5000, 30000, 65524, 65525]):
        yield dict(t="env", code=rng.choice(kinds)[0], rc=69, sd=86, et=48, ev=5,
                   payload=bytes(rng.randrange(256) for _ in range(n)).hex())


def gen_pairs(rng, tier, name, k1, k2):
    quick = tier == "quick"
    if quick:
        for a in range(256):
            yield dict(t="req", name=name, args={k1: a, k2: rng.randrange(256)})
            yield dict(t="req", name=name, args={k1: rng.randrange(256), k2: a})
            yield dict(t="req", name=name, args={k1: a, k2: a})
    else:
        for a in range(256):
            for b in range(256):
                yield dict(t="req", name=name, args={k1: a, k2: b})
    for bad in (-1, 256, 257, 1000, -300):
        yield dict(t="req", name=name, args={k1: bad, k2: 7})
        yield dict(t="req", name=name, args={k1: 7, k2: bad})
    yield dict(t="req", name=name, args={k1: ABSENT, k2: 3})
    yield dict(t="req", name=name, args={k1: 3, k2: ABSENT})
    yield dict(t="req", name=name, args={k1: ABSENT, k2: ABSENT})


def gen_reqs(rng, tier, schedules):
    quick = tier == "quick"
    for name in ("range_ecomax", "range_mixer", "range_thermostat"):
        yield from gen_pairs(rng, tier, name, "count", "start")
    yield from gen_pairs(rng, tier, "alerts", "start", "count")
    yield from gen_pairs(rng, tier, "setecomax", "index", "value")
    # mixer
    if quick:
        for a in range(256):
            yield dict(t="req", name="setmixer", args=dict(device_index=a, index=rng.randrange(256), value=rng.randrange(256)))
            yield dict(t="req", name="setmixer", args=dict(device_index=rng.randrange(256), index=a, value=rng.randrange(256)))
            yield dict(t="req", name="setmixer", args=dict(device_index=rng.randrange(256), index=rng.randrange(256), value=a))
    else:
        for a in range(256):
            for b in range(256):
                yield dict(t="req", name="setmixer", args=dict(device_index=rng.randrange(10), index=a, value=b))
        for d in range(256):
            for a in range(0, 256, 5):
                yield dict(t="req", name="setmixer", args=dict(device_index=d, index=a, value=rng.randrange(256)))
    for bad in (-1, 256, 70000):
        yield dict(t="req", name="setmixer", args=dict(device_index=bad, index=1, value=2))
        yield dict(t="req", name="setmixer", args=dict(device_index=1, index=bad, value=2))
        yield dict(t="req", name="setmixer", args=dict(device_index=1, index=2, value=bad))
    for miss in ("device_index", "index", "value"):
        a = dict(device_index=1, index=2, value=3)
        a[miss] = ABSENT
        yield dict(t="req", name="setmixer", args=a)
    # thermostat
    def thermo(index, offset, size, value):
        return dict(t="req", name="setthermostat", args=dict(index=index, value=value, offset=offset, size=size))

    def fitting(size):
        top = 256 ** size
        return rng.choice([0, 1, top - 1, rng.randrange(top), rng.randrange(top)])

    if quick:
        for _ in range(1500):
            size = rng.choice([1, 1, 2, 2, 2, 0, 3, 4])
            yield thermo(rng.randrange(256), rng.choice([None, 0, 12, 24, rng.randrange(256)]), size, fitting(size))
        for index in range(0, 256, 3):
            for offset in (0, 255 - index, 256 - index, 12):
                yield thermo(index, offset, rng.choice([1, 2]), rng.randrange(256))
    else:
        for index in range(256):
            for offset in range(256):
                size = 1 + ((index + offset) & 1)
                yield thermo(index, offset, size, fitting(size))
                if index + offset in (254, 255, 256, 257):
                    yield thermo(index, offset, 3 - size, fitting(3 - size))
        for _ in range(20000):
            size = rng.choice([0, 1, 2, 3, 4, 8])
            yield thermo(rng.randrange(256), rng.choice([None, rng.randrange(256)]), size, fitting(size))
    for size in (0, 1, 2, 3):
        for value in (256 ** size, 256 ** size + 1, -1, 256 ** size - 1):
            yield thermo(5, 12, size, value)
    for args in (dict(index=-1, value=1, offset=0, size=1), dict(index=5, value=1, offset=-6, size=1),
                 dict(index=5, value=1, offset=-5, size=1), dict(index=1, value=1, offset=0, size=-1),
                 dict(index=1, value=-1, offset=0, size=-1), dict(index=300, value=1, offset=-100, size=2),
                 dict(index=256, value=1, offset=None, size=1)):
        yield dict(t="req", name="setthermostat", args=args)
    for miss in ("index", "value", "offset", "size"):
        a = dict(index=1, value=2, offset=0, size=1)
        a[miss] = ABSENT
        yield dict(t="req", name="setthermostat", args=a)
    # control
    for v in list(range(256)) + [-1, 256, 1000, ABSENT]:
        yield dict(t="req", name="control", args=dict(value=v))
    # schedules
    def week(f):
        return ["".join("1" if f(d, i) else "0" for i in range(48)) for d in range(7)]

    def sched(t, sw, par, s):
        return dict(t="req", name="schedule", args=dict(type=t, switch=sw, parameter=par, schedule=s))

    singles = [(d, i) for d in range(7) for i in range(48)]
    rng.shuffle(singles)
    per_kind = 9 if quick else 60
    si = 0
    for name in schedules:
        yield sched(name, 0, 0, week(lambda d, i: False))
        yield sched(name, 1, 255, week(lambda d, i: True))
        for _ in range(3 if quick else 2000):
            p = rng.choice([0.5, 0.1, 0.9])
            yield sched(name, rng.randrange(2), rng.randrange(256), week(lambda d, i: rng.random() < p))
        for _ in range(per_kind):
            d0, i0 = singles[si % len(singles)]
            si += 1
            yield sched(name, rng.randrange(256), rng.randrange(256), week(lambda d, i: (d, i) == (d0, i0)))
        yield sched(name, 1, 5, week(lambda d, i: d == 0))            # the whole first day (Sunday)
        yield sched(name, 1, 5, week(lambda d, i: i % 8 == 0))        # the MSB of every byte
    if not quick:
        for d0, i0 in singles:
            yield sched(rng.choice(schedules), 1, 5, week(lambda d, i: (d, i) == (d0, i0)))
    some = schedules[0]
    for s in ([], [""], ["1"], ["1010101"], ["10101010", "1"], ["1" * 47] * 7, ["0" * 49] * 7, ["1" * 48] * 6,
              ["1" * 48] * 8, ["", "1" * 9, "0" * 16]):
        yield sched(some, 1, 2, s)
    z = week(lambda d, i: False)
    for args in ((ABSENT, 1, 2, z), ("no_such_schedule", 1, 2, z), (some, ABSENT, 2, z), (some, 1, ABSENT, z),
                 (some, 1, 2, ABSENT), (some, 256, 2, z), (some, 1, 256, z), (some, -1, 2, z), ("bogus", 256, 2, z),
                 (some, 256, ABSENT, z), (ABSENT, 256, 2, z), (some, 1, 300, ABSENT)):
        yield sched(*args)


def gen_net(rng, tier):
    quick = tier == "quick"
    ssids = ["", "a", "home", "tést-ü", "日本語ネット", "x" * 32, "y" * 255, "é" * 127, "z" * 256, "é" * 128]
    for est in (False, True):
        for wst in (False, True):
            for srv in (False, True):
                for enc in range(5):
                    yield dict(t="net", eth=ip(rng) + ip(rng) + ip(rng), est=est, wlan=ip(rng) + ip(rng) + ip(rng), wst=wst,
                               ssid=rng.choice(ssids[:6]), enc=enc, sig=rng.randrange(256), srv=srv)
    for s in ssids:
        yield dict(t="net", eth=ip(rng) + ip(rng) + ip(rng), est=True, wlan=ip(rng) + ip(rng) + ip(rng), wst=False,
                   ssid=s, enc=4, sig=100, srv=True)
    for sig in range(256):
        yield dict(t="net", eth=ip(rng) + ip(rng) + ip(rng), est=bool(sig & 1), wlan=ip(rng) + ip(rng) + ip(rng),
                   wst=bool(sig & 2), ssid="s%d" % sig, enc=sig % 5, sig=sig, srv=bool(sig & 4))
    for _ in range(300 if quick else 20000):
        n = rng.randint(0, 40)
        ssid = "".join(rng.choice("abcXYZ019 -_éü漢😀") for _ in range(n))
        yield dict(t="net", eth=ip(rng) + ip(rng) + ip(rng), est=rng.random() < 0.5, wlan=ip(rng) + ip(rng) + ip(rng),
                   wst=rng.random() < 0.5, ssid=ssid, enc=rng.randrange(5), sig=rng.randrange(256), srv=rng.random() < 0.5)


def gen_defaults():
    """the responses the library itself sends: built without explicit data"""
    for sd in (86, 0, 69):
        yield dict(t="verdefault", sd=sd)
    yield dict(t="netdefault")


def gen_resp(rng, tier):
    """the answers the library gives to check-device / program-version requests, built the way the
    library builds them: Request.response(...) directly or through EcoMAX.handle_frame -> write queue"""
    quick = tier == "quick"
    for i in range(120 if quick else 6000):
        rq = dict(rq_rc=rng.choice([86, 0, rng.randrange(256)]), rq_sd=rng.choice([69, 69, 81, 0, rng.randrange(256)]),
                  rq_et=rng.choice([48, 48, rng.randrange(256)]), rq_ev=rng.choice([5, 5, rng.randrange(256)]),
                  via=("direct", "device")[i % 2])
        if i % 3 == 0:
            yield dict(t="respver", **rq)
        else:
            yield dict(t="respnet", eth=ip(rng) + ip(rng) + ip(rng), est=rng.random() < 0.5, wlan=ip(rng) + ip(rng) + ip(rng),
                       wst=rng.random() < 0.5, ssid=rng.choice(["", "home", "tést-ü", "x" * 32]), enc=rng.randrange(5),
                       sig=rng.randrange(256), srv=rng.random() < 0.5, **rq)


def gen_ver(rng, tier):
    quick = tier == "quick"

    def num():
        return rng.choice([0, 1, 5, 255, 256, 65535, rng.randrange(65536)])

    def bs(n):
        return bytes(rng.randrange(256) for _ in range(n)).hex()

    for _ in range(400 if quick else 20000):
        yield dict(t="ver", a=num(), b=num(), c=num(), tag=bs(2), sv=rng.randrange(256), dev=bs(2), sig=bs(3),
                   sd=rng.choice([0, 69, 81, 86, rng.randrange(256)]))
    for sv in range(256):
        yield dict(t="ver", a=sv, b=255 - sv, c=sv * 257, tag="ffff", sv=sv, dev="7a00", sig="000000", sd=86)
    # struct "Ns" pads / truncates; out-of-range numbers raise
    for tag, dev, sig in (("", "", ""), ("01", "02", "0304"), ("010203", "040506", "0708090a"), ("ffff", "7a", "00")):
        yield dict(t="ver", a=1, b=2, c=3, tag=tag, dev=dev, sig=sig, sv=5, sd=86)
    for a, b, c, sv in ((65536, 0, 0, 5), (0, 65536, 0, 5), (0, 0, 70000, 5), (1, 2, 3, 256)):
        yield dict(t="ver", a=a, b=b, c=c, tag="ffff", dev="7a00", sig="000000", sv=sv, sd=86)


# ------------------------------------------------------------------ implementation side

def impl_env(case):
    cls = fi.frame_class(case["code"])
    return cls(recipient=fi.addr(case["rc"]), sender=fi.addr(case["sd"]), econet_type=case["et"],
               econet_version=case["ev"], message=bytearray(bytes.fromhex(case["payload"])))


def req_data(case):
    code, _, spec, _ = REQS[case["name"]]
    data = {}
    for argname, key, _ in spec:
        v = case["args"].get(argname, ABSENT)
        if v == ABSENT:
            continue
        if argname == "schedule":
            v = [[c == "1" for c in day] for day in v]
        data[key] = v
    return data


STYLES = ("data", "kwargs", "mixed", "override")


# ------------------------------------------------------------------ requests built by the library's own builders
# A populated device (UID, every ecoMAX / mixer / thermostat parameter, the thermostat profile, all 40 schedules,
# the control switch) is fed from payload bytes; every parameter's `create_request()` and every `Schedule.commit()`
# is then a "req" case whose GIVEN fields are the position the value was put at in the payload (parameter index,
# mixer index, thermostat slot and width, schedule kind) and the value / switch / parameter / bitmap reported there.
_WORLDS = {}
PER_THERMOSTAT = 15


def _rand_triple(rng, size):
    n = 256 ** size
    while True:
        lo, hi = sorted((rng.randrange(n), rng.randrange(n)))
        t = (rng.randint(lo, hi), lo, hi)
        if not all(b == 255 for x in t for b in x.to_bytes(size, "little")):
            return t


def world_layout(spec):
    """what the controller reports, as data (a function of the spec alone)"""
    import paramdev as pd
    rng = random.Random(spec["wseed"])
    t = pd.load_tables()["tables"]
    prod = "P" if spec["product"] == pd.PRODUCT_P else "I"
    erows, mrows, trows = t["ecomax" + prod], t["mixer" + prod], t["thermostat"]
    sizes = [r["size"] for r in trows]
    lay = dict(erows=erows, mrows=mrows, trows=trows, sizes=sizes,
               ecomax=[_rand_triple(rng, 1) for _ in erows],
               mixers=[[_rand_triple(rng, 1) for _ in mrows] for _ in range(spec["mixers"])],
               profile=_rand_triple(rng, 1),
               thermostats=[[_rand_triple(rng, sizes[i]) for i in range(len(trows))] for _ in range(spec["thermostats"])],
               state=rng.choice([0, 3]),
               schedules=[(k, rng.randrange(2), _rand_triple(rng, 1), [[rng.random() < 0.5 for _ in range(48)] for _ in range(7)])
                          for k in range(len(fi.PINNED_SCHEDULES))])
    return lay


def build_world(spec):
    key = json.dumps(spec, sort_keys=True)
    if key in _WORLDS:
        return _WORLDS[key]
    import paramdev as pd
    import vloop
    lay = world_layout(spec)
    loop = vloop.new_loop()
    w = {}

    async def populate():
        world = pd.World()
        w["world"] = world
        await world.uid(spec["product"])
        await world.ecomax_params(pd.ecomax_payload(0, lay["ecomax"]))
        if spec["mixers"]:
            await world.mixer_params(pd.mixer_payload(0, lay["mixers"]))
        T = spec["thermostats"]
        if T:
            per = len(lay["trows"])
            await world.thermostats_available(T)
            await world.thermostat_params(pd.thermostat_payload(0, per * T + (1 if T > 1 else 0), lay["profile"], lay["thermostats"], lay["sizes"]))
        await world.schedules(pd.schedules_payload(lay["schedules"]))
        await world.state(lay["state"])
        world.drain()

    loop.run_until_complete(populate())
    _WORLDS[key] = (w["world"], loop, lay)
    return _WORLDS[key]


def week_words(bits):
    return ["".join("1" if b else "0" for b in day) for day in bits]


def gen_routes(spec):
    """the cases of one populated device: (given fields, how the library is asked to build the request)"""
    lay = world_layout(spec)

    def case(name, args, label, pname, how="create_request"):
        return dict(t="req", name=name, args=args, route=dict(world=spec, label=label, pname=pname, how=how))

    for i, (row, tr) in enumerate(zip(lay["erows"], lay["ecomax"])):
        yield case("setecomax", dict(index=i, value=tr[0]), "ecomax", row["name"])
    for m, trs in enumerate(lay["mixers"]):
        for i, (row, tr) in enumerate(zip(lay["mrows"], trs)):
            yield case("setmixer", dict(device_index=m, index=i, value=tr[0]), f"mixer{m}", row["name"])
    per = len(lay["trows"])
    for th, trs in enumerate(lay["thermostats"]):
        for i, (row, tr) in enumerate(zip(lay["trows"], trs)):
            yield case("setthermostat", dict(index=i + 1, value=tr[0], offset=th * per, size=lay["sizes"][i]), f"thermostat{th}", row["name"])
    if spec["thermostats"]:
        yield case("setthermostat", dict(index=0, value=lay["profile"][0], offset=0, size=1), "ecomax", "thermostat_profile")
        yield case("range_ecomax", {}, "ecomax", "thermostat_profile", how="refresh")
    yield case("control", dict(value=int(lay["state"] != 0)), "ecomax", "ecomax_control")
    yield case("range_ecomax", {}, "ecomax", "ecomax_control", how="refresh")
    # the re-read request of a parameter (Parameter.create_refresh_request / force_refresh): a range request that was
    # given no start / count, i.e. the documented defaults
    for rows, name, labels in ((lay["erows"], "range_ecomax", ["ecomax"]),
                               (lay["mrows"], "range_mixer", [f"mixer{m}" for m in range(spec["mixers"])]),
                               (lay["trows"], "range_thermostat", [f"thermostat{t}" for t in range(spec["thermostats"])])):
        for label in labels:
            for i in sorted({0, len(rows) // 2, len(rows) - 1}):
                yield case(name, {}, label, rows[i]["name"], how="refresh")
    for k, sw, par, bits in lay["schedules"]:
        kind = fi.PINNED_SCHEDULES[k]
        args = dict(type=kind, switch=sw, parameter=par[0], schedule=week_words(bits))
        yield case("schedule", dict(args), "ecomax", f"{kind}_schedule_switch")
        yield case("schedule", dict(args), "ecomax", f"{kind}_schedule_parameter")
        yield case("schedule", dict(args), "ecomax", kind, how="commit")


def impl_route(case):
    r = case["route"]
    world, loop, _ = build_world(r["world"])
    dev = world.device(r["label"])
    if r["how"] == "commit":
        sched = dev.data["schedules"][r["pname"]]
        world.drain()
        loop.run_until_complete(sched.commit())
        got = world.drain()
        if len(got) != 1:
            raise LookupError(f"{len(got)} frames queued by one commit()")
        return got[0]
    if r["how"] == "refresh":
        return loop.run_until_complete(dev.data[r["pname"]].create_refresh_request())
    return loop.run_until_complete(dev.data[r["pname"]].create_request())


def impl_req(case):
    """the fields reach the frame as a data dict, as keyword arguments, split between the two, or as keyword
    arguments OVER a template dict that holds other values for the same keys (the keyword wins); or the request
    is built by the library's own builder (`route`)"""
    if case.get("route"):
        return impl_route(case)
    code = REQS[case["name"]][0]
    cls = fi.frame_class(code)
    data = req_data(case)
    style = case.get("style", "data")
    keys = sorted(data)
    if style == "data" or not keys:
        return cls(recipient=fi.addr(69), data=data)
    if style == "kwargs":
        return cls(recipient=fi.addr(69), **data)
    if style == "mixed":
        return cls(recipient=fi.addr(69), data={k: data[k] for k in keys[::2]}, **{k: data[k] for k in keys[1::2]})
    stale = {k: ((v + 1) % 256 if isinstance(v, int) and not isinstance(v, bool) else v) for k, v in data.items()}
    return cls(recipient=fi.addr(69), data=stale, **{k: data[k] for k in keys})


def dotted(b):
    return ".".join(str(x) for x in b)


def impl_net(case):
    e, w = case["eth"], case["wlan"]
    n = NetworkInfo(
        eth=EthernetParameters(ip=dotted(e[0:4]), netmask=dotted(e[4:8]), gateway=dotted(e[8:12]), status=case["est"]),
        wlan=WirelessParameters(ip=dotted(w[0:4]), netmask=dotted(w[4:8]), gateway=dotted(w[8:12]), status=case["wst"],
                                ssid=case["ssid"], encryption=EncryptionType(case["enc"]), signal_quality=case["sig"]),
        server_status=case["srv"])
    return fi.frame_class(176)(recipient=fi.addr(69), data={ATTR_NETWORK: n})


def impl_ver(case):
    v = VersionInfo(software=f"{case['a']}.{case['b']}.{case['c']}", struct_tag=bytes.fromhex(case["tag"]),
                    struct_version=case["sv"], device_id=bytes.fromhex(case["dev"]),
                    processor_signature=bytes.fromhex(case["sig"]))
    return fi.frame_class(192)(recipient=fi.addr(69), sender=fi.addr(case["sd"]), data={ATTR_VERSION: v})


def impl_verdefault(case):
    return fi.frame_class(192)(recipient=fi.addr(69), sender=fi.addr(case["sd"]))


def impl_netdefault(case):
    return fi.frame_class(176)(recipient=fi.addr(69))


def net_info(case):
    e, w = case["eth"], case["wlan"]
    return NetworkInfo(
        eth=EthernetParameters(ip=dotted(e[0:4]), netmask=dotted(e[4:8]), gateway=dotted(e[8:12]), status=case["est"]),
        wlan=WirelessParameters(ip=dotted(w[0:4]), netmask=dotted(w[4:8]), gateway=dotted(w[8:12]), status=case["wst"],
                                ssid=case["ssid"], encryption=EncryptionType(case["enc"]), signal_quality=case["sig"]),
        server_status=case["srv"])


def impl_resp(case):
    """answer to a request with an arbitrary header: recipient is the asker, everything else the library's own"""
    import asyncio
    code = 48 if case["t"] == "respnet" else 64
    rq = fi.frame_class(code)(recipient=fi.addr(case["rq_rc"]), sender=fi.addr(case["rq_sd"]),
                              econet_type=case["rq_et"], econet_version=case["rq_ev"])
    network = net_info(case) if case["t"] == "respnet" else NetworkInfo()
    if case["via"] == "direct":
        return rq.response(data={ATTR_NETWORK: network})
    from pyplumio.devices.ecomax import EcoMAX

    async def through_device():
        queue = asyncio.Queue()
        dev = EcoMAX(queue, network=network)
        dev.handle_frame(rq)
        await asyncio.sleep(0)
        got = [queue.get_nowait() for _ in range(queue.qsize())]
        await dev.shutdown()
        return got

    loop = asyncio.new_event_loop()
    try:
        out = loop.run_until_complete(through_device())
    finally:
        loop.close()
    if len(out) != 1:
        raise LookupError(f"{len(out)} frames queued in answer to one request")
    return out[0]


def default_version_case(case):
    """VersionInfo() as a `ver` case: the numeric components of the package version, the documented constants"""
    from pyplumio._version import __version_tuple__
    nums = [x if isinstance(x, int) else 0 for x in (tuple(__version_tuple__) + (0, 0, 0))[:3]]
    return dict(t="ver", a=nums[0], b=nums[1], c=nums[2], tag="ffff", sv=5, dev="7a00", sig="000000", sd=case["sd"])


DEFAULT_NET = dict(t="net", eth=[0, 0, 0, 0, 255, 255, 255, 0, 0, 0, 0, 0], est=True, wlan=[0, 0, 0, 0, 255, 255, 255, 0, 0, 0, 0, 0],
                   wst=True, ssid="", enc=1, sig=100, srv=True)

BUILD = dict(env=impl_env, req=impl_req, net=impl_net, ver=impl_ver, verdefault=impl_verdefault, netdefault=impl_netdefault,
             respnet=impl_resp, respver=impl_resp)


def net_words(case):
    return (f"{bytes(case['eth']).hex()} {int(case['est'])} {bytes(case['wlan']).hex()} {int(case['wst'])} "
            f"{hexs(case['ssid'].encode())} {case['enc']} {case['sig']} {int(case['srv'])}")


def ver_words(case):
    return f"{case['a']} {case['b']} {case['c']} {hexs(bytes.fromhex(case['tag']))} {case['sv']} " \
           f"{hexs(bytes.fromhex(case['dev']))} {hexs(bytes.fromhex(case['sig']))}"


def model_line(case):
    t = case["t"]
    if t == "env":
        return f"encode {case['code']} {case['rc']} {case['sd']} {case['et']} {case['ev']} {hexs(bytes.fromhex(case['payload']))}"
    if t == "req":
        _, builder, spec, _ = REQS[case["name"]]
        return "req " + builder + " " + " ".join(arg_word(a, case["args"].get(a, ABSENT)) for a, _, _ in spec)
    if t in ("net", "respnet"):
        return "net enc " + net_words(case)
    if t == "netdefault":
        return "net enc " + net_words(DEFAULT_NET)
    if t == "verdefault":
        case = default_version_case(case)
    if t == "respver":
        case = default_version_case(dict(sd=86))
    return "ver enc " + ver_words(case) + f" {case['sd']}"


def expected_fields(case):
    """what the documented layout must read back from the payload: the given fields"""
    t = case["t"]
    if t == "req":
        _, _, spec, parser = REQS[case["name"]]
        a = {n: case["args"].get(n, ABSENT) for n, _, _ in spec}
        if parser in ("pair", "triple", "single"):
            vals = []
            for n, _, default in spec:
                v = a[n]
                if v == ABSENT:
                    if default is None:
                        return None
                    v = default
                vals.append(v)
            return " ".join(str(v) for v in vals)
        if parser == "thermostat":
            if ABSENT in a.values():
                return None
            return f"{a['index'] + (a['offset'] or 0)} {a['size']} {a['value']}"
        if parser == "schedule":
            if ABSENT in a.values() or a["type"] not in SCHEDULES:
                return None
            if len(a["schedule"]) != 7 or any(len(d) != 48 for d in a["schedule"]):
                return None  # the positional layout is defined for a 7 x 48 week
            return f"{SCHEDULES.index(a['type'])} {a['switch']} {a['parameter']} {sched_word(a['schedule'])}"
    if t in ("net", "respnet"):
        return net_words(case)
    if t == "netdefault":
        return net_words(DEFAULT_NET)
    if t == "verdefault":
        return ver_words(default_version_case(case))
    if t == "respver":
        return ver_words(default_version_case(dict(sd=86)))
    if t == "ver":
        if (len(case["tag"]), len(case["dev"]), len(case["sig"])) != (4, 4, 6):
            return None
        return ver_words(case)
    return None


def admissible(case):
    """the statement's admissible field values: the request must then be serialised"""
    t = case["t"]
    if t in ("env", "verdefault", "netdefault", "respnet", "respver"):
        return True
    if t == "req":
        a = case["args"]
        name = case["name"]
        if any(v == ABSENT for v in a.values()):
            return False
        if name == "setthermostat":
            slot = a["index"] + (a["offset"] or 0)
            return 0 <= slot <= 255 and a["size"] in (1, 2) and 0 <= a["value"] < 256 ** a["size"]
        if name == "schedule":
            return (a["type"] in SCHEDULES and 0 <= a["switch"] <= 255 and 0 <= a["parameter"] <= 255
                    and len(a["schedule"]) == 7 and all(len(d) == 48 for d in a["schedule"]))
        return all(0 <= v <= 255 for v in a.values())
    if t == "net":
        return len(case["ssid"].encode()) <= 255
    if t == "ver":
        return (max(case["a"], case["b"], case["c"]) < 65536 and case["sv"] < 256
                and (len(case["tag"]), len(case["dev"]), len(case["sig"])) == (4, 4, 6))
    return False


SCHEDULES = []


def evaluate(cases, res, rng, producer_sample=150):
    global SCHEDULES
    SCHEDULES = fi.PINNED_SCHEDULES
    # ---- implementation: build, .message / .bytes, FrameWriter path
    impl = []
    frames_for_writer = []
    for case in cases:
        o = dict(err=None, message=None, bytes=None, frame=None)
        try:
            f = BUILD[case["t"]](case)
            o["frame"] = f
            o["message"] = bytes(f.message)
            o["bytes"] = f.bytes
        except Exception as e:  # noqa: BLE001
            o["err"] = fi.err_class(e) if case["t"] == "req" else ("raises:" + type(e).__name__ if case["t"] != "env" else "X:" + type(e).__name__)
        impl.append(o)
        if o["bytes"] is not None:
            # a fresh, unread frame object for the writer path
            frames_for_writer.append((len(impl) - 1, BUILD[case["t"]](case)))
    written = fi.via_writer([f for _, f in frames_for_writer])
    for (i, _), w in zip(frames_for_writer, written):
        impl[i]["written"] = w
    # producer path on a sample
    ok_idx = [i for i, o in enumerate(impl) if o["bytes"] is not None]
    sample = ok_idx if len(ok_idx) <= producer_sample else rng.sample(ok_idx, producer_sample)
    if sample:
        chunks = fi.via_producer([BUILD[cases[i]["t"]](cases[i]) for i in sample])
        res.extra["producer_frames"] = len(sample)
        if len(chunks) != len(sample) + 1:
            res.fail("corr", dict(cases=[cases[i] for i in sample[:3]]), len(sample) + 1, len(chunks),
                     "producer wrote a different number of frames than were queued")
        else:
            for i, ch in zip(sample, chunks[1:]):
                impl[i]["produced"] = ch
    # ---- model + judges
    lines = [model_line(c) for c in cases]
    judge = []
    judge_at = []
    for ci, (case, o) in enumerate(zip(cases, impl)):
        if o["bytes"] is None:
            continue
        code = case["code"] if case["t"] == "env" else (REQS[case["name"]][0] if case["t"] == "req" else (176 if case["t"] in ("net", "netdefault", "respnet") else 192))
        rc, sd, et, ev = ((case["rc"], case["sd"], case["et"], case["ev"]) if case["t"] == "env"
                          else (case["rq_sd"], 86, 48, 5) if case["t"].startswith("resp")
                          else (69, case.get("sd", 86), 48, 5))
        pl = bytes.fromhex(case["payload"]) if case["t"] == "env" else o["message"]
        judge.append(f"c02judge {hexs(o['bytes'])} {code} {rc} {sd} {et} {ev} {hexs(pl)}")
        judge_at.append((ci, "envelope"))
        if case["t"] == "req":
            judge.append(f"parse {REQS[case['name']][3]} {hexs(o['message'])}")
            judge_at.append((ci, "fields"))
        elif case["t"] in ("net", "netdefault", "respnet"):
            judge.append(f"net dec {hexs(o['message'])}")
            judge_at.append((ci, "fields"))
        elif case["t"] in ("ver", "verdefault", "respver"):
            judge.append(f"ver dec {hexs(o['message'])}")
            judge_at.append((ci, "fields"))
    resp_at = [ci for ci, (case, o) in enumerate(zip(cases, impl)) if case["t"].startswith("resp") and o["bytes"] is not None]
    resp_lines = [f"respond {48 if cases[ci]['t'] == 'respnet' else 64} {cases[ci]['rq_rc']} {cases[ci]['rq_sd']} {cases[ci]['rq_et']} "
                  f"{cases[ci]['rq_ev']} {hexs(impl[ci]['message'])}" for ci in resp_at]
    answers = driver_batch(lines + judge + resp_lines)
    model = answers[:len(lines)]
    verdicts = answers[len(lines):len(lines) + len(judge)]
    for ci, ans in zip(resp_at, answers[len(lines) + len(judge):]):
        if ans != hexs(impl[ci]["bytes"]):
            res.fail("corr", cases[ci], ans, impl[ci]["bytes"].hex(), "answer model (Resp.respond) and Request.response() differ")
    spec_failed = set()
    for (ci, what), v in zip(judge_at, verdicts):
        case, o = cases[ci], impl[ci]
        if what == "envelope":
            if v != "pass":
                spec_failed.add(ci)
                res.fail("spec", case, "start 0x68, LE16 total length, addressing, versions, kind code, payload, XOR checksum, 0x16",
                         dict(bytes=o["bytes"].hex(), judge=v), "envelope: C02.spec fails on Frame.bytes")
        else:
            exp = expected_fields(case)
            if exp is not None and v != exp:
                spec_failed.add(ci)
                res.fail("spec", case, exp, dict(payload=o["message"].hex(), read_back=v),
                         "payload does not hold exactly the given fields at their documented positions")
    for ci, (case, o, m) in enumerate(zip(cases, impl, model)):
        t = case["t"]
        res.case(json.dumps(case, sort_keys=True), True)
        res.count("type:" + t + (":" + case["name"] if t == "req" else ""))
        if t == "req":
            r = case.get("route")
            res.count("built by:" + ("the frame class from given fields" if not r else
                                     "Schedule.commit()" if r["how"] == "commit" else
                                     "Parameter.create_refresh_request()" if r["how"] == "refresh" else
                                     "Parameter.create_request() of " + (type(o["frame"]).__name__ if o["frame"] is not None else "?")))
        if m == "bad-op":
            res.fail("corr", case, "a model answer", "bad-op", "driver rejected the request line")
            continue
        # model answer -> (status, payload or frame bytes)
        if t == "env":
            m_ok, m_val = True, m
        elif t == "req":
            m_ok, m_val = (True, m[3:]) if m.startswith("ok ") else (False, m[4:])
        else:
            m_ok, m_val = (m != "none"), m
        i_ok = o["err"] is None
        res.count(f"outcome:{t}:" + ("ok" if i_ok else str(o["err"]).split(":")[0]))
        if admissible(case) and not i_ok and ci not in spec_failed:
            res.fail("spec", case, "a serialised frame", dict(raised=o["err"]), "admissible field values are not serialised")
            continue
        if i_ok != m_ok:
            res.fail("corr", case, m, dict(impl=o["err"] or o["message"].hex()), "model and implementation disagree on success")
            continue
        if not i_ok:
            if t == "req" and o["err"] != m_val:
                res.fail("corr", case, m, o["err"], "model and implementation raise different error classes")
            continue
        got = o["bytes"] if t == "env" else o["message"]
        if hexs(got) != m_val:
            res.fail("corr", case, m_val, got.hex(), "model bytes and implementation bytes differ")
        for path in ("written", "produced"):
            if path in o and o[path] != o["bytes"]:
                kind = "spec" if ci not in spec_failed else "corr"
                res.fail(kind, case, o["bytes"].hex(),
                         {path: o[path].hex() if isinstance(o[path], bytes) else repr(o[path])},
                         f"bytes reaching the transport ({path}) differ from Frame.bytes")
    return impl, model


# ------------------------------------------------------------------ FrameWriter model

class ScriptedWriter:
    """stands in for asyncio.StreamWriter: FrameWriter only calls write / drain / close / wait_closed"""

    def __init__(self, drain="ok", close="ok", wait="ok"):
        self.log = []
        self.b = dict(drain=drain, close=close, wait=wait)

    @staticmethod
    def _raise(kind):
        import asyncio
        if kind == "os":
            raise ConnectionResetError("scripted")
        if kind == "timeout":
            raise asyncio.TimeoutError()
        if kind == "other":
            raise RuntimeError("scripted")

    async def _maybe_hang(self, kind):
        import asyncio
        if kind == "hang":          # never completes: the @timeout decorator must turn it into TimeoutError
            await asyncio.get_running_loop().create_future()
        self._raise(kind)

    def write(self, data):
        self.log.append("write:" + hexs(data))

    async def drain(self):
        self.log.append("drain")
        await self._maybe_hang(self.b["drain"])

    def close(self):
        self.log.append("close")
        self._raise(self.b["close"])

    async def wait_closed(self):
        self.log.append("wait_closed")
        await self._maybe_hang(self.b["wait"])


def _exc_word(e):
    import asyncio
    if isinstance(e, asyncio.TimeoutError):
        return "raised:timeout"
    if isinstance(e, OSError):
        return "raised:os"
    return "raised:other"


def gen_writer(rng, tier):
    for d in ("ok", "os", "timeout", "hang", "other"):
        for _ in range(3 if tier == "quick" else 40):
            yield dict(t="writer", op="write", drain=d, code=rng.choice([25, 51, 53, 176]), payload=bytes(rng.randrange(256) for _ in range(rng.randint(0, 9))).hex(), et=48)
    yield dict(t="writer", op="write", drain="ok", code=25, payload="", et=300)     # frame.bytes raises: nothing is written
    for c in ("ok", "os", "timeout", "other"):
        for w in ("ok", "os", "timeout", "hang", "other"):
            yield dict(t="writer", op="close", close=c, wait=w)


def writer_checks(res, cases):
    import vloop
    from pyplumio.stream import FrameWriter

    async def one(case):
        if case["op"] == "write":
            w = ScriptedWriter(drain=case["drain"])
            f = fi.frame_class(case["code"])(recipient=fi.addr(69), econet_type=case["et"], message=bytearray(bytes.fromhex(case["payload"])))
            try:
                expect = f.bytes
            except Exception:  # noqa: BLE001
                expect = None
            try:
                await FrameWriter(w).write(f)
                r = "ok"
            except Exception as e:  # noqa: BLE001
                r = _exc_word(e) if expect is not None else "frame:E:struct"
            return w.log, r, expect
        w = ScriptedWriter(close=case["close"], wait=case["wait"])
        try:
            await FrameWriter(w).close()
            r = "ok"
        except Exception as e:  # noqa: BLE001
            r = _exc_word(e)
        return w.log, r, None

    norm = lambda k: "timeout" if k == "hang" else k  # noqa: E731  (a call that never returns times out)
    obs = [vloop.run(one(c)) for c in cases]
    lines = []
    for c, (log, r, expect) in zip(cases, obs):
        if c["op"] == "write":
            lines.append(f"fw write {'E' if expect is None else hexs(expect)} {norm(c['drain'])}")
        else:
            lines.append(f"fw close {norm(c['close'])} {norm(c['wait'])}")
    for c, (log, r, expect), m in zip(cases, obs, driver_batch(lines)):
        res.case(json.dumps(c, sort_keys=True), True)
        res.count("type:writer:" + c["op"])
        got = (",".join(log) if log else "-") + " ; " + r
        if c["op"] == "write" and expect is not None and log[:1] != ["write:" + hexs(expect)]:
            res.fail("spec", c, "write:" + hexs(expect), log, "bytes handed to the stream writer differ from Frame.bytes")
        elif got != m:
            res.fail("corr", c, m, got, "FrameWriter model and FrameWriter differ (calls on the stream writer ; outcome)")


# ------------------------------------------------------------------ the SAME frame object written / queued several times

def gen_rewrite(rng, n):
    """frame-object scenarios (reuse.gen_scenario) whose serialisations happen on the transmit path: the same object is
    handed to one FrameWriter (or put on the write queue of a running AsyncProtocol) again and again, with data / message /
    header fields changed in between -- and unchanged, as the library's own retries do"""
    import reuse
    from pyplumio.const import DeviceType
    out = []
    while len(out) < n:
        sc = reuse.gen_scenario(rng)
        cls = reuse._BY_NAME[sc["cls"]]
        route = rng.choice(["writer", "writer", "queue"])
        steps = [["write"] if st[0] == "read" and rng.random() < 0.8 else st for st in sc["steps"]]
        # ... and at least once: write, one or two changes (or none: a retry), write
        change = []
        for _ in range(rng.choice([0, 1, 1, 2])):
            r = rng.random()
            if r < 0.4:
                change.append(["set_new", reuse._rand_jdata(rng, cls)])
            elif r < 0.55:
                change.append(["set_message", reuse._some_message(rng, cls, sc["header"])])
            else:
                field = rng.choice(["recipient", "sender", "econet_type", "econet_version"])
                v = int(rng.choice(list(DeviceType))) if field in ("recipient", "sender") else rng.choice([48, 5, 0, 255, rng.randrange(256)])
                change.append(["set_header", field, v])
        steps = steps + [["write"]] + change + [["write"]]
        sc = dict(sc, steps=steps, route=route)
        if route == "queue":
            # the producer serialises inside its loop: keep to header values a frame can be packed with and to data the encoder takes
            hv = [st[2] for st in steps if st[0] == "set_header"] + list(sc["header"].values())
            if any(not 0 <= v <= 255 for v in hv):
                continue
        out.append(sc)
    return out


class _RecordingWriter:
    def __init__(self):
        self.chunks = []

    def write(self, data):
        self.chunks.append(bytes(data))

    async def drain(self):
        pass

    def close(self):
        pass

    async def wait_closed(self):
        pass


def rewrite_checks(res, scenarios):
    import asyncio
    import reuse
    import vloop
    from pyplumio.protocol import AsyncProtocol
    from pyplumio.stream import FrameWriter

    for route in ("writer", "queue"):
        scs = [sc for sc in scenarios if sc.get("route", "writer") == route]
        if not scs:
            continue
        loop = vloop.new_loop()
        try:
            rec = _RecordingWriter()
            if route == "writer":
                fw = FrameWriter(rec)

                def writer(f, fw=fw, rec=rec):
                    n = len(rec.chunks)
                    loop.run_until_complete(fw.write(f))
                    return b"".join(rec.chunks[n:])
            else:
                proto = AsyncProtocol(consumers_count=0)
                sr = asyncio.StreamReader(loop=loop)
                loop.run_until_complete(_establish(proto, sr, rec))
                import framegen as fg
                foreign = fg.mk(0x19, b"", rcpt=0x45, sender=0x56)

                async def cycle(f, n):
                    proto._queues.write.put_nowait(f)
                    sr.feed_data(foreign)      # the producer sends one queued frame per received frame
                    for _ in range(200):
                        await asyncio.sleep(0)
                        if len(rec.chunks) > n and not len(sr._buffer):
                            break

                def writer(f, rec=rec):
                    n = len(rec.chunks)
                    loop.run_until_complete(cycle(f, n))
                    if len(rec.chunks) == n:
                        # nothing reached the transport: right exactly when serialising the frame raises (the producer logs
                        # it and goes on); the exception is what the model states for `bytes` at this moment
                        f.bytes  # noqa: B018
                    prod = [t for t in proto.tasks if t.get_name() == "frame_producer_task"]
                    if not prod or prod[0].done():
                        raise RuntimeError("producer loop ended")
                    return b"".join(rec.chunks[n:])
            reuse.frame_scenarios(res, scs, writer=writer)
            res.count("rewrite:" + route, len(scs))
        finally:
            try:
                pending = [t for t in asyncio.all_tasks(loop) if not t.done()]
                for t in pending:
                    t.cancel()
                if pending:
                    loop.run_until_complete(asyncio.gather(*pending, return_exceptions=True))
            finally:
                asyncio.set_event_loop(None)
                loop.close()


async def _establish(proto, sr, rec):
    import asyncio
    proto.connection_established(sr, rec)
    for _ in range(50):
        await asyncio.sleep(0)
    rec.chunks.clear()       # the producer's own StartMasterRequest


def order_failures(res):
    """concrete failing inputs first, smallest input first (fewest set schedule slots, shortest text)"""
    def size(f):
        txt = json.dumps(f.get("input"), sort_keys=True)
        return (f["kind"] != "spec", txt.count("1") if '"schedule"' in txt else 0, len(txt))
    res.failures.sort(key=size)


def run(ctx):
    rng = random.Random(ctx["seed"] * 7919 + 2)
    res = Result("C02")
    import pycode  # translator validation: generated Lean definitions vs the real functions (harness/pycode.py)
    pycode.check(res, random.Random(ctx["seed"] * 7919 + 77), ctx["tier"], ["requests", "schedule"])
    import pycode_types  # translated frame object (Frame getters / setters / length / header / bytes) vs a real Frame subclass
    pycode_types.check(res, random.Random(ctx["seed"] * 7919 + 79), ctx["tier"], ["net", "frameobj"])
    tier = ctx["tier"]
    res.rule = ("envelope: 33 kinds x DeviceType and raw 0..255 addresses x sender-type/version bytes x payload sizes incl. the "
                "256/65535 length boundaries; requests: every parameterised request with each field over 0..255 "
                "(thorough: all 256^2 pairs), out-of-range and absent fields, thermostat index/offset/size/value incl. error "
                "branches, 40 schedule kinds x zero/full/random/single-bit weeks and ragged shapes; device-available and "
                "program-version payloads. Each frame through .bytes and FrameWriter.write, a sample through the producer. "
                "distinct = distinct argument tuples")
    t = fi.tables()
    kinds = fi.kinds()
    cases = []
    corpus_scenarios = []
    for fn, ln in load_corpus("C02"):
        c = json.loads(ln)
        (corpus_scenarios if c.get("t") == "frame_reuse" else cases).append(c)
    cases.extend(gen_env(rng, tier, kinds))
    cases.extend(gen_reqs(rng, tier, fi.PINNED_SCHEDULES))
    cases.extend(gen_net(rng, tier))
    cases.extend(gen_ver(rng, tier))
    k = 0
    for c in cases:
        if c["t"] == "req":
            c["style"] = STYLES[k % 7 % 4] if k % 7 < 4 else "data"
            k += 1
    cases.extend(gen_defaults())
    cases.extend(gen_resp(rng, tier))
    import paramdev as pd
    specs = [dict(product=pd.PRODUCT_P, mixers=2, thermostats=2, wseed=ctx["seed"] * 11 + 1),
             dict(product=pd.PRODUCT_I, mixers=3, thermostats=1, wseed=ctx["seed"] * 11 + 2)]
    if tier != "quick":
        specs += [dict(product=pd.PRODUCT_P, mixers=5, thermostats=3, wseed=ctx["seed"] * 11 + 3),
                  dict(product=pd.PRODUCT_I, mixers=1, thermostats=3, wseed=ctx["seed"] * 11 + 4),
                  dict(product=pd.PRODUCT_P, mixers=0, thermostats=0, wseed=ctx["seed"] * 11 + 5),
                  dict(product=pd.PRODUCT_P, mixers=4, thermostats=2, wseed=ctx["seed"] * 11 + 6)]
    for spec in specs:
        cases.extend(gen_routes(spec))
    if ctx.get("max_cases"):
        cases = cases[:ctx["max_cases"]]
    impl, model = evaluate(cases, res, rng, producer_sample=150 if tier == "quick" else 2000)
    seen = set()
    for case, o, m in zip(cases, impl, model):
        key = case["t"] + case.get("name", "")
        if key not in seen and o["bytes"] is not None and len(o["bytes"]) < 80:
            seen.add(key)
            res.sample(dict(case=case, bytes=o["bytes"].hex(), model=m), limit=14)
    res.extra["kinds"] = len(kinds)
    res.extra["exhaustive_pairs"] = tier == "thorough"
    res.notes.append("thorough tier enumerates all 256^2 (field, field) pairs of every two-field request and all "
                     "(index, offset) pairs of the thermostat request; the envelope space itself is covered by the theorem")
    writer_checks(res, list(gen_writer(rng, tier)))
    import reuse
    reuse.frame_scenarios(res, corpus_scenarios)
    reuse.frame_reuse(res, random.Random(ctx["seed"] * 31 + 202), 600 if tier == "quick" else 20000)
    rewrite_checks(res, [c for c in corpus_scenarios if c.get("route")] + gen_rewrite(random.Random(ctx["seed"] * 31 + 203), 500 if tier == "quick" else 15000))
    res.notes.append("the same frame object written through one FrameWriter / queued on a running AsyncProtocol several times with data, message and "
                     "header fields changed (or not) in between: every write is compared with the frame-object model's `bytes` at that moment")
    res.notes.append("object re-use: frames serialised, updated through the data / message setters and serialised again are compared with a fresh frame built from the final content")
    # the kind dimension: all FrameType members by reflection x data-dict / message variants (harness/c02_kinds.py)
    from common import Parts
    import c02_kinds
    parts = Parts(res)
    parts.run("kinds", c02_kinds.run_part, res, random.Random(ctx["seed"] * 31 + 204), tier)
    parts.finish()
    order_failures(res)
    return res


def replay(ctx):
    r = ctx["replay"]
    f = r.get("failure") or r.get("first_difference")
    res = Result("C02")
    res.rule = "replay of one recorded case"
    case = f["input"]
    if case.get("t") in ("kind", "kinds-table", "kinds-reflection") or case.get("part") == "kinds":
        import c02_kinds
        c02_kinds.replay_case(res, case)
        return res
    if case.get("t") == "frame_reuse" and case.get("route"):
        rewrite_checks(res, [case])
        return res
    if case.get("t") == "frame_reuse":
        import reuse
        reuse.frame_scenarios(res, [case])
        return res
    if case.get("t") == "writer":
        writer_checks(res, [case])
        return res
    if "cases" in case:
        cases = case["cases"]
    else:
        cases = [case]
    impl, model = evaluate(cases, res, random.Random(0))
    for c, o, m in zip(cases, impl, model):
        res.sample(dict(case=c, impl=(o["bytes"].hex() if o["bytes"] is not None else o["err"]), model=m))
    return res

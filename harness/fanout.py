"""Sub-device fan-out (C09 section): sensor-data messages with M mixer slots and T thermostat slots,
mixer- and thermostat-parameter responses, through a real AsyncProtocol (reader, queues, consumers,
EcoMAX) on a fake transport; compared with the fan-out machine of Model/Fanout.lean (`fan`) and
judged by its statement predicate on what the implementation showed (`fanjudge`).

Per frame the MODEL INPUT is derived from the implementation's own decoder (a twin frame decoded
against the device's state: which slots decode to a block is C05's business): per family the slot
list `present / absent`, each present block named by a token.  OBSERVED: every `dispatch(<family
event>, block)` task created on a sub-device object (task factory; the object's `index`, the object
itself named by first appearance in the registry of its family, the block identified by content),
the `mixers` / `thermostats` announcement, and both registries (`ecomax.data["mixers"]`,
`["thermostats"]`) after the step.  Besides, once a sub-device object is known the harness
subscribes to its family events: from then on every block dispatched on it must reach the
subscriber exactly once (delivery seen at the sub-device's EVENTS).

Sequences: slots appearing, disappearing and coming back, counts growing and shrinking, all
absent, byte-identical repeats of the previous frame (fed alone or in one chunk), parameters before
and after the product is known, other traffic in between; consumers_count 1..5.
"""
import asyncio
import json

from common import driver_batch, use_repo
import framegen as fg
import pipefake

use_repo()
from pyplumio.const import DeviceType  # noqa: E402
from pyplumio.devices import VirtualDevice  # noqa: E402
from pyplumio.devices.ecomax import EcoMAX  # noqa: E402
from pyplumio.devices.mixer import Mixer  # noqa: E402
from pyplumio.frames import get_frame_handler  # noqa: E402
from pyplumio.protocol import AsyncProtocol  # noqa: E402

import c05_device as cd  # noqa: E402  (abstract sensor / thermostat-parameter messages, encoded by the Lean driver)
import c05_sensors as sn  # noqa: E402
from c09_payloads import PAYLOADS  # noqa: E402

SENSOR, MIXER_PARAMS, THERMO_PARAMS, UID, PASSWORD = 53, 178, 220, 185, 186
EVENTS = {"mixer_sensors": ("m", "s"), "mixer_parameters": ("m", "p"), "thermostat_sensors": ("t", "s"), "thermostat_parameters": ("t", "p")}
REGNAME = {"m": "mixers", "t": "thermostats"}
JUNK = 999999


def frame_class(kind):
    import importlib
    mod, cls = get_frame_handler(kind).rsplit(".", 1)
    return getattr(importlib.import_module("pyplumio." + mod), cls)


def canon_value(v):
    return repr(v)


# ------------------------------------------------------------------ generation (abstract steps)

def sensor_step(rng, mixers, thermos, uniq):
    """mixers / thermos: list of bool (slot present) or None (thermostat section absent)"""
    m = sn.gen_msg(rng, rng.getrandbits(7) | (0x80 if thermos is not None else 0))
    m["versions"], m["temps"], m["alerts"] = m["versions"][:2], m["temps"][:4], m["alerts"][:2]
    m["mixers"] = [((sn.f32(20.0 + 0.5 * ((uniq * 7 + i) % 120)) if p else sn.NAN_Q), 30 + i, 0, (uniq + i) & 1, 0) for i, p in enumerate(mixers)]
    if thermos is not None:
        m["thermostats"] = (rng.randrange(255), [((uniq + i) & 7, (sn.f32(15.0 + 0.25 * ((uniq * 5 + i) % 40)) if p else sn.NAN_Q), sn.f32(18.0 + i))
                                                 for i, p in enumerate(thermos)])
    return ("S", m)


def mixer_params_step(rng, slots, uniq):
    groups = " ".join("| " + (f"{30 + (uniq + i) % 20}/20/50 {(uniq + i) & 1}/0/1" if p else "- -") for i, p in enumerate(slots))
    return ("M", f"p2enc mixer {rng.randrange(256)} 0 2 " + groups)


def slot_pattern(rng, n):
    r = rng.random()
    if r < 0.35:
        return [True] * n
    if r < 0.5:
        return [False] * n
    return [rng.random() < 0.6 for _ in range(n)]


def gen_case(rng, i):
    steps, uniq = [], 0
    T = 0
    if rng.random() < 0.75:
        steps.append(("raw", UID, PAYLOADS[UID][rng.randrange(len(PAYLOADS[UID]))][1]))
    for _ in range(rng.randint(3, 8)):
        uniq += 1
        r = rng.random()
        if r < 0.55:
            nm = rng.choice([0, 1, 2, 3, 4, 5])
            th = None if rng.random() < 0.25 else slot_pattern(rng, rng.choice([0, 1, 2, 3]))
            if th is not None:
                T = len(th)
            steps.append(sensor_step(rng, slot_pattern(rng, nm), th, uniq))
        elif r < 0.72:
            steps.append(mixer_params_step(rng, slot_pattern(rng, rng.choice([0, 1, 2, 3, 4])), uniq))
        elif r < 0.85:
            steps.append(("T", cd.gen_thermo(rng, max(1, T))))
        elif r < 0.93 and steps and steps[-1][0] in "SMT":
            steps.append(("same", rng.choice([1, 2, 3]), rng.random() < 0.5))   # the previous frame again, k times (one chunk or not)
        else:
            steps.append(("raw", PASSWORD, (b"\x04" + b"%04d" % rng.randrange(10000)).hex()))
    return dict(consumers=1 + i % 5, steps=steps)


def encode(cases):
    """-> per case the list of (kind, payload bytes, chunk_with_previous) frames"""
    reqs = []
    for c in cases:
        for st in c["steps"]:
            if st[0] == "S":
                reqs.append("c05s-encode " + " ".join(map(str, sn.flat(st[1]))))
            elif st[0] in "MT":
                reqs.append(st[1])
    ans = iter(driver_batch(reqs))
    out = []
    for c in cases:
        frames = []
        for st in c["steps"]:
            if st[0] == "raw":
                frames.append((st[1], bytes.fromhex(st[2]), False))
            elif st[0] == "same":
                prev = frames[-1]
                frames.extend((prev[0], prev[1], st[2]) for _ in range(st[1]))
            else:
                a = next(ans)
                if a == "bad-op":
                    raise RuntimeError(f"driver rejected a generated message: {str(st)[:200]}")
                frames.append(({"S": SENSOR, "M": MIXER_PARAMS, "T": THERMO_PARAMS}[st[0]], bytes.fromhex(a.split(" ")[0]), False))
        out.append(frames)
    return out


# ------------------------------------------------------------------ one run

def msgs_of(twin_data):
    """frame.data -> [(family, part, {index: block})] in the order the items are dispatched"""
    out = []
    items = []
    for name, value in twin_data.items():
        # a sensor-data message carries everything under "sensors": the ecoMAX dispatches each entry by its own name
        items.extend(value.items() if name == "sensors" and isinstance(value, dict) else [(name, value)])
    for name, value in items:
        if name in EVENTS:
            fam, part = EVENTS[name]
            out.append((fam, part, dict(value) if value else {}))
    return out


def run_case(consumers, frames):
    """-> (model message words, observed outs per message, problems)"""
    tap = []        # (sub-device object, event name, value)  dispatch tasks created on sub-devices
    announced = []  # (family, {index: object})
    heard = []      # (sub-device object, event name, value)  family events heard by the harness's subscribers
    watched = set()
    words, outs, problems = [], [], []
    with pipefake.Driven() as loop:
        proto = AsyncProtocol(consumers_count=consumers)

        def factory(lp, coro, **kw):
            task = asyncio.Task(coro, loop=lp, **kw)
            code = getattr(coro, "cr_code", None)
            if code is not None and code.co_name == "dispatch":
                loc = coro.cr_frame.f_locals
                owner, name = loc.get("self"), loc.get("name")
                if isinstance(owner, VirtualDevice) and name in EVENTS:
                    tap.append((owner, name, loc.get("value")))
                elif isinstance(owner, EcoMAX) and name in ("mixers", "thermostats"):
                    announced.append((name[0], dict(loc.get("value") or {})))
            return task

        loop.set_task_factory(factory)
        reader, writer = asyncio.StreamReader(), pipefake.FakeWriter()
        loop.call_soon(proto.connection_established, reader, writer)
        loop.settle()
        reader.feed_data(fg.mk(PASSWORD, b"\x040000", rcpt=86, sender=69))   # the device entry exists from here on
        loop.settle()
        dev = proto.data["ecomax"]
        names = {"m": [], "t": []}   # objects by first appearance, registry first

        def canon(fam, o):
            for k, x in enumerate(names[fam]):
                if x is o:
                    return k
            names[fam].append(o)
            return len(names[fam]) - 1

        def registry(fam):
            reg = dev.data.get(REGNAME[fam]) or {}
            return [(int(i), canon(fam, o)) for i, o in reg.items()]

        def watch():
            for fam in "mt":
                for o in (dev.data.get(REGNAME[fam]) or {}).values():
                    if id(o) not in watched:
                        watched.add(id(o))
                        for ev, (f, _) in EVENTS.items():
                            if f == fam:
                                def make(o=o, ev=ev):
                                    async def cb(value):
                                        heard.append((o, ev, value))
                                    return cb
                                o.subscribe(ev, make())

        i, msgno = 0, 0
        while i < len(frames):
            chunk = [frames[i]]
            while i + len(chunk) < len(frames) and frames[i + len(chunk)][2]:
                chunk.append(frames[i + len(chunk)])
            i += len(chunk)
            # model input of the chunk: the implementation's own decoding of each frame (twin, same device state; a chunk
            # of several frames only ever repeats one frame)
            per_frame = []
            for kind, payload, _ in chunk:
                twin = frame_class(kind)(recipient=DeviceType.ECONET, sender=DeviceType.ECOMAX, message=bytearray(payload))
                twin.assign_to(dev)
                try:
                    per_frame.append(msgs_of(twin.data or {}))
                except Exception:  # noqa: BLE001  undecodable: dropped by the consumer, nothing to fan out
                    per_frame.append([])
            t0, a0, h0 = len(tap), len(announced), len(heard)
            known = set(watched)
            product_known = "product" in dev.data
            pre = {f: registry(f) for f in "mt"}
            reader.feed_data(b"".join(fg.mk(kind, payload, rcpt=86, sender=69) for kind, payload, _ in chunk))
            loop.settle()
            new_tap, new_ann, new_heard = tap[t0:], announced[a0:], heard[h0:]
            regs = {f: registry(f) for f in "mt"}
            # attribute the observations of the step to the messages of the step, per (family, part), in order
            pools = {}
            for o, ev, v in new_tap:
                pools.setdefault(EVENTS[ev], []).append((o, v))
            anns = {"m": [r for f, r in new_ann if f == "m"], "t": [r for f, r in new_ann if f == "t"]}
            all_msgs = [mm for fm in per_frame for mm in fm]
            touched = set()
            for fam, part, blocks in all_msgs:
                msgno += 1
                touched.add(fam)
                nslots = (max(blocks) + 1) if blocks else 0
                tok = {ix: 1000 * msgno + ix for ix in blocks}
                words.append(f"{fam}{part}:" + ",".join(str(tok[k]) if k in tok else "-" for k in range(nslots)))
                pool = pools.get((fam, part), [])
                same_kind = sum(1 for f2, p2, _ in all_msgs if (f2, p2) == (fam, part))
                take = len(pool) if same_kind == 1 else min(len(blocks), len(pool))
                mine, pools[(fam, part)] = pool[:take], pool[take:]
                delivs = []
                for o, v in mine:
                    idx = int(getattr(o, "index", -1))
                    cv = canon_value(v)
                    hit = idx if idx in blocks and canon_value(blocks[idx]) == cv else next((k for k in blocks if canon_value(blocks[k]) == cv), None)
                    delivs.append((idx, canon(fam, o), tok[hit] if hit is not None else JUNK))
                ann = anns[fam].pop(0) if (blocks and anns[fam]) else None
                outs.append(dict(delivs=delivs, announced=None if ann is None else [(int(k), canon(fam, o)) for k, o in ann.items()],
                                 m=(regs if "m" in touched else pre)["m"], t=(regs if "t" in touched else pre)["t"]))
            for key, rest in pools.items():
                if rest:
                    problems.append(f"{len(rest)} block(s) dispatched on sub-devices ({key[0]}{key[1]}) that no message of the step accounts for")
            if any(anns.values()):
                problems.append("a registry announcement that no message of the step accounts for")
            # delivery at the sub-device's events: every block dispatched on an object the harness already listens to is
            # heard exactly once
            for o, ev, v in new_tap:
                # (a mixer's own parameter handler waits for the product: subscribers behind it are reached once it is known)
                if id(o) in known and (EVENTS[ev][1] == "s" or product_known):
                    # (the sub-device's own handler comes first in the callback chain and returns True: what later
                    # subscribers are called with is its result, so the harness counts calls, not contents)
                    n = sum(1 for o2, ev2, _ in new_heard if o2 is o and ev2 == ev)
                    want = sum(1 for o2, ev2, _ in new_tap if o2 is o and ev2 == ev)
                    if n != want and not any(p.startswith(f"sub-device {ev}[{getattr(o, 'index', '?')}]") for p in problems):
                        problems.append(f"sub-device {ev}[{getattr(o, 'index', '?')}]: {want} block(s) dispatched on it in one step reached its subscriber {n} times")
            for o, ev, v in new_heard:
                if not any(o2 is o and ev2 == ev for o2, ev2, _ in new_tap):
                    problems.append(f"a subscriber of {ev}[{getattr(o, 'index', '?')}] heard a block that was not dispatched in this step")
            watch()
    return words, outs, problems


def show_reg(r):
    return ",".join(f"{i}.{o}" for i, o in r) or "-"


def show_out(o):
    d = ",".join(f"{i}.{ob}.{b}" for i, ob, b in o["delivs"]) or "-"
    a = "n" if o["announced"] is None else show_reg(o["announced"])
    return f"{d} {a} {show_reg(o['m'])} {show_reg(o['t'])}"


def evaluate(res, cases, prop):
    enc = encode(cases)
    runs = [run_case(c["consumers"], fr) for c, fr in zip(cases, enc)]
    live = [(c, fr, r) for c, fr, r in zip(cases, enc, runs)]
    model = driver_batch("fan " + " ".join(r[0]) if r[0] else "fan" for _, _, r in live)
    judge = driver_batch("fanjudge " + " ".join(r[0]) + " | " + " ; ".join(show_out(o) for o in r[1]) for _, _, r in live)
    for (c, fr, (words, outs, problems)), m, v in zip(live, model, judge):
        inp = dict(via="fanout", consumers=c["consumers"], frames=[[k, p.hex(), ch] for k, p, ch in fr])
        nblocks = sum(1 for w in words for s in w.split(":")[1].split(",") if s not in ("", "-"))
        res.case(("fanout", c["consumers"], tuple(words)), nontrivial=nblocks >= 2)
        res.count(f"fanout:messages:{min(len(words), 12)}")
        for w in words:
            res.count("fanout:" + {"ms": "mixer-sensors", "mp": "mixer-parameters", "ts": "thermostat-sensors", "tp": "thermostat-parameters"}[w[:2]]
                      + (":no-block" if not any(s not in ("", "-") for s in w.split(":")[1].split(",")) else ""))
        if any(ch for _, _, ch in fr):
            res.count("fanout:identical-frames-in-one-chunk")
        got = [show_out(o) for o in outs]
        if v != "pass":
            res.fail("spec", inp, "every present block dispatched exactly once on the object registered for its index, nothing else; registries grow by "
                     "one new object per new index, bindings never change (Fanout.spec)", dict(messages=words, observed=got, judge=v),
                     "Fanout.spec fails on what the implementation showed: sub-device delivery is not exactly-once / one object per index")
        for p in problems:
            res.fail("spec", inp, "blocks reach the sub-device's subscribers exactly once; nothing unaccounted", p, "sub-device delivery: " + p)
        exp = [] if m in ("", "bad-op") else m.split(" ; ")
        if m == "bad-op":
            res.fail("corr", inp, "model answer", "bad-op", "driver rejected the fan-out request")
        elif exp != got:
            k = next((j for j, (a, b) in enumerate(zip(exp, got)) if a != b), min(len(exp), len(got)))
            res.fail("corr", inp, exp, got, f"fan-out machine and EcoMAX differ at message {k} ({words[k] if k < len(words) else '-'})")
        if len(res.samples) < 6 and nblocks >= 4 and len(words) <= 8 and not any(s.get("fanout") for s in res.samples if isinstance(s, dict)):
            res.sample(dict(fanout=True, messages=words, observed=got))


def run_section(res, rng, n, prop):
    cases = [gen_case(rng, i) for i in range(n)]
    evaluate(res, cases, prop)
    res.rule += ("; sub-device fan-out: sequences of sensor-data messages (0..5 mixer slots, 0..3 thermostat slots or no thermostat section, "
                 "each slot present or absent), mixer- and thermostat-parameter responses, byte-identical repeats (alone / in one chunk), "
                 "with and without the product known, through a real AsyncProtocol; compared with the fan-out machine and judged by "
                 "Fanout.spec; deliveries also counted at the sub-devices' event subscribers")


def replay_case(res, inp, prop):
    frames = [(k, bytes.fromhex(p), bool(ch)) for k, p, ch in inp["frames"]]
    words, outs, problems = run_case(inp["consumers"], frames)
    v = driver_batch(["fanjudge " + " ".join(words) + " | " + " ; ".join(show_out(o) for o in outs)])[0]
    m = driver_batch(["fan " + " ".join(words) if words else "fan"])[0]
    got = [show_out(o) for o in outs]
    if v != "pass":
        res.fail("spec", inp, "Fanout.spec", dict(messages=words, observed=got, judge=v), "Fanout.spec fails on what the implementation showed")
    for p in problems:
        res.fail("spec", inp, "blocks reach the sub-device's subscribers exactly once", p, "sub-device delivery: " + p)
    if (m.split(" ; ") if m else []) != got and m != "":
        res.fail("corr", inp, m.split(" ; "), got, "fan-out machine and EcoMAX differ")

"""C04: sequences of well-formed frames under many chunkings.  The expectation is computed
three ways: from the statement (Python, independent), by the Lean model, by the implementation."""
import random

from common import Result, driver_batch, hexs, load_corpus
import framegen as fg
import reader


def bcc68_frame(rng, rcpt):
    """a frame whose checksum byte equals the start delimiter (the D4 trigger)"""
    for _ in range(1000):
        pl = bytearray(fg.salted_payload(rng, rng.randint(1, 6)))
        fr = bytearray(fg.mk(rng.choice(fg.FRAME_TYPES), pl, rcpt, rng.choice(fg.DEVICES)))
        pl[-1] ^= fr[-2] ^ 0x68
        fr = fg.mk(fr[7], pl, rcpt, fr[4])
        if fr[-2] == 0x68:
            return fr
    raise AssertionError


def gen_frame(rng, maxpl):
    r = rng.random()
    kind = rng.choice(fg.FRAME_TYPES)
    rcpt, sender = rng.choice([86, 0]), rng.choice(fg.DEVICES)
    if r < 0.45:
        pass                                         # own / broadcast
    elif r < 0.65:
        rcpt = rng.choice([1, 2, 69, 81, 85, 87, 255, rng.randrange(1, 256)])
        if rcpt in (86, 0):
            rcpt = 1                                 # foreign recipient
        if rng.random() < 0.4:
            return bcc68_frame(rng, rcpt)
    elif r < 0.8:
        sender = rng.choice([1, 68, 70, 80, 82, 85, 87, 255, rng.randrange(256)])   # (mostly) unknown sender
    elif r < 0.92:
        kind = rng.choice([0, 1, 7, 9, 23, 26, 47, 56, 60, 63, 65, 94, 175, 222, 255, rng.randrange(256)])  # (mostly) unknown kind
    else:
        return bcc68_frame(rng, rng.choice([86, 0]))
    n = rng.choice([0, 1, 2, rng.randint(0, maxpl), rng.randint(0, maxpl)])
    if rng.random() < 0.03:
        n = rng.choice([989, 990])
    return fg.mk(kind, fg.salted_payload(rng, n), rcpt, sender, rng.choice([48, rng.randrange(256)]),
                 rng.choice([5, rng.randrange(256)]), rng.choice([0x16, 0x16, rng.randrange(256)]))


def expected_by_statement(frames):
    out = []
    for fr in frames:
        kind, rcpt, sender = fr[7], fr[3], fr[4]
        if rcpt not in (86, 0):
            out.append(("I", len(fr)))
        elif sender not in fg.DEVICES or kind not in fg.FRAME_TYPES:
            out.append(("E", len(fr)))
        else:
            out.append(("D", kind, rcpt, sender, fr[5], fr[6], hexs(fr[8:-2]), len(fr)))
    out.append(("L", 0))
    return out


def coarse(obs):
    return [("E", o[-1]) if o[0] == "E" else o for o in obs]


def chunkings(rng, frames, tier):
    s = b"".join(frames)
    n = len(s)
    yield "upfront", (), False
    if n <= 400 or tier == "thorough":
        yield "1-byte-lazy", tuple(range(1, n)), True
    k = rng.randint(1, 8)
    yield "random-lazy", tuple(sorted(rng.sample(range(1, n), min(k, n - 1)))) if n > 1 else (), True
    bounds, pos = [], 0
    for fr in frames[:-1]:
        pos += len(fr)
        bounds.append(pos)
    yield "frame-boundaries-lazy", tuple(bounds), True
    # cuts inside bodies of frames (after the 7-byte header), fed lazily
    cuts, pos = [], 0
    for fr in frames:
        if len(fr) > 9 and rng.random() < 0.7:
            cuts.append(pos + rng.randint(8, len(fr) - 1))
        pos += len(fr)
    yield "inside-bodies-lazy", tuple(cuts), True
    if tier == "thorough":
        k = rng.randint(1, 8)
        yield "random-upfront", tuple(sorted(rng.sample(range(1, n), min(k, n - 1)))) if n > 1 else (), False


def one_case(res, label, frames, rng, tier, model_line):
    s = b"".join(frames)
    exp = expected_by_statement(frames)
    model = reader.canon_model(reader.parse_model(model_line))
    if coarse(model) != exp:
        res.fail("corr", dict(frames=[f.hex() for f in frames], label=label), exp, model,
                 "Lean model disagrees with the statement-derived expectation (model bug)")
    for name, cuts, lazy in chunkings(rng, frames, tier):
        obs = reader.canon_impl(reader.read_all(s, cuts, lazy))
        res.count("chunking:" + name)
        inp = dict(frames=[f.hex() for f in frames], stream=s.hex(), cuts=list(cuts) if len(cuts) < 40 else "1-byte",
                   lazy=lazy, chunking=name, label=label)
        if coarse(obs) != exp:
            res.fail("spec", inp, exp, obs,
                     "sequence of well-formed frames not read as exactly those frames, each once and in order")
        elif obs != model:
            res.fail("corr", inp, model, obs, "reader model and FrameReader.read() differ")
    for o in exp:
        res.count("expected:" + o[0])


def run(ctx):
    rng = random.Random(ctx["seed"] * 104729 + 4)
    tier = ctx["tier"]
    res = Result("C04")
    import pycode  # translator validation: generated Lean definitions vs the real functions (harness/pycode.py)
    pycode.check(res, random.Random(ctx["seed"] * 7919 + 77), ctx["tier"], ["reader"])
    res.rule = ("sequences of 1..12 well-formed frames (own, broadcast, foreign recipient, unknown sender, unknown kind, "
                "checksum byte = 0x68, payloads salted with delimiter and header-shaped bytes, boundary sizes) x 5-6 chunkings "
                "(all up front, 1-byte lazy, random lazy, frame boundaries lazy, cuts inside bodies lazy); lazy = next chunk fed "
                "only when the reader is blocked; plus ARRIVAL SCHEDULES (random cuts around delimiters / header ends, empty chunks, chunks already "
                "there before a call or arriving one at a time while it is suspended) with the implementation observed at every suspension "
                "(state, bytes buffered, bytes demanded) against the resumable machine of Model/ReaderChunks; and ARBITRARY INTERLEAVINGS (moves: a chunk / the end arrives, the reader runs; "
                "any order, bursts, spurious runs, schedules cut short) against the small-step system of Model/ReaderSched. distinct = distinct byte streams; non-trivial = >= 2 frames incl. one not for us")
    cases = []
    for fn, ln in load_corpus("C04"):
        cases.append(("corpus:" + fn, [bytes.fromhex(x) for x in ln.split()]))
    n = 350 if tier == "quick" else 12000
    if ctx.get("max_cases"):
        n = min(n, ctx["max_cases"])
    for _ in range(n):
        k = rng.choice([1, 2, 2, 3, 3, 4, 5, 6, 8, 12])
        cases.append(("random", [gen_frame(rng, 24) for _ in range(k)]))
    answers = driver_batch("read " + hexs(b"".join(fr)) for _, fr in cases)
    for (label, frames), ans in zip(cases, answers):
        s = b"".join(frames)
        nontrivial = len(frames) >= 2 and any(f[3] not in (86, 0) or f[4] not in fg.DEVICES or f[7] not in fg.FRAME_TYPES for f in frames)
        res.case(s, nontrivial)
        res.count("frames:%d" % len(frames))
        one_case(res, label, frames, rng, tier, ans)
        if len(res.samples) < 3 and nontrivial:
            res.sample(dict(frames=[f.hex() for f in frames], expected=[list(o) for o in expected_by_statement(frames)]))
    import c09_wire  # the protocol-level part: the same kind of sequences through a real AsyncProtocol, observed at the device
    c09_wire.run_section(res, rng, tier, "C04")
    # arrival schedules: the same sequences cut at random places (preferably around delimiters and header ends, empty chunks
    # included), chunks arriving before a call starts or only when it is suspended; the implementation is observed at every
    # suspension and compared with the resumable machine of Model/ReaderChunks (C04.chunk_independent: equal to the reader
    # model on the concatenation for ALL chunkings and schedules)
    import chunks
    from common import Parts
    parts = Parts(res)
    sub = [(label, b"".join(fr)) for label, fr in cases if len(b"".join(fr)) <= 1500][:(260 if tier == "quick" else 6000)]
    parts.run("arrival schedules vs the resumable reader machine", chunks.evaluate, res, sub, random.Random(ctx["seed"] * 104729 + 41))
    # ANY order of arrivals and reader runs (arrivals while the reader is not waiting, several in a row, runs with nothing new,
    # schedules cut short): Model/ReaderSched, C04.every_interleaving_prefix / every_interleaving_complete
    parts.run("arbitrary interleavings of arrival and reader progress", chunks.evaluate_moves, res, sub[:(200 if tier == "quick" else 4000)],
              random.Random(ctx["seed"] * 104729 + 43))
    # the same reader / connection in a process with HISTORY (calls abandoned at every suspension point of read(), the
    # Frame.create executor hop with its job pending included; each history in a fresh python process): harness/history.py
    import history
    parts.run("reader histories with abandoned calls, in fresh processes", history.evaluate, res,
              random.Random(ctx["seed"] * 104729 + 45), tier, "C04", 6 if tier == "quick" else None)
    parts.finish()
    return res


def replay(ctx):
    f = ctx["replay"].get("failure") or ctx["replay"].get("first_difference")
    if f["input"].get("via") == "history":
        import history
        res = Result("C04")
        res.rule = "replay of one recorded history of reader sessions in a fresh process"
        history.replay_case(res, f["input"], "C04")
        res.case(str(f["input"]["scenario"]))
        return res
    if f["input"].get("via") == "moves":
        import chunks
        res = Result("C04")
        res.rule = "replay of one recorded interleaving of arrivals and reader runs"
        chunks.replay_moves(res, f["input"])
        res.case(str(f["input"]["chunks"]) + f["input"]["moves"])
        return res
    if f["input"].get("via") == "chunks":
        import chunks
        res = Result("C04")
        res.rule = "replay of one recorded arrival schedule"
        chunks.replay_case(res, f["input"])
        res.case(str(f["input"]["chunks"]))
        return res
    frames = [bytes.fromhex(x) for x in f["input"]["frames"]]
    res = Result("C04")
    if f["input"].get("via") == "wire":
        import c09_wire
        res.rule = "replay of one recorded frame sequence through the protocol"
        c09_wire.replay_case(res, f["input"], "C04")
        return res
    res.rule = "replay of one recorded frame sequence under its recorded chunking"
    s = b"".join(frames)
    cuts = f["input"].get("cuts") or ()
    if cuts == "1-byte":
        cuts = tuple(range(1, len(s)))
    obs = reader.canon_impl(reader.read_all(s, tuple(cuts), bool(f["input"].get("lazy"))))
    exp = expected_by_statement(frames)
    res.case(s)
    res.sample(dict(frames=f["input"]["frames"], observed=[list(o) for o in obs], expected=[list(o) for o in exp]))
    if coarse(obs) != exp:
        res.fail("spec", f["input"], exp, obs, "sequence of well-formed frames not read as exactly those frames")
    return res

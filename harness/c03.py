"""C03 correspondence:
  * `Frame.bytes -> FrameReader.read() -> fields` and back (`delivered.bytes` = consumed bytes),
  * `X(data=d).message -> X(message=...).data` for DeviceAvailableResponse / ProgramVersionResponse,
    plus decoding of arbitrary (malformed) messages against the Lean decoders,
  * Python `==` / `!=` on freshly built frame pairs that are identical or differ in exactly one of
    kind, recipient, sender, econet type, version, message, data — against `PyFrame.pyEq`,
    also after the lazy caches were filled by reading `.bytes` / `.data`.
"""
import json
import random
import socket

from common import Result, driver_batch, hexs, load_corpus
import framegen as fg
import frameimpl as fi
import c02
import reader  # parse_model / canon_model of the C01 reader model answers

from pyplumio.structures.network_info import ATTR_NETWORK, NetworkInfo  # noqa: E402
from pyplumio.structures.program_version import ATTR_VERSION, VersionInfo  # noqa: E402

KNOWN_SENDERS = (0, 69, 81, 86)
PARAM_CODES = {49, 50, 92, 51, 52, 93, 59, 61, 55, 176, 192, 185}


# ------------------------------------------------------------------ generators

def gen_rt(rng, tier, kinds):
    quick = tier == "quick"
    codes = [c for c, _ in kinds]
    for code in codes:
        for n in ([0, 1, 2, 246, 989, 990] if quick else [0, 1, 2, 3, 245, 246, 247, 500, 988, 989, 990]):
            yield dict(t="rt", code=code, rc=rng.choice([86, 0]), sd=rng.choice(KNOWN_SENDERS), et=48, ev=5,
                       payload=fg.salted_payload(rng, n).hex(), rest="")
        for rc in (86, 0):
            for sd in KNOWN_SENDERS:
                yield dict(t="rt", code=code, rc=rc, sd=sd, et=rng.randrange(256), ev=rng.randrange(256),
                           payload=fg.salted_payload(rng, rng.choice([0, 1, 5, 17])).hex(),
                           rest=rng.choice([b"", b"\x68", fg.mk(25), bytes(rng.randrange(256) for _ in range(5))]).hex())
    for _ in range(1500 if quick else 60000):
        own = rng.random() < 0.8
        yield dict(t="rt", code=rng.choice(codes), rc=rng.choice([86, 0]) if own else rng.randrange(256),
                   sd=rng.choice(KNOWN_SENDERS) if rng.random() < 0.85 else rng.randrange(256),
                   et=rng.choice([48, rng.randrange(256)]), ev=rng.choice([5, rng.randrange(256)]),
                   payload=fg.salted_payload(rng, rng.choice([0, 1, 2, 3, rng.randint(0, 64)])).hex(),
                   rest=rng.choice([b"", b"", fg.mk(25), bytes(rng.randrange(256) for _ in range(rng.randint(1, 9)))]).hex())
    # longer than the reader accepts: serialisable, not readable
    for n in (991, 992, 2000):
        yield dict(t="rt", code=25, rc=86, sd=69, et=48, ev=5, payload=bytes(n).hex(), rest="")


def gen_rtseq(rng, tier, kinds):
    """what is written to a shared bus: several serialised frames one after the other, frames addressed to other devices
    (whose bodies contain start delimiters, header-shaped runs, whole embedded frames addressed to us) in between.
    Every frame addressed to us / broadcast from a known device must read back, in order, unchanged."""
    quick = tier == "quick"
    codes = [c for c, _ in kinds]

    def one(own):
        r = rng.random()
        if r < 0.35:
            pl = fg.salted_payload(rng, rng.choice([1, 2, 3, 8, rng.randint(1, 40)]))
        elif r < 0.5:   # a whole well-formed frame addressed to us inside the payload
            pl = bytes(rng.randrange(256) for _ in range(rng.choice([0, 1, 3]))) + \
                fg.mk(rng.choice(codes), fg.salted_payload(rng, rng.choice([0, 2, 5])), rng.choice([86, 0]), rng.choice(KNOWN_SENDERS)) + \
                bytes(rng.randrange(256) for _ in range(rng.choice([0, 1, 2])))
        elif r < 0.6:   # the start delimiter at every place of a short body
            n = rng.randint(1, 6)
            pl = bytearray(rng.randrange(256) for _ in range(n))
            pl[rng.randrange(n)] = 0x68
            pl = bytes(pl)
        else:
            pl = bytes(rng.randrange(256) for _ in range(rng.choice([0, 0, 1, 2, rng.randint(0, 30)])))
        return dict(code=rng.choice(codes),
                    rc=rng.choice([86, 0]) if own else rng.choice([69, 81, 1, 0x68, rng.randrange(256)]),
                    sd=rng.choice(KNOWN_SENDERS) if rng.random() < 0.9 else rng.randrange(256),
                    et=rng.choice([48, 48, 0x68, rng.randrange(256)]), ev=rng.choice([5, 5, 0x68, rng.randrange(256)]), payload=pl.hex())

    for _ in range(600 if quick else 25000):
        k = rng.choice([2, 2, 3, 4, 6])
        frames = [one(rng.random() < 0.55) for _ in range(k)]
        if not any(f["rc"] not in (86, 0) for f in frames[:-1]):
            frames[rng.randrange(k - 1)] = one(False)      # at least one foreign frame before the last frame
        frames[-1] = one(True) if rng.random() < 0.8 else frames[-1]
        yield dict(t="rtseq", frames=frames)


def gen_wire(rng, tier):
    quick = tier == "quick"
    for _ in range(800 if quick else 30000):
        parts = []
        for _ in range(rng.randint(1, 3)):
            if rng.random() < 0.25:
                parts.append(bytes(rng.choice([0, 0x16, 0xFF, rng.randrange(256)]) for _ in range(rng.randint(1, 5))).replace(b"\x68", b"\x69"))
            kind = rng.choice(fg.FRAME_TYPES)
            parts.append(fg.mk(kind, fg.salted_payload(rng, rng.choice([0, 1, 2, 7, rng.randint(0, 40)])),
                               rng.choice([86, 0]), rng.choice(fg.DEVICES), rng.choice([48, rng.randrange(256)]),
                               rng.choice([5, rng.randrange(256)]),
                               rng.choice([0x16, 0x16, 0x16, 0x17, 0x00, 0x68, rng.randrange(256)])))
        yield dict(t="wire", stream=b"".join(parts).hex())


def gen_dec(rng, tier, nets, vers):
    """arbitrary / malformed messages for the two decoders: valid ones mutated, truncated, random"""
    quick = tier == "quick"
    for i, m in enumerate(nets):
        if quick and i % 7:
            continue
        b = bytearray(m)
        yield dict(t="netdec", message=bytes(b).hex())
        for _ in range(2):
            c = bytearray(b)
            pos = rng.randrange(len(c))
            c[pos] = rng.choice([0, 1, 2, 4, 5, 7, 255, rng.randrange(256)])
            yield dict(t="netdec", message=bytes(c).hex())
        c = bytearray(b)
        c[27] = rng.randrange(8)      # the encryption byte, inside and outside the table
        yield dict(t="netdec", message=bytes(c).hex())
        c = bytearray(b)
        c[34] = rng.randrange(256)    # SSID length that lies about the bytes that follow
        yield dict(t="netdec", message=bytes(c).hex())
    base = bytearray(nets[0]) + b"abcdef"
    for k in range(len(base) + 1):
        yield dict(t="netdec", message=bytes(base[:k]).hex())
    for _ in range(200 if quick else 20000):
        m = bytearray(rng.randrange(256) for _ in range(rng.choice([0, 1, 13, 27, 28, 30, 34, 35, 36, 40, 60])))
        if len(m) > 27 and rng.random() < 0.8:
            m[27] = rng.randrange(6)           # mostly a known encryption kind, so the other fields get decoded
        if len(m) > 34 and rng.random() < 0.5:
            m[34] = rng.randrange(len(m))      # SSID length near the number of bytes that follow
        yield dict(t="netdec", message=bytes(m).hex())
    for i, m in enumerate(vers):
        if quick and i % 5:
            continue
        yield dict(t="verdec", message=bytes(m).hex())
        yield dict(t="verdec", message=(bytes(m) + bytes(rng.randrange(256) for _ in range(rng.randint(1, 4)))).hex())
    base = bytes(vers[0])
    for k in range(len(base) + 1):
        yield dict(t="verdec", message=base[:k].hex())
    for _ in range(200 if quick else 20000):
        yield dict(t="verdec", message=bytes(rng.randrange(256) for _ in range(rng.choice([14, 15, 16, 20]))).hex())


KEYS = ["index", "value", "device_index", "offset", "size", "start", "count", "x"]


def rand_data(rng):
    r = rng.random()
    if r < 0.15:
        return None
    if r < 0.3:
        return {}
    return {k: rng.randrange(300) for k in rng.sample(KEYS, rng.randint(1, 3))}


def gen_eq(rng, tier, kinds):
    quick = tier == "quick"
    codes = [c for c, _ in kinds]
    req_codes = [c for c, n in kinds if n.startswith("REQUEST")]
    diffs = ["none", "none", "kind", "rc", "sd", "et", "ev", "message", "data"]
    for i in range(4200 if quick else 100000):
        code = rng.choice(codes)
        a = dict(code=code, rc=rng.choice([0, 69, 81, 86, rng.randrange(256)]), sd=rng.choice([0, 69, 81, 86, rng.randrange(256)]),
                 et=rng.choice([48, rng.randrange(256)]), ev=rng.choice([5, rng.randrange(256)]),
                 message=None if rng.random() < 0.4 else bytes(rng.randrange(256) for _ in range(rng.choice([0, 1, 2, 5]))).hex(),
                 data=rand_data(rng))
        b = json.loads(json.dumps(a))
        diff = diffs[i % len(diffs)]
        if diff == "kind":
            b["code"] = rng.choice([c for c in codes if c != code])
        elif diff in ("rc", "sd", "et", "ev"):
            b[diff] = rng.choice([v for v in (a[diff] ^ 1, (a[diff] + 1) % 256, rng.randrange(256), 0, 86) if v != a[diff]])
        elif diff == "message":
            m = None if a["message"] is None else bytes.fromhex(a["message"])
            cands = [None, b"", b"\x00"]
            if m:
                cands += [m[:-1], m + b"\x00", bytes([m[0] ^ 1]) + m[1:], m[:-1] + bytes([m[-1] ^ 0x80])]
            else:
                cands += [bytes([rng.randrange(256)])]
            cands = [c for c in cands if c != m]
            c = rng.choice(cands)
            b["message"] = None if c is None else c.hex()
        elif diff == "data":
            d = a["data"]
            cands = [None, {}, {"index": 1}]
            if d:
                k = rng.choice(sorted(d))
                cands += [{**d, k: d[k] + 1}, {kk: vv for kk, vv in d.items() if kk != k}, {**d, "extra": 0}]
            cands = [c for c in cands if c != d]
            b["data"] = rng.choice(cands)
        # presentation variants that do not change the arguments' values
        a["enum"], b["enum"] = rng.random() < 0.7, rng.random() < 0.7
        a["bytes"], b["bytes"] = rng.random() < 0.3, rng.random() < 0.3
        a["kw"] = bool(a["data"]) and rng.random() < 0.2
        b["kw"] = bool(b["data"]) and rng.random() < 0.2
        # which lazy caches are filled before comparing
        opsa = opsb = ""
        if rng.random() < 0.45:
            def ops_for(fa):
                ok = []
                if fa["message"] is not None or fa["code"] not in PARAM_CODES:
                    ok.append("m")
                if fa["data"] is not None or fa["code"] in req_codes:
                    ok.append("d")
                return rng.choice([""] + ok + (["md"] if len(ok) == 2 else []))
            opsa, opsb = ops_for(a), ops_for(b)
        yield dict(t="eq", a=a, b=b, diff=diff, opsa=opsa, opsb=opsb)
    # parameterised requests built from data, compared after serialising one or both
    for _ in range(300 if quick else 5000):
        name = rng.choice(["setecomax", "setmixer", "control", "range_ecomax", "alerts"])
        args = {n: rng.randrange(256) for n, _, _ in c02.REQS[name][2]}
        args2 = dict(args)
        diff = rng.choice(["none", "data"])
        if diff == "data":
            k = rng.choice(sorted(args2))
            args2[k] = (args2[k] + 1 + rng.randrange(255)) % 256
        yield dict(t="eqreq", name=name, args=args, args2=args2, diff=diff, opsa=rng.choice(["", "m"]), opsb=rng.choice(["", "m"]))


def gen_eqcfg(rng, tier, nets, vers):
    """pairs of device-available / program-version frames built from STRUCTURED data (NetworkInfo, VersionInfo)
    that are identical or differ in exactly one field of the configuration"""
    quick = tier == "quick"
    net_fields = ["eth", "est", "wlan", "wst", "ssid", "enc", "sig", "srv"]
    ver_fields = ["a", "b", "c", "tag", "sv", "dev", "sig"]
    for i in range(240 if quick else 8000):
        if i % 3:
            a = dict(rng.choice(nets))
            a["ssid"] = a["ssid"][:30]
            b = dict(a)
            f = "none" if i % 5 == 0 else net_fields[i % len(net_fields)]
            if f in ("eth", "wlan"):
                v = list(b[f]); k = rng.randrange(12); v[k] = (v[k] + 1 + rng.randrange(254)) % 256; b[f] = v
            elif f in ("est", "wst", "srv"):
                b[f] = not b[f]
            elif f == "ssid":
                b[f] = b[f] + "x"
            elif f == "enc":
                b[f] = (b[f] + 1 + rng.randrange(4)) % 5
            elif f == "sig":
                b[f] = (b[f] + 1 + rng.randrange(254)) % 256
            yield dict(t="eqcfg", kind="net", a=a, b=b, diff=f, fill=rng.choice(["none", "both"]))
        else:
            a = dict(rng.choice(vers))
            if (len(a["tag"]), len(a["dev"]), len(a["sig"])) != (4, 4, 6) or max(a["a"], a["b"], a["c"]) > 65535 or a["sv"] > 255:
                continue
            b = dict(a)
            f = "none" if i % 5 == 0 else ver_fields[i % len(ver_fields)]
            if f in ("a", "b", "c"):
                b[f] = (b[f] + 1 + rng.randrange(65000)) % 65536
            elif f == "sv":
                b[f] = (b[f] + 1 + rng.randrange(254)) % 256
            elif f in ("tag", "dev", "sig"):
                raw = bytearray(bytes.fromhex(b[f])); k = rng.randrange(len(raw)); raw[k] ^= 1 + rng.randrange(255); b[f] = bytes(raw).hex()
            yield dict(t="eqcfg", kind="ver", a=a, b=b, diff=f, fill=rng.choice(["none", "both"]))


# ------------------------------------------------------------------ implementation side

def build_frame(fa):
    cls = fi.frame_class(fa["code"])
    kw = dict(recipient=fi.addr(fa["rc"]) if fa.get("enum", True) else fa["rc"],
              sender=fi.addr(fa["sd"]) if fa.get("enum", True) else fa["sd"],
              econet_type=fa["et"], econet_version=fa["ev"])
    if fa["message"] is not None:
        m = bytes.fromhex(fa["message"])
        kw["message"] = m if fa.get("bytes") else bytearray(m)
    if fa["data"] is not None:
        if fa.get("kw"):
            kw.update(fa["data"])
        else:
            kw["data"] = dict(fa["data"])
    return cls(**kw)


def token(d):
    return "_" if d is None else json.dumps(d, sort_keys=True, separators=(",", ":")).replace(" ", "")


def frame_words(fa):
    return (f"{fa['code']} {fa['rc']} {fa['sd']} {fa['et']} {fa['ev']} "
            f"{'_' if fa['message'] is None else hexs(bytes.fromhex(fa['message']))} {token(fa['data'])}")


def apply_ops(f, ops):
    for op in ops:
        if op == "m":
            f.bytes  # noqa: B018  (fills the message cache)
        elif op == "d":
            f.data  # noqa: B018  (fills the data cache)


def net_obj_words(n):
    def b(ipstr):
        return socket.inet_aton(ipstr).hex()
    return (f"{b(n.eth.ip)}{b(n.eth.netmask)}{b(n.eth.gateway)} {int(n.eth.status)} "
            f"{b(n.wlan.ip)}{b(n.wlan.netmask)}{b(n.wlan.gateway)} {int(n.wlan.status)} "
            f"{n.wlan.ssid!r} {int(n.wlan.encryption)} {int(n.wlan.signal_quality)} {int(n.server_status)}")


def model_net_words(ans):
    """driver `net dec` answer with the SSID bytes turned into Python's text form"""
    if ans == "none":
        return "none"
    w = ans.split(" ")
    ssid = b"" if w[4] == "-" else bytes.fromhex(w[4])
    w[4] = repr(ssid.decode("utf-8", "replace"))
    return " ".join(w)


def ver_obj_words(v):
    return f"{v.software.replace('.', ' ')} {hexs(v.struct_tag)} {v.struct_version} {hexs(v.device_id)} {hexs(v.processor_signature)}"


def evaluate(cases, res):
    lines1 = []      # first driver batch
    at1 = []
    impl = [None] * len(cases)

    def ask(ci, tag, line):
        lines1.append(line)
        at1.append((ci, tag))

    # ---- implementation runs
    rt_idx, streams = [], []
    for ci, case in enumerate(cases):
        t = case["t"]
        if t == "rt":
            f = c02.impl_env(case)
            try:
                b = f.bytes
            except Exception as e:  # noqa: BLE001 -- a frame built from a message must serialise
                impl[ci] = dict(ser_err=type(e).__name__)
                continue
            impl[ci] = dict(frame=f, bytes=b)
            rt_idx.append(ci)
            streams.append(b + bytes.fromhex(case["rest"]))
            ask(ci, "read", "read " + hexs(streams[-1]))
        elif t == "wire":
            rt_idx.append(ci)
            streams.append(bytes.fromhex(case["stream"]))
            impl[ci] = {}
            ask(ci, "read", "read " + hexs(streams[-1]))
        elif t == "rtseq":
            try:
                built = [c02.impl_env(f) for f in case["frames"]]
                parts = [f.bytes for f in built]
            except Exception as e:  # noqa: BLE001 -- a frame built from a message must serialise
                impl[ci] = dict(ser_err=type(e).__name__)
                continue
            impl[ci] = dict(built=built, parts=parts)
            rt_idx.append(ci)
            streams.append(b"".join(parts))
            ask(ci, "read", "read " + hexs(streams[-1]))
        elif t in ("net", "ver"):
            o = dict(err=None)
            try:
                f1 = c02.BUILD[t](case)
                m = bytes(f1.message)
                o["message"] = m
                o["held"] = (f1, f1.bytes)     # re-read once every other frame of the run has been built
                f2 = type(f1)(message=bytearray(m))
                back = f2.data[ATTR_NETWORK if t == "net" else ATTR_VERSION]
                orig = f1.data[ATTR_NETWORK if t == "net" else ATTR_VERSION]
                o["same"] = (back == orig) and not (back != orig)
                o["back"] = net_obj_words(back) if t == "net" else ver_obj_words(back)
                o["orig"] = net_obj_words(orig) if t == "net" else ver_obj_words(orig)
            except Exception as e:  # noqa: BLE001
                o["err"] = type(e).__name__
            impl[ci] = o
            ask(ci, "enc", c02.model_line(case))
            if o.get("message") is not None:
                ask(ci, "dec", ("net dec " if t == "net" else "ver dec ") + hexs(o["message"]))
        elif t in ("netdec", "verdec"):
            m = bytes.fromhex(case["message"])
            cls = fi.frame_class(176 if t == "netdec" else 192)
            try:
                d = cls(message=bytearray(m)).data
                impl[ci] = net_obj_words(d[ATTR_NETWORK]) if t == "netdec" else ver_obj_words(d[ATTR_VERSION])
            except Exception:  # noqa: BLE001
                impl[ci] = "none"
            ask(ci, "dec", ("net dec " if t == "netdec" else "ver dec ") + hexs(m))
        elif t == "eq":
            fa, fb = case["a"], case["b"]
            a, b = build_frame(fa), build_frame(fb)
            try:
                o = dict(fresh=(a == b, a != b, b == a, a == a and not (a != a)))
            except Exception as e:  # noqa: BLE001 -- comparing two frames must not raise
                impl[ci] = dict(eq_err=type(e).__name__)
                continue
            if case["opsa"] or case["opsb"]:
                try:
                    apply_ops(a, case["opsa"])
                    apply_ops(b, case["opsb"])
                    o["filled"] = (a == b, a != b, b == a)
                except Exception as e:  # noqa: BLE001
                    o["fill_err"] = type(e).__name__
            impl[ci] = o
        elif t == "eqcfg":
            try:
                a, b = c02.BUILD[case["kind"]](dict(case["a"], t=case["kind"])), c02.BUILD[case["kind"]](dict(case["b"], t=case["kind"]))
                if case["fill"] == "both":
                    a.bytes, b.bytes  # noqa: B018
                impl[ci] = dict(eq=(a == b, a != b, b == a, a == a and not (a != a)))
            except Exception as e:  # noqa: BLE001
                impl[ci] = dict(eq_err=type(e).__name__)
        elif t == "eqreq":
            code = c02.REQS[case["name"]][0]
            cls = fi.frame_class(code)
            a = cls(recipient=fi.addr(69), data=c02.req_data(dict(name=case["name"], args=case["args"])))
            b = cls(recipient=fi.addr(69), data=c02.req_data(dict(name=case["name"], args=case["args2"])))
            try:
                o = dict(fresh=(a == b, a != b, b == a, a == a))
                apply_ops(a, case["opsa"])
                apply_ops(b, case["opsb"])
                o["filled"] = (a == b, a != b, b == a)
            except Exception as e:  # noqa: BLE001
                o = dict(eq_err=type(e).__name__)
            impl[ci] = o
            ask(ci, "ma", c02.model_line(dict(t="req", name=case["name"], args=case["args"])))
            ask(ci, "mb", c02.model_line(dict(t="req", name=case["name"], args=case["args2"])))
    # frames built from data keep their own payload: building / serialising later frames must not
    # change what an earlier, still live frame carries (shared buffers, class-level caches)
    if any(isinstance(o, dict) and "held" in o for o in impl):
        # two fixed neighbours, so that a single replayed case has "other frames" too
        for other in (dict(t="ver", a=9, b=8, c=7, tag="a1b2", sv=3, dev="c3d4", sig="e5f6a7", sd=69),
                      dict(c02.DEFAULT_NET, eth=[9, 8, 7, 6, 255, 0, 0, 0, 5, 4, 3, 2], ssid="neighbour", sig=37, srv=False)):
            try:
                c02.BUILD[other["t"]](other).bytes  # noqa: B018
            except Exception:  # noqa: BLE001
                pass
    for ci, case in enumerate(cases):
        o = impl[ci]
        if case["t"] in ("net", "ver") and isinstance(o, dict) and "held" in o:
            f1, b1 = o.pop("held")
            try:
                o["later"] = (bytes(f1.message), f1.bytes)
            except Exception as e:  # noqa: BLE001
                o["later"] = type(e).__name__
            o["first_bytes"] = b1
    outs = fi.read_many(streams) if streams else []
    for ci, o in zip(rt_idx, outs):
        impl[ci]["outs"] = o
        # what re-serialising each delivered frame gives, to be compared with the model's encode
        for e in o:
            if e[0] == "D":
                fl = fi.fields_of(e[1])
                ask(ci, "enc", f"encode {fl[0]} {fl[1]} {fl[2]} {fl[3]} {fl[4]} {hexs(fl[5])}")
    ans1 = driver_batch(lines1)
    by_case = {}
    for (ci, tag), a in zip(at1, ans1):
        by_case.setdefault(ci, []).append((tag, a))

    # ---- equality model (needs the model's own payloads for the fills of data-built requests)
    for ci, case in enumerate(cases):
        if case["t"] == "eqreq":
            code = c02.REQS[case["name"]][0]
            ma = dict(by_case[ci])["ma"]
            mb = dict(by_case[ci])["mb"]
            fa = dict(code=code, rc=69, sd=86, et=48, ev=5, message=None, data=c02.req_data(dict(name=case["name"], args=case["args"])))
            fb = dict(fa, data=c02.req_data(dict(name=case["name"], args=case["args2"])))
            case["_wa"], case["_wb"], case["_ma"], case["_mb"] = frame_words(fa), frame_words(fb), ma, mb
    # fills are chained through the driver: resolve them iteratively (each pyfill needs the previous frame words)
    # -> do it in rounds: round r applies the r-th op of every side
    state = {}
    for ci, case in enumerate(cases):
        if case["t"] == "eq" and "filled" in impl[ci]:
            state[(ci, "fa")] = frame_words(case["a"])
            state[(ci, "fb")] = frame_words(case["b"])
        elif case["t"] == "eqreq":
            state[(ci, "fa")] = case["_wa"]
            state[(ci, "fb")] = case["_wb"]
    for rnd in range(2):
        req, keys = [], []
        for (ci, side), words in sorted(state.items()):
            case = cases[ci]
            ops = case["opsa"] if side == "fa" else case["opsb"]
            if rnd >= len(ops):
                continue
            op = ops[rnd]
            if case["t"] == "eqreq":
                m = case["_ma"] if side == "fa" else case["_mb"]
                val = m[3:] if m.startswith("ok ") else None
                if val is None:
                    continue
                req.append(f"pyfill m {val} {words}")
            else:
                req.append(("pyfill m - " if op == "m" else "pyfill d {} ") + words)
            keys.append((ci, side))
        for k, a in zip(keys, driver_batch(req)):
            state[k] = a
    lines3, at3 = [], []
    for ci, case in enumerate(cases):
        if case["t"] == "eq":
            lines3.append(f"pyeq {frame_words(case['a'])} {frame_words(case['b'])}")
            at3.append((ci, "fresh"))
            if "filled" in impl[ci]:
                lines3.append(f"pyeq {state[(ci, 'fa')]} {state[(ci, 'fb')]}")
                at3.append((ci, "filled"))
        elif case["t"] == "eqreq":
            lines3.append(f"pyeq {case['_wa']} {case['_wb']}")
            at3.append((ci, "fresh"))
            lines3.append(f"pyeq {state[(ci, 'fa')]} {state[(ci, 'fb')]}")
            at3.append((ci, "filled"))
    eqans = {}
    for (ci, tag), a in zip(at3, driver_batch(lines3)):
        eqans[(ci, tag)] = a

    # ---- compare
    for ci, case in enumerate(cases):
        t = case["t"]
        pub = {k: v for k, v in case.items() if not k.startswith("_")}
        res.case(json.dumps(pub, sort_keys=True), True)
        res.count("type:" + t)
        answers = by_case.get(ci, [])
        if any(a == "bad-op" for _, a in answers):
            res.fail("corr", pub, "model answers", answers, "driver rejected a request line")
            continue
        if t in ("rt", "rtseq") and "ser_err" in impl[ci]:
            res.fail("spec", pub, "serialised bytes", dict(raised=impl[ci]["ser_err"]), "serialising a frame built from its payload raised")
        elif t == "rt":
            compare_rt(pub, impl[ci], answers, res)
        elif t == "rtseq":
            compare_rtseq(pub, impl[ci], answers, res)
        elif t == "wire":
            compare_wire(pub, impl[ci], answers, res)
        elif t in ("net", "ver"):
            compare_codec(pub, impl[ci], answers, res)
        elif t in ("netdec", "verdec"):
            m = answers[0][1]
            exp = model_net_words(m) if t == "netdec" else m
            res.count(f"outcome:{t}:" + ("none" if impl[ci] == "none" else "decoded"))
            if impl[ci] != exp:
                res.fail("corr", pub, exp, impl[ci], "decoder model and decode_message differ on an arbitrary message")
        elif t == "eqcfg":
            o = impl[ci]
            same = case["diff"] == "none"
            res.count(f"eqcfg:{case['kind']}:{case['diff']}:{case['fill']}")
            if "eq_err" in o:
                res.fail("spec", pub, "== / != give an answer", dict(raised=o["eq_err"]), "building or comparing two frames raised an exception")
            elif tuple(o["eq"]) != (same, not same, same, True):
                res.fail("spec", pub, dict(eq=same, ne=not same, self_eq=True), dict(eq=o["eq"][0], ne=o["eq"][1], sym=o["eq"][2], self_eq=o["eq"][3]),
                         "frames built from the same configuration must be equal, frames whose configuration differs in %s must not" % case["diff"])
        elif t in ("eq", "eqreq"):
            compare_eq(pub, case, impl[ci], eqans, ci, res)


def first_outcome(o):
    e = o[0]
    if e[0] == "D":
        return ("D",) + tuple(fi.fields_of(e[1])[:5]) + (hexs(fi.fields_of(e[1])[5]), e[2])
    return e


def _coarse(t):
    """a protocol error is a protocol error: the subclass is informational (property granularity)"""
    t = tuple(t)
    return ("E", int(t[-1])) if t and t[0] == "E" else t


def compare_rt(case, o, answers, res):
    b = o["bytes"]
    payload = bytes.fromhex(case["payload"])
    orig = (case["code"], case["rc"], case["sd"], case["et"], case["ev"], payload)
    model = reader.canon_model(reader.parse_model(dict(answers)["read"]))
    outs = o["outs"]
    got = first_outcome(outs)
    gates = case["rc"] in (86, 0) and case["sd"] in KNOWN_SENDERS and len(b) <= 1000
    res.count("rt:" + got[0] + (":" + got[1] if got[0] == "E" else ""))
    if gates:
        e = outs[0]
        ok = e[0] == "D" and fi.fields_of(e[1]) == orig and e[2] == len(b)
        if not ok:
            res.fail("spec", case, dict(delivered=[str(x) for x in orig[:5]] + [payload.hex()], consumed=len(b)),
                     [str(x) for x in got], "serialise -> read does not give back the same kind, addressing, versions and payload")
            return
        g = e[1]
        if type(g) is not fi.frame_class(case["code"]):
            res.fail("spec", case, fi.frame_class(case["code"]).__name__, type(g).__name__, "read back as a frame of another kind")
            return
        try:
            again = g.bytes
        except Exception as e:  # noqa: BLE001
            again = ("!" + type(e).__name__).encode()
        if again != b:
            res.fail("spec", case, b.hex(), again.hex(), "re-serialising the received frame does not reproduce its bytes")
            return
        if not (g == o["frame"]) or (g != o["frame"]):
            res.fail("spec", case, "received == sent", "unequal", "the frame read back does not compare equal to the frame that was serialised")
            return
    if _coarse(got) != _coarse(model[0]):
        res.fail("corr", case, list(model[0]), [str(x) for x in got], "read(encode f) differs between model and implementation")


def compare_rtseq(case, o, answers, res):
    """serialise several frames, read the bytes back: every frame addressed to the library / broadcast by a known device
    comes back -- same kind, addressing, versions, payload, class, bytes, == -- in order, and nothing else is delivered,
    whatever the frames for other devices in between carry"""
    parts, built = o["parts"], o["built"]
    want = []
    for f, b, sent in zip(case["frames"], parts, built):
        if f["rc"] in (86, 0) and f["sd"] in KNOWN_SENDERS and len(b) <= 1000:
            want.append((f, b, sent))
    outs = o["outs"]
    got = [e for e in outs if e[0] == "D"]
    res.count("rtseq:frames=%d,to-us=%d" % (len(parts), len(want)))
    shown = [[e[0]] + ([str(x) for x in fi.fields_of(e[1])[:5]] + [hexs(fi.fields_of(e[1])[5])] if e[0] == "D" else [str(x) for x in e[1:]]) for e in outs]
    exp = [[f["code"], f["rc"], f["sd"], f["et"], f["ev"], f["payload"] or "-"] for f, _, _ in want]
    ok = len(got) == len(want)
    if ok:
        for e, (f, b, sent) in zip(got, want):
            g = e[1]
            if fi.fields_of(g) != (f["code"], f["rc"], f["sd"], f["et"], f["ev"], bytes.fromhex(f["payload"])):
                ok = False
                break
    if not ok:
        res.fail("spec", case, dict(delivered_in_order=exp), dict(calls=shown),
                 "serialising frames one after the other and reading the bytes back does not yield exactly the frames addressed to the "
                 "library / broadcast (same kind, addressing, versions, payload), in order: a frame for another device in between disturbs its successors")
        return
    for e, (f, b, sent) in zip(got, want):
        g = e[1]
        try:
            again = g.bytes
        except Exception as ex:  # noqa: BLE001
            again = ("!" + type(ex).__name__).encode()
        if type(g) is not fi.frame_class(f["code"]) or again != b or not (g == sent) or (g != sent):
            res.fail("spec", case, dict(cls=fi.frame_class(f["code"]).__name__, bytes=b.hex(), equal_to_sent=True),
                     dict(cls=type(g).__name__, bytes=again.hex(), equal_to_sent=bool(g == sent)),
                     "a frame read back from a multi-frame stream is of another class, re-serialises to other bytes or is unequal to the frame sent")
            return
    model = reader.canon_model(reader.parse_model(dict(answers)["read"]))
    canon = []
    for e in outs:
        if e[0] == "D":
            fl = fi.fields_of(e[1])
            canon.append(("D",) + tuple(fl[:5]) + (hexs(fl[5]), e[2]))
        else:
            canon.append(tuple(e))
    if [_coarse(x) for x in canon] != [_coarse(x) for x in model]:
        res.fail("corr", case, [list(x) for x in model], [list(map(str, x)) for x in canon], "reader model and FrameReader.read() differ on a multi-frame stream")


def compare_wire(case, o, answers, res):
    stream = bytes.fromhex(case["stream"])
    model = reader.canon_model(reader.parse_model(dict(answers)["read"]))
    encs = [a for tag, a in answers if tag == "enc"]
    outs = o["outs"]
    canon = []
    pos = 0
    k = 0
    for e in outs:
        if e[0] == "D":
            f, n = e[1], e[2]
            fl = fi.fields_of(f)
            canon.append(("D",) + tuple(fl[:5]) + (hexs(fl[5]), n))
            consumed = stream[pos:pos + n]
            fr = consumed[consumed.index(0x68):]
            try:
                again = f.bytes
            except Exception as e:  # noqa: BLE001 -- serialising a received frame must not raise
                res.fail("spec", case, fr.hex(), dict(raised=type(e).__name__), "re-serialising a received frame raised")
                k += 1
                pos += n
                continue
            res.count("wire:last=" + ("0x16" if fr[-1] == 0x16 else "other"))
            if fr[-1] == 0x16 and again != fr:
                res.fail("spec", case, fr.hex(), again.hex(), "re-serialising a frame received from well-formed bytes does not reproduce them")
            if k < len(encs) and hexs(again) != encs[k]:
                res.fail("corr", case, encs[k], again.hex(), "encode(delivered fields) differs between model and implementation")
            k += 1
            pos += n
        else:
            canon.append(tuple(e))
            pos += e[-1]
    if [_coarse(x) for x in canon] != [_coarse(x) for x in model]:
        res.fail("corr", case, [list(x) for x in model], [list(map(str, x)) for x in canon], "reader model and FrameReader.read() differ")


def compare_codec(case, o, answers, res):
    t = case["t"]
    enc = dict(answers)["enc"]
    adm = c02.admissible(case)
    res.count(f"outcome:{t}:" + ("ok" if o["err"] is None else "raises"))
    if o["err"] is not None:
        if adm:
            res.fail("spec", case, "data -> message -> data", dict(raised=o["err"]), "an encodable configuration is not encoded / decoded")
        elif enc != "none":
            res.fail("corr", case, enc, dict(raised=o["err"]), "model encodes what the implementation rejects")
        return
    if adm and (not o["same"] or o["back"] != o["orig"]):
        res.fail("spec", case, o["orig"], o["back"], "building from data and decoding does not return the same data")
        return
    if adm and "later" in o and o["later"] != (o["message"], o["first_bytes"]):
        later = o["later"] if isinstance(o["later"], str) else (o["later"][0].hex(), o["later"][1].hex())
        res.fail("spec", case, (o["message"].hex(), o["first_bytes"].hex()), later,
                 "a frame built from data no longer carries its own payload after other frames were built")
        return
    if enc == "none" or hexs(o["message"]) != enc:
        res.fail("corr", case, enc, o["message"].hex(), "encoder model and create_message differ")
        return
    dec = dict(answers)["dec"]
    exp = model_net_words(dec) if t == "net" else dec
    if exp != o["back"]:
        res.fail("corr", case, exp, o["back"], "decoder model and decode_message differ")


def substantive(case):
    """the pair differs in something the statement names (kind, addressing, versions, payload/data
    content) rather than only in whether an argument was passed at all (None vs a value)"""
    d = case["diff"]
    if d in ("message", "data") and case["t"] == "eq":
        return case["a"][d] is not None and case["b"][d] is not None
    return d != "none"


def compare_eq(pub, case, o, eqans, ci, res):
    if "eq_err" in o:
        res.fail("spec", pub, "== / != give an answer", dict(raised=o["eq_err"]), "comparing two frames raised an exception")
        return
    same_args = (case["diff"] == "none")
    subst = substantive(case)
    fresh = o["fresh"]
    res.count("eq:" + case["diff"] + ("" if same_args or subst else "(None vs value)") + (":filled" if "filled" in o else ":fresh"))
    exp = (same_args, not same_args, same_args, True)
    if (same_args or subst) and tuple(fresh) != exp:
        res.fail("spec", pub, dict(eq=same_args, ne=not same_args, self_eq=True), dict(eq=fresh[0], ne=fresh[1], sym=fresh[2], self_eq=fresh[3]),
                 "frames built from the same arguments must be equal, frames differing in %s must not" % case["diff"])
        return
    if fresh[1] == fresh[0] or fresh[2] != fresh[0] or not fresh[3]:
        res.fail("spec", pub, "!= is the negation of ==, == is symmetric and reflexive", dict(eq=fresh[0], ne=fresh[1], sym=fresh[2], self_eq=fresh[3]),
                 "equality is not consistent")
        return
    m = eqans.get((ci, "fresh"))
    if m != ("true" if fresh[0] else "false"):
        res.fail("corr", pub, m, fresh[0], "PyFrame.pyEq and Frame.__eq__ differ on fresh frames")
        return
    if "fill_err" in o:
        res.fail("corr", pub, "caches filled", o["fill_err"], "filling the lazy caches raised")
        return
    if "filled" in o:
        eq, ne, sym = o["filled"]
        if ne == eq or sym != eq:
            res.fail("spec", pub, "!= is the negation of ==, == is symmetric", dict(eq=eq, ne=ne, sym=sym), "equality is not consistent")
            return
        if subst and eq:
            res.fail("spec", pub, False, True, "frames differing in %s compare equal after their caches were filled" % case["diff"])
            return
        m = eqans.get((ci, "filled"))
        if m != ("true" if eq else "false"):
            if same_args and eq:
                # better than the model: the implementation no longer compares the lazy caches
                res.count("eq:filled-better-than-model")
            else:
                res.fail("corr", pub, m, eq, "PyFrame.pyEq and Frame.__eq__ differ after the lazy caches were filled")
        elif same_args and not eq:
            res.count("eq:same-args-unequal-after-one-sided-fill (lazy cache is compared state)")
            # known finding F5: the statement says "a frame equals ... any frame built from the same
            # arguments"; after .bytes/.message/.data was read on one of them they compare unequal
            res.fail("spec", pub, True, False,
                     "frames built from the same arguments compare unequal after the lazy message/data cache of one of them was filled",
                     finding="F5")


def order_failures(res):
    """concrete failing inputs first, smallest input first (fewest set schedule slots, shortest text)"""
    def size(f):
        txt = json.dumps(f.get("input"), sort_keys=True)
        return (f["kind"] != "spec", txt.count("1") if '"schedule"' in txt else 0, len(txt))
    res.failures.sort(key=size)


def run(ctx):
    rng = random.Random(ctx["seed"] * 7919 + 3)
    res = Result("C03")
    tier = ctx["tier"]
    import pycode_types  # translated frame object (Frame getters / setters / length / header / bytes) vs a real Frame subclass
    pycode_types.check(res, random.Random(ctx["seed"] * 7919 + 79), ctx["tier"], ["net", "frameobj"])
    res.rule = ("round trips: frames of all 33 kinds built from (addresses, versions, payload) -> .bytes (+ trailing bytes) -> "
                "FrameReader.read -> fields, class, .bytes, == ; 2-6 frames serialised one after the other, frames for other devices (bodies with start delimiters / "
                "embedded whole frames) in between -> read all -> exactly the frames addressed to us, in order; wire frames with arbitrary last byte -> read -> .bytes; "
                "network-info and version data -> message -> data incl. all flag combinations, encryption 0..4, every signal byte, "
                "SSIDs up to 255 bytes incl. non-ASCII; mutated / truncated / random messages through both decoders; "
                "frame pairs identical or differing in exactly one of kind, recipient, sender, econet type, version, message, data, "
                "fresh and after .bytes / .data filled the lazy caches. distinct = distinct argument tuples")
    kinds = fi.kinds()
    cases = []
    corpus_scenarios = []
    for fn, ln in load_corpus("C03"):
        c = json.loads(ln)
        (corpus_scenarios if c.get("t") == "frame_reuse" else cases).append(c)
    cases.extend(gen_rt(rng, tier, kinds))
    cases.extend(gen_wire(rng, tier))
    cases.extend(gen_rtseq(random.Random(ctx["seed"] * 7919 + 33), tier, kinds))
    nets = list(c02.gen_net(rng, tier))
    vers = list(c02.gen_ver(rng, tier))
    cases.extend(nets)
    cases.extend(vers)
    net_msgs, ver_msgs = [], []
    for c in nets[:400]:
        try:
            net_msgs.append(bytes(c02.impl_net(c).message))
        except Exception:  # noqa: BLE001
            pass
    for c in vers[:200]:
        try:
            ver_msgs.append(bytes(c02.impl_ver(c).message))
        except Exception:  # noqa: BLE001
            pass
    cases.extend(gen_dec(rng, tier, net_msgs, ver_msgs))
    cases.extend(gen_eq(rng, tier, kinds))
    cases.extend(gen_eqcfg(rng, tier, [c for c in nets if c02.admissible(c)], [c for c in vers if c02.admissible(c)]))
    if ctx.get("max_cases"):
        cases = cases[:ctx["max_cases"]]
    evaluate(cases, res)
    seen = set()
    for c in cases:
        if c["t"] not in seen and len(json.dumps(c)) < 700:
            seen.add(c["t"])
            res.sample({k: v for k, v in c.items() if not k.startswith("_")}, limit=10)
    res.notes.append("Frame.__eq__ compares the lazily cached _message/_data: a frame whose .bytes/.data was read is unequal to a "
                     "fresh frame built from the same arguments (modelled by PyFrame.fillMessage/fillData, theorem pyEq_fill_fresh); "
                     "count in input_distribution['eq:same-args-unequal-after-one-sided-fill …']")
    import reuse
    reuse.JUDGE_DATA = True     # C03: data -> message -> data also on ONE re-used object
    reuse.frame_scenarios(res, corpus_scenarios)
    reuse.frame_reuse(res, random.Random(ctx["seed"] * 31 + 303), 600 if tier == "quick" else 20000)
    res.notes.append("object re-use: a frame that was serialised, updated through its setters and serialised again must equal a fresh frame built from the final content (bytes, length field, len())")
    order_failures(res)
    return res


def replay(ctx):
    r = ctx["replay"]
    f = r.get("failure") or r.get("first_difference")
    res = Result("C03")
    res.rule = "replay of one recorded case"
    case = f["input"]
    if case.get("t") == "frame_reuse":
        import reuse
        reuse.JUDGE_DATA = True
        reuse.frame_scenarios(res, [case])
        return res
    evaluate([case], res)
    res.sample(dict(case=case, failures=len(res.failures)))
    return res

"""Validation of the code translator (tools/py2lean.py) and of its semantic prelude
(lean/PlumVerif/Model/PyPrelude.lean): every function the translator turned into a Lean definition
(lean/PlumVerif/Generated/PyCode.lean) is run here as the REAL Python function and, through the driver op
`py <function> <fuel> <stream> <args…>`, as the GENERATED Lean definition, on structured + random inputs
including the error cases (empty input, values out of range, missing keys, wrong types); the two answers
are compared as value-or-exception-class (and, for the reader's coroutines, the bytes left on the stream).

    pycode.check(res, rng, tier, groups)      groups ⊆ {frame, schedule, uid, params, requests, reader, structparams, sensors}

is called at the start of the harness of the properties concerned; a difference is a `corr` failure
("the translated definition does not mean what the Python function does": the translator / prelude is wrong,
or the function uses Python outside what the prelude models).  The Lean answer `err unsupported` means the
prelude explicitly declines to model that input (never guessed): counted, not compared.
"""
import asyncio
import dataclasses
import struct

from common import driver_batch, hexs, use_repo

use_repo()

from pyplumio.frames import Frame  # noqa: E402


# ---------------------------------------------------------------------------------------------- canonical forms

def enc_scalar(v):
    if v is None:
        return "n"
    if v is True:
        return "t"
    if v is False:
        return "f"
    if isinstance(v, int):
        return f"i{v}"
    if isinstance(v, (bytes, bytearray)):
        return "b" + hexs(v)
    if isinstance(v, str):
        return "s" + hexs(v.encode())
    raise TypeError(v)


class Inst:
    """the instance a stateful method is called on: `atom` is what the driver parses (`S<attr>=<scalar>,…` or
    `H<frame.handler>`), `attrs` / `handler` what the real object gets"""
    def __init__(self, atom, attrs=None, handler="absent"):
        self.atom, self.attrs, self.handler = atom, attrs or {}, handler

    def __repr__(self):
        return f"Inst({self.atom})"


def encj(v):
    """nested values (driver atom `J…`): lists / tuples / string-keyed dicts of such, scalars"""
    if isinstance(v, list):
        return "[" + ";".join(encj(x) for x in v) + "]"
    if isinstance(v, tuple):
        return "(" + ";".join(encj(x) for x in v) + ")"
    if isinstance(v, dict):
        if not all(isinstance(k, str) for k in v):
            raise TypeError(v)
        return "{" + ";".join(hexs(k.encode()) + ":" + encj(x) for k, x in v.items()) + "}"
    return enc_scalar(v)


def enc(v):
    if isinstance(v, Inst):
        return v.atom
    if isinstance(v, (list, tuple, dict)):
        try:
            return enc_flat(v)
        except TypeError:
            return "J" + encj(v)
    return enc_scalar(v)


def enc_flat(v):
    if isinstance(v, list):
        return "L" + ",".join(enc_scalar(x) for x in v)
    if isinstance(v, tuple):
        return "T" + ",".join(enc_scalar(x) for x in v)
    if isinstance(v, dict):
        return "D" + ",".join(hexs(k.encode()) + "=" + enc_scalar(x) for k, x in v.items())
    return enc_scalar(v)


def show(v):
    if v is None:
        return "None"
    if v is True:
        return "True"
    if v is False:
        return "False"
    if isinstance(v, int):
        return str(int(v))
    if isinstance(v, float):
        # a wire float: the bit pattern it was read from (binary32 when the value is one), every NaN alike
        if v != v:
            return "Fnan"
        try:
            b = struct.pack("<f", v)
            if struct.unpack("<f", b)[0] == v:
                return f"F4:{int.from_bytes(b, 'little')}"
        except OverflowError:
            pass
        return f"F8:{int.from_bytes(struct.pack('<d', v), 'little')}"
    if isinstance(v, (bytes, bytearray)):
        return "b" + hexs(v)
    if isinstance(v, str):
        return "s" + hexs(v.encode())
    if isinstance(v, list):
        return "[" + ",".join(show(x) for x in v) + "]"
    if isinstance(v, tuple):
        return "(" + ",".join(show(x) for x in v) + ")"
    if isinstance(v, dict):
        if all(isinstance(k, str) for k in v):
            return "{" + ",".join(hexs(k.encode()) + "=" + show(x) for k, x in v.items()) + "}"
        return "{" + ",".join(show(k) + "=" + show(x) for k, x in v.items()) + "}"
    if isinstance(v, Frame):
        # what Frame.create was called with (the translated primitive records its keyword arguments)
        return ("Frame{" + f"frame_type={int(v.frame_type)},recipient={show(v.recipient)},sender={show(v.sender)},"
                f"econet_type={show(v.econet_type)},econet_version={show(v.econet_version)},message={show(v._message)}" + "}")
    if dataclasses.is_dataclass(v):
        return type(v).__name__ + "{" + ",".join(f"{f.name}={show(getattr(v, f.name))}" for f in dataclasses.fields(v)) + "}"
    return f"<{type(v).__name__}>"


def exc_name(e):
    if isinstance(e, struct.error):
        return "StructError"
    if isinstance(e, asyncio.IncompleteReadError):
        return "IncompleteReadError"
    if type(e) is OSError:
        return "OSError"
    return type(e).__name__


def py_call(fn, args):
    try:
        import copy
        return "ok " + show(fn(*copy.deepcopy(args)))
    except Exception as e:  # noqa: BLE001
        return "err " + exc_name(e)


def py_read(method, stream):
    """one call of FrameReader.<method>() on a StreamReader holding `stream` followed by EOF"""
    from pyplumio.stream import FrameReader

    async def go():
        sr = asyncio.StreamReader()
        sr.feed_data(stream)
        sr.feed_eof()
        fr = FrameReader(sr)
        try:
            v = await getattr(fr, method)()
            out = "ok " + show(v)
        except Exception as e:  # noqa: BLE001
            out = "err " + exc_name(e)
        return out + " " + hexs(bytes(sr._buffer))

    loop = asyncio.new_event_loop()
    try:
        return loop.run_until_complete(go())
    finally:
        loop.close()


# ---------------------------------------------------------------------------------------------- inputs

def rbytes(rng, n):
    return bytes(rng.randrange(256) for _ in range(n))


def mk_frame(kind, payload=b"", rcpt=86, sender=69, etype=48, ever=5, crc_xor=0, length=None):
    n = len(payload) + 10 if length is None else length
    pre = bytes([0x68, n % 256, (n // 256) % 256, rcpt, sender, etype, ever, kind]) + payload
    c = 0
    for b in pre:
        c ^= b
    return pre + bytes([c ^ crc_xor, 0x16])


def cases_frame(rng, quick):
    from pyplumio.frames import bcc
    xs = [b"", b"\x00", b"\xff", b"\x68\x0c\x01"] + [rbytes(rng, rng.choice([1, 2, 3, 9, 40])) for _ in range(20 if quick else 200)]
    for x in xs:
        yield "bcc", bcc, [x], 0
    yield "bcc", bcc, [[1, 2, 7]], 0
    yield "bcc", bcc, [[True, True]], 0
    yield "bcc", bcc, [[-1, 5]], 0
    yield "bcc", bcc, [None], 0


def cases_schedule(rng, quick):
    from pyplumio.structures.schedules import _join_bits, _split_byte
    for b in range(256):
        yield "_split_byte", _split_byte, [b], 0
    for b in (-1, -128, 256, 300, 70000, True, False, None, "x"):
        yield "_split_byte", _split_byte, [b], 0
    seqs = [[], [True], [False], [1], [0], [True, False], [1, 0, 1], [2, 3], [-1, 1], [1, -1], [True, 1, False, 0]]
    for _ in range(30 if quick else 400):
        n = rng.choice([1, 2, 7, 8, 8, 8, 9, 16])
        seqs.append([bool(rng.getrandbits(1)) for _ in range(n)])
        seqs.append([rng.getrandbits(1) for _ in range(n)])
    for s in seqs:
        yield "_join_bits", _join_bits, [s], 0
    yield "_join_bits", _join_bits, [(True, False, True)], 0
    yield "_join_bits", _join_bits, [b"\x01\x00\x01"], 0
    yield "_join_bits", _join_bits, [[None, 1]], 0
    # --- SchedulesStructure (round 8, W1c): _unpack_schedule / decode / encode
    from pyplumio.structures import schedules as sch
    C = getattr(sch, "SchedulesStructure")
    plain = Inst("S")
    n = 12 if quick else 200
    for _ in range(n):
        k = rng.choice([0, 0, 1, 5])
        msg = rbytes(rng, k + rng.choice([42, 42, 42, 43, 50, 41, 30, 6, 0]))
        yield "SchedulesStructure._unpack_schedule", method(C, "_unpack_schedule"), [sinst(_offset=k), bytearray(msg)], 0
    for _ in range(n):
        off = rng.choice([0, 0, 1, 3])
        cnt = rng.choice([0, 1, 1, 2, 3])
        body = b"".join(bytes([rng.choice([0, 1, 2, 7, 39, 40, 200, rng.randrange(256)]), rng.choice([0, 1, 1, 2, 255])])
                        + slot_bytes(rng, 1) + rbytes(rng, 42) for _ in range(cnt))
        msg = rbytes(rng, off) + bytes([rng.randrange(256), rng.choice([0, 0, 1, 250, rng.randrange(256)]), cnt]) + body + rbytes(rng, rng.choice([0, 0, 3]))
        r = rng.random()
        if r > 0.6:
            msg = msg[:rng.randrange(len(msg) + 1)] if r < 0.9 else msg[:off + rng.choice([0, 1, 2, 3])]
        yield "SchedulesStructure.decode", method(C, "decode"), [plain, bytearray(msg), off, rng.choice(DATAS)], 0
    for msg, off in ODD_CALLS:
        yield "SchedulesStructure.decode", method(C, "decode"), [plain, bytearray(msg) if msg is not None else None, off, None], 0
    names = list(getattr(sch, "SCHEDULES", ("heating",)))

    def day(ln=48, kind=0):
        if kind == 0:
            return [bool(rng.getrandbits(1)) for _ in range(ln)]
        if kind == 1:
            return [rng.getrandbits(1) for _ in range(ln)]
        return [rng.choice([0, 1, 1, 2, 3, -1]) for _ in range(ln)]

    def week():
        r = rng.random()
        if r < 0.55:
            return [day() for _ in range(7)]
        if r < 0.7:
            return [day(rng.choice([48, 8, 16, 5, 13, 0, 1, 49]), rng.choice([0, 0, 1])) for _ in range(rng.choice([7, 7, 1, 0, 3, 8]))]
        if r < 0.8:
            return [day(rng.choice([48, 8]), 2) for _ in range(rng.choice([7, 2]))]
        if r < 0.85:
            return tuple(tuple(day()) for _ in range(7))
        if r < 0.9:
            return [day(), None, day()]
        if r < 0.95:
            return [day(8, 2), None, day()]
        return rng.choice([None, [], [[]], 5, [5], [[True] * 8, 7]])

    for _ in range(3 * n):
        d = {"type": rng.choice(names + names + ["nope", 3, None]), "switch": rng.choice([0, 1, 1, True, False, 2, 255, 256, -1, None]),
             "parameter": rng.choice([0, 5, 20, 255, 256, -3, True, rng.randrange(256)]), "schedule": week()}
        r = rng.random()
        if r < 0.12:
            d.pop(rng.choice(list(d)))
        elif r < 0.2:
            d = dict(reversed(list(d.items())))
        yield "SchedulesStructure.encode", method(C, "encode"), [plain, d], 0
    yield "SchedulesStructure.encode", method(C, "encode"), [plain, {}], 0
    yield "SchedulesStructure.encode", method(C, "encode"), [plain, None], 0


def cases_uid(rng, quick):
    from pyplumio.helpers import uid
    for _ in range(40 if quick else 600):
        yield "_crc16_byte", uid._crc16_byte, [rng.randrange(65536), rng.randrange(256)], 0
    for c, b in ((0, 0), (0xFFFF, 0xFF), (-1, 3), (-40000, 255), (1 << 20, 7), (5, -3), (5, 300), (True, 1), (None, 1)):
        yield "_crc16_byte", uid._crc16_byte, [c, b], 0
    bufs = [b"", b"\x00", b"\x00\x00", b"\xff" * 5, bytes(range(1, 6)), bytes(12)] + \
        [rbytes(rng, rng.choice([1, 2, 5, 8, 12, 12, 16])) for _ in range(25 if quick else 300)]
    for x in bufs:
        fuel = 8 * (len(x) + 2) // 5 + 2
        yield "_crc16", uid._crc16, [x], 0
        yield "_base5", uid._base5, [x], fuel
        yield "decode_uid", uid.decode_uid, [x], fuel
        yield "decode_uid", uid.decode_uid, [bytearray(x)], fuel
    yield "decode_uid", uid.decode_uid, [None], 5
    yield "_base5", uid._base5, [[1, 2]], 5


def cases_params(rng, quick):
    from pyplumio.helpers.parameter import check_parameter, unpack_parameter
    datas = [b"", b"\xff", b"\xff\xff\xff", b"\xff\xff\xfe", b"\x00\xff\xff", bytes(6), b"\xff" * 12]
    for _ in range(30 if quick else 400):
        n = rng.choice([0, 1, 2, 3, 4, 6, 9, 12, 13])
        datas.append(bytes(rng.choice([0xFF, 0xFF, rng.randrange(256)]) for _ in range(n)))
    for d in datas:
        yield "check_parameter", check_parameter, [bytearray(d)], 0
        for off in (0, 1, 2, len(d) - 1, len(d), len(d) + 2, -1, -2):
            for size in (1, 2, 4, 0):
                if quick and rng.random() < 0.6:
                    continue
                yield "unpack_parameter", unpack_parameter, [bytearray(d), off, size], 0
    yield "check_parameter", check_parameter, [[255, 255]], 0
    yield "check_parameter", check_parameter, [[255, 3]], 0
    yield "check_parameter", check_parameter, [None], 0
    yield "unpack_parameter", unpack_parameter, [b"\x01\x02\x03", 0, -1], 0
    yield "unpack_parameter", unpack_parameter, [b"\x01\x02\x03", None, 1], 0


REQUESTS = {
    "EcomaxParametersRequest": ("count", "start"),
    "MixerParametersRequest": ("count", "start"),
    "ThermostatParametersRequest": ("count", "start"),
    "AlertsRequest": ("start", "count"),
    "SetEcomaxParameterRequest": ("index", "value"),
    "SetMixerParameterRequest": ("device_index", "index", "value"),
    "SetThermostatParameterRequest": ("index", "value", "offset", "size"),
    "EcomaxControlRequest": ("value",),
}
ODD = [-1, 256, 300, 70000, -70000, None, True, False, "x", b"\x01"]


def cases_requests(rng, quick):
    from pyplumio.frames import requests as rq
    for cls, keys in REQUESTS.items():
        fn = getattr(rq, cls).create_message
        dicts = [{}]
        for _ in range(30 if quick else 300):
            d = {}
            for k in keys:
                r = rng.random()
                if r < 0.12:
                    continue
                if r < 0.3:
                    d[k] = rng.choice(ODD)
                elif k == "size":
                    d[k] = rng.choice([0, 1, 1, 2, 2, 4, -1])
                elif k == "offset":
                    d[k] = rng.choice([None, 0, 12, 24, 250, -3])
                elif k == "value":
                    d[k] = rng.choice([rng.randrange(256), rng.randrange(65536), 0, 255])
                else:
                    d[k] = rng.randrange(256)
            if rng.random() < 0.2:
                d["extra"] = 1
            dicts.append(d)
        for k in keys:                                  # exactly one key missing / odd, the others fine
            base = {x: (1 if x != "offset" else None) for x in keys}
            d = dict(base)
            del d[k]
            dicts.append(d)
            for o in ODD:
                d = dict(base)
                d[k] = o
                dicts.append(d)
        for d in dicts:
            yield cls + ".create_message", (lambda data, fn=fn: fn(None, data)), [d], 0


def streams(rng, quick):
    kinds = [25, 53, 8, 177, 64, 48, 24]
    out = [b"", b"\x68", b"\x00\x01\x02", b"\x68\x0a\x00", b"\x68\x0a\x00\x56\x45\x30", b"\x68" * 9,
           mk_frame(25), mk_frame(25) + b"\xaa\xbb", b"\x00\xfe" + mk_frame(53, b"\x01\x02\x03") + mk_frame(25),
           mk_frame(25, rcpt=0), mk_frame(25, rcpt=69), mk_frame(25, sender=7), mk_frame(25, sender=86), mk_frame(99), mk_frame(0),
           mk_frame(25, crc_xor=1), mk_frame(25, length=9), mk_frame(25, length=1001), mk_frame(25, length=1000),
           mk_frame(25, b"\x00" * 990), mk_frame(25, b"\x00" * 991), mk_frame(25, length=7), mk_frame(25, length=0),
           mk_frame(25, b"\x01\x02", length=11) + b"\x00" * 3, mk_frame(25, rcpt=69, crc_xor=5), mk_frame(25, rcpt=69, sender=1)]
    for _ in range(60 if quick else 1500):
        f = bytearray(mk_frame(rng.choice(kinds), rbytes(rng, rng.choice([0, 1, 2, 5, 30])), rng.choice([86, 0, 86, 69]),
                               rng.choice([69, 81, 86, 0, 5])))
        r = rng.random()
        if r < 0.3:
            f[rng.randrange(len(f))] = rng.randrange(256)
        elif r < 0.45:
            f = f[:rng.randrange(len(f))]
        elif r < 0.55:
            f = bytearray(rbytes(rng, rng.randrange(12))) + f
        out.append(bytes(f) + (mk_frame(25) if rng.random() < 0.5 else b""))
    for _ in range(15 if quick else 300):
        out.append(bytes(rng.choice([0x68, 0x68, 0x0a, 0x00, 0x56, 0x45, rng.randrange(256)]) for _ in range(rng.randrange(1, 30))))
    return out


# ---------------------------------------------------------------------------------------------- payload decoders

def make_struct(cls, inst):
    """the real structure object for an instance atom"""
    import types
    from pyplumio.helpers.event_manager import EventManager
    frame = None
    if inst.handler != "absent":
        dev = None
        if inst.handler is not None:
            dev = EventManager()
            dev.data = dict(inst.handler)
        frame = types.SimpleNamespace(handler=dev)
    obj = cls(frame)
    for k, v in inst.attrs.items():
        setattr(obj, k, v)
    return obj


def method(cls, name, as_list=False):
    def fn(inst, *args):
        r = getattr(make_struct(cls, inst), name)(*args)
        return list(r) if as_list else r
    return fn


def slot_bytes(rng, size):
    r = rng.random()
    if r < 0.3:
        return b"\xff" * (3 * size)
    if r < 0.4:
        return bytes(rng.choice([0xFF, 0xFF, rng.randrange(256)]) for _ in range(3 * size))
    return rbytes(rng, 3 * size)


def mangle(rng, msg):
    r = rng.random()
    if r < 0.6:
        return msg
    if r < 0.8:
        return msg[:rng.randrange(len(msg) + 1)]
    if r < 0.9:
        return msg + rbytes(rng, rng.randrange(1, 5))
    return rbytes(rng, rng.randrange(0, 12))


DATAS = [None, {}, {"x": 1}, {"ecomax_parameters": 5, "y": None}, {"mixer_parameters": 1}, {"thermostat_parameters": 2, "thermostat_profile": 3}]


def cases_structparams(rng, quick):
    from pyplumio.structures.ecomax_parameters import EcomaxParametersStructure as E
    from pyplumio.structures.mixer_parameters import MixerParametersStructure as M
    from pyplumio.structures.thermostat_parameters import THERMOSTAT_PARAMETERS, ThermostatParametersStructure as T
    from pyplumio.utils import ensure_dict
    n = 25 if quick else 400
    dicts = [{}, {"a": 1}, {"a": 2, "b": None}, {"b": b"\x01", "c": True, "a": 7}]
    for _ in range(n):
        # distinct objects: aliasing between the arguments (`data |= extra` mutates `initial` in place) is not modelled
        args = [dict(d) if d is not None else None for d in
                [rng.choice([None] + dicts)] + [rng.choice(dicts) for _ in range(rng.choice([0, 1, 1, 2, 3]))]]
        yield "ensure_dict", ensure_dict, args, 0
    yield "ensure_dict", ensure_dict, [{"a": 1}, None], 0
    yield "ensure_dict", ensure_dict, [5, {"a": 1}], 0
    plain = Inst("S")
    for _ in range(n):
        off = rng.choice([0, 0, 1, 3])
        start, count = rng.choice([0, 0, 5, 250]), rng.choice([0, 1, 2, 3, 8])
        body = b"".join(slot_bytes(rng, 1) for _ in range(count))
        msg = mangle(rng, rbytes(rng, off) + bytes([rng.randrange(256), start, count]) + body + rbytes(rng, rng.choice([0, 0, 2])))
        yield "EcomaxParametersStructure.decode", method(E, "decode"), [plain, bytearray(msg), off, rng.choice(DATAS)], 0
        k = rng.choice([0, 3, len(msg), len(msg) + 2])
        yield "EcomaxParametersStructure._ecomax_parameter", method(E, "_ecomax_parameter", True), \
            [Inst(f"S_offset=i{k}", {"_offset": k}), bytearray(msg), start, count], 0
        yield "MixerParametersStructure._mixer_parameter", method(M, "_mixer_parameter", True), \
            [Inst(f"S_offset=i{k}", {"_offset": k}), bytearray(msg), start, count], 0
        mixers = rng.choice([0, 1, 2, 3])
        body = b"".join(slot_bytes(rng, 1) if rng.random() < 0.7 else b"\xff" * 3 for _ in range(count * mixers))
        msg = mangle(rng, rbytes(rng, off) + bytes([rng.randrange(256), start, count, mixers]) + body + rbytes(rng, rng.choice([0, 0, 2])))
        yield "MixerParametersStructure.decode", method(M, "decode"), [plain, bytearray(msg), off, rng.choice(DATAS)], 0
        yield "MixerParametersStructure._mixer_parameters", method(M, "_mixer_parameters", True), \
            [Inst(f"S_offset=i{k}", {"_offset": k}), bytearray(msg), mixers, start, count], 0
        # thermostats: T from the owning device; per thermostat range(start, (start + count) // T)
        th = rng.choice([1, 1, 2, 3])
        start = rng.choice([0, 0, 1, 2])
        per = rng.choice([0, 1, 3, 6, len(THERMOSTAT_PARAMETERS), len(THERMOSTAT_PARAMETERS) + 2])
        count = max(0, min(255, (start + per) * th - start + rng.choice([0, 0, 0, 1])))
        sizes = [getattr(d, "size", 1) for d in THERMOSTAT_PARAMETERS]
        idx = range(start, (start + count) // th)
        body = b"".join(b"".join(slot_bytes(rng, sizes[i] if i < len(sizes) else 1) for i in idx) for _ in range(th))
        msg = mangle(rng, rbytes(rng, off) + bytes([rng.randrange(256), start, count]) + slot_bytes(rng, 1) + body + rbytes(rng, rng.choice([0, 0, 2])))
        r = rng.random()
        if r < 0.1:
            inst = Inst("Hn", handler=None)
        elif r < 0.2:
            inst = Inst("HD", handler={})
        elif r < 0.3:
            inst = Inst("HD" + hexs(b"thermostats_available") + "=i0", handler={"thermostats_available": 0})
        else:
            tt = th if rng.random() < 0.8 else rng.choice([1, 2, 3, 4])
            inst = Inst("HD" + hexs(b"other") + "=n," + hexs(b"thermostats_available") + f"=i{tt}",
                        handler={"other": None, "thermostats_available": tt})
        yield "ThermostatParametersStructure.decode", method(T, "decode"), [inst, bytearray(msg), off, rng.choice(DATAS)], 0
        yield "ThermostatParametersStructure._thermostat_parameter", method(T, "_thermostat_parameter", True), \
            [Inst(f"S_offset=i{k}", {"_offset": k}), bytearray(msg), th, start, count], 0
        yield "ThermostatParametersStructure._thermostat_parameters", method(T, "_thermostat_parameters", True), \
            [Inst(f"S_offset=i{k}", {"_offset": k}), bytearray(msg), th, start, count], 0
    for cls, nm in ((E, "EcomaxParametersStructure"), (M, "MixerParametersStructure"), (T, "ThermostatParametersStructure")):
        inst = plain if cls is not T else Inst("HD" + hexs(b"thermostats_available") + "=i1", handler={"thermostats_available": 1})
        for msg, off in ((b"", 0), (b"\x00", 0), (b"\x00\x01", 0), (b"\x00\x00\x02", 0), (b"\x00\x00\x01\x01", 0), (b"\x00\x00\x01\x01", 9),
                         (b"\x00\x00\x01\x01", -1), (b"\x00\x00\x01\x01\x02\x03\x04\x05\x06\x07", -4), (None, 0), (b"\x00\x00\x01\x01", None)):
            yield nm + ".decode", method(cls, "decode"), [inst, bytearray(msg) if msg is not None else None, off, None], 0


F32S = [0x7FC00000, 0xFFC00000, 0x7F800001, 0x7F800000, 0xFF800000, 0, 0x80000000, 1, 0x80000001, 0x41AC0000, 0xC1AC0000,
        0x3F800000, 0x42480000, 0x7F7FFFFF]


def f32(rng):
    r = rng.random()
    if r < 0.6:
        return struct.pack("<I", rng.choice(F32S))
    if r < 0.8:
        return struct.pack("<f", rng.choice([20.0, 21.5, 45.25, -3.0, 0.5, 100.0]))
    return rbytes(rng, 4)


def sinst(**attrs):
    return Inst("S" + ",".join(f"{k}=i{v}" for k, v in attrs.items()), dict(attrs))


ODD_CALLS = [(b"", 0), (b"\x00", 0), (b"\x00\x01", 0), (b"\x01\x02\x03", 0), (b"\x00\x00\x01\x01", 9), (b"\x00\x00\x01\x01", -1),
             (b"\x00\x00\x01\x01\x02\x03\x04\x05\x06\x07", -4), (bytes(range(40)), -30), (None, 0), (b"\x00\x00\x01\x01", None), (b"\xff", 0),
             (b"\x07\xff", 1)]


def cases_sensors(rng, quick):
    import importlib
    n = 25 if quick else 400
    plain = Inst("S")

    def S(mod, cls):
        return getattr(importlib.import_module("pyplumio.structures." + mod), cls)

    # --- thermostat sensors: contacts byte (0xFF: absent), count, 9 bytes per thermostat (connected or not)
    T = S("thermostat_sensors", "ThermostatSensorsStructure")
    for _ in range(n):
        off = rng.choice([0, 0, 1, 3])
        cnt = rng.choice([0, 1, 2, 3, 3, 4, 5, 9])
        contacts = rng.choice([0xFF, 0, 0x3F, 0x07, 0x38, rng.randrange(255), rng.randrange(255)])
        body = b"".join(bytes([rng.randrange(256)]) + f32(rng) + f32(rng) for _ in range(cnt))
        msg = mangle(rng, rbytes(rng, off) + bytes([contacts, cnt]) + body + rbytes(rng, rng.choice([0, 0, 2])))
        yield "ThermostatSensorsStructure.decode", method(T, "decode"), [plain, bytearray(msg), off, rng.choice(DATAS)], 0
        k = rng.choice([0, 2, 2, 11, len(msg), len(msg) + 2])
        st = sinst(_offset=k, _contact_mask=rng.choice([1, 2, 4, 64]), _schedule_mask=rng.choice([8, 16, 1, 512]))
        yield "ThermostatSensorsStructure._unpack_thermostat_sensors", method(T, "_unpack_thermostat_sensors"), \
            [st, bytearray(msg), contacts], 0
        yield "ThermostatSensorsStructure._thermostat_sensors", method(T, "_thermostat_sensors", True), \
            [st, bytearray(msg), cnt, contacts], 0
    # --- mixer sensors: count, 8 bytes per mixer
    M = S("mixer_sensors", "MixerSensorsStructure")
    for _ in range(n):
        off = rng.choice([0, 0, 1, 3])
        cnt = rng.choice([0, 1, 2, 3, 5])
        body = b"".join(f32(rng) + rbytes(rng, 4) for _ in range(cnt))
        msg = mangle(rng, rbytes(rng, off) + bytes([cnt]) + body + rbytes(rng, rng.choice([0, 0, 2])))
        yield "MixerSensorsStructure.decode", method(M, "decode"), [plain, bytearray(msg), off, rng.choice(DATAS)], 0
        k = rng.choice([0, 1, 1, 9, len(msg), len(msg) + 2, max(0, len(msg) - 5)])
        yield "MixerSensorsStructure._unpack_mixer_sensors", method(M, "_unpack_mixer_sensors"), [sinst(_offset=k), bytearray(msg)], 0
        yield "MixerSensorsStructure._mixer_sensors", method(M, "_mixer_sensors", True), [sinst(_offset=k), bytearray(msg), cnt], 0
    # --- one-field sections
    one = [("fuel_level", "FuelLevelStructure", lambda: bytes([rng.choice([0xFF, 0, 100, 101, 102, 254, rng.randrange(256)])])),
           ("boiler_load", "BoilerLoadStructure", lambda: bytes([rng.choice([0xFF, 0, 100, rng.randrange(256)])])),
           ("pending_alerts", "PendingAlertsStructure", lambda: bytes([rng.choice([0, 1, 3, 255, rng.randrange(256)])])),
           ("fan_power", "FanPowerStructure", lambda: f32(rng)),
           ("boiler_power", "BoilerPowerStructure", lambda: f32(rng)),
           ("fuel_consumption", "FuelConsumptionStructure", lambda: f32(rng)),
           ("output_flags", "OutputFlagsStructure", lambda: rng.choice([bytes(4), b"\xff" * 4, b"\x04\0\0\0", b"\x08\0\0\0", b"\x10\0\0\0", b"\0\x08\0\0",
                                                                         b"\x1c\x08\0\0", rbytes(rng, 4)])),
           ("outputs", "OutputsStructure", lambda: rng.choice([bytes(4), b"\xff" * 4, rbytes(rng, 4), struct.pack("<I", 1 << rng.randrange(32))])),
           ("statuses", "StatusesStructure", lambda: rbytes(rng, 4)),
           ("lambda_sensor", "LambdaSensorStructure", lambda: rng.choice([b"\xff", bytes([rng.choice([0, 1, 2, 3, 4, 7])]) + rbytes(rng, 3)])),
           ("temperatures", "TemperaturesStructure",
            lambda: (lambda c: bytes([c]) + b"".join(bytes([rng.choice([0, 1, 2, 5, 16, 17, 18, 200, rng.randrange(20)])]) + f32(rng) for _ in range(c)))(rng.choice([0, 1, 2, 3, 6]))),
           ("frame_versions", "FrameVersionsStructure",
            lambda: (lambda c: bytes([c]) + b"".join(bytes([rng.choice([49, 50, 61, 54, 0, 200, rng.randrange(256)])]) + rbytes(rng, 2) for _ in range(c)))(rng.choice([0, 1, 2, 3, 6]))),
           ]
    for mod, cls, gen in one:
        try:
            C = S(mod, cls)
        except (ImportError, AttributeError):
            continue
        for _ in range(n):
            off = rng.choice([0, 0, 1, 3])
            msg = mangle(rng, rbytes(rng, off) + gen() + rbytes(rng, rng.choice([0, 0, 2])))
            yield cls + ".decode", method(C, "decode"), [plain, bytearray(msg), off, rng.choice(DATAS)], 0
        for msg, off in ODD_CALLS:
            yield cls + ".decode", method(C, "decode"), [plain, bytearray(msg) if msg is not None else None, off, None], 0
    # --- frame versions helper (round 8, W1d): (frame type byte, `<H`) at self._offset
    try:
        FV = S("frame_versions", "FrameVersionsStructure")
        for _ in range(n):
            msg = mangle(rng, rbytes(rng, rng.choice([0, 1, 3])) + bytes([rng.choice([49, 50, 61, 54, 0, 200, rng.randrange(256)])]) + rbytes(rng, rng.choice([2, 2, 2, 1, 0, 4])))
            k = rng.choice([0, 0, 1, 3, len(msg), len(msg) + 2, max(0, len(msg) - 3), max(0, len(msg) - 2)])
            yield "FrameVersionsStructure._unpack_frame_versions", method(FV, "_unpack_frame_versions"), [sinst(_offset=k), bytearray(msg)], 0
        yield "FrameVersionsStructure._unpack_frame_versions", method(FV, "_unpack_frame_versions"), [sinst(_offset=-2), bytearray(b"\x01\x02\x03")], 0
        yield "FrameVersionsStructure._unpack_frame_versions", method(FV, "_unpack_frame_versions"), [plain, bytearray(b"\x01\x02\x03")], 0
    except (ImportError, AttributeError):
        pass
    for C, nm in ((T, "ThermostatSensorsStructure"), (M, "MixerSensorsStructure")):
        for msg, off in ODD_CALLS:
            yield nm + ".decode", method(C, "decode"), [plain, bytearray(msg) if msg is not None else None, off, None], 0


# the value of `a / b` on ints is the exact rational in the prelude (`Py.ratioV a b`, shown `float{num=a,den=b,*=None}`); the
# Python side has the float CPython answered: the float nearest to a / b (TRUSTED contract of `Py.truediv`), computed here by
# CPython's own int / int — so what is compared are the OPERANDS the translated code divides
import re  # noqa: E402

RATIO = re.compile(r"float\{num=(-?\d+),den=(\d+),\*=None\}")


def ratio_show(m):
    return show(int(m.group(1)) / int(m.group(2)))


GROUPS = {"sensors": cases_sensors, "frame": cases_frame, "schedule": cases_schedule, "uid": cases_uid, "params": cases_params, "requests": cases_requests,
          "structparams": cases_structparams}


def check(res, rng, tier, groups):
    """compare the generated Lean definitions with the real functions; failures go to res as 'corr'"""
    quick = tier == "quick"
    reqs, expect, inputs = [], [], []
    have = set(driver_batch(["py-functions"])[0].split())
    stateful = set(driver_batch(["py-stateful"])[0].split())
    missing = set()
    for g in groups:
        if g == "reader":
            for s in streams(rng, quick):
                for m in ("_read_header", "read"):
                    if "FrameReader." + m not in have:
                        missing.add("FrameReader." + m)
                        continue
                    reqs.append(f"py FrameReader.{m} {len(s) + 1} {hexs(s)}")
                    expect.append(py_read(m, s))
                    inputs.append(dict(function="FrameReader." + m, stream=s.hex()))
            continue
        try:
            group_cases = list(GROUPS[g](rng, quick))
        except (ImportError, AttributeError) as e:
            # the function was renamed / moved: nothing to compare (the code tie of that area is reported broken by check.py)
            res.notes.append(f"pycode: group {g} skipped, the source no longer has the function ({e})")
            continue
        for name, fn, args, fuel in group_cases:
            if name not in have:
                missing.add(name)
                continue
            try:
                # a method that does not touch attributes of `self` is translated without the instance argument
                largs = args[1:] if (args and isinstance(args[0], Inst) and args[0].atom == "S" and name not in stateful) else args
                line = f"py {name} {fuel} - " + " ".join(enc(a) for a in largs)
            except TypeError:
                continue
            reqs.append(line)
            expect.append(py_call(fn, args) + " -")
            inputs.append(dict(function=name, args=[repr(a) for a in args], fuel=fuel))
    answers = driver_batch(reqs)
    for line, exp, ans, inp in zip(reqs, expect, answers, inputs):
        ans = RATIO.sub(ratio_show, ans)
        res.case(("pycode", line))
        fn = inp["function"]
        if ans.startswith("err unsupported"):
            res.count("pycode: outside the prelude's modelled domain (declined, not compared)")
            continue
        res.count("pycode:" + fn.split(".")[0])
        if ans == "bad-op":
            res.fail("corr", dict(inp, request=line), "an answer of the generated definition", "bad-op",
                     f"translated {fn}: the driver has no generated definition of that name/arity (Generated/PyCode.lean)")
        elif ans != exp:
            res.fail("corr", dict(inp, request=line), dict(generated_lean=ans), dict(python=exp),
                     f"translated {fn} (Generated/PyCode.lean via tools/py2lean.py + PyPrelude) and the Python function differ")
    if missing:
        res.notes.append("pycode: not translated on this tree (outside the translator's subset), not compared: " + ", ".join(sorted(missing)))
    res.notes.append(f"pycode: {len(reqs)} evaluations of the generated definitions ({', '.join(groups)}) compared with the real functions")
    return len(reqs)

"""C14: arbitrary noise.  Implementation (FrameReader.read on a real StreamReader, and a real
AsyncProtocol producer) vs the Lean reader model; the statement's clauses judged on what the
implementation did:
  a. only ProtocolError subclasses, OSError (end of stream) or TimeoutError escape read()
  b. every call that does not report a lost connection consumes >= 1 byte
  c. counted from the start delimiter a call takes <= 1000 bytes; while it still waits for more
     input fewer than 999 bytes after the delimiter are buffered (never waits beyond the maximum)
  d. the producer loop survives the noise: frames after it reach the read queue
  e. after any noise a run of identical valid frames is picked up within max frame + one frame
     (known finding F2 when the frame has an inner 0x68 byte)"""
import asyncio
import random

from common import Result, driver_batch, hexs, load_corpus, use_repo
import framegen as fg
import producer
import reader
import vloop

use_repo()
from pyplumio.protocol import AsyncProtocol  # noqa: E402


class FakeWriter:
    def __init__(self):
        self.buf = []
        self.closed = False

    def write(self, b):
        self.buf.append(bytes(b))

    async def drain(self):
        pass

    def close(self):
        self.closed = True

    async def wait_closed(self):
        pass


def noise(rng, n, mode):
    if mode == "uniform":
        return bytes(rng.randrange(256) for _ in range(n))
    if mode == "dense":
        return bytes(rng.choice([0x68, 0x68, 0x68, 0x16, 0x00, 0x0a, 0x56, 0x45, rng.randrange(256)]) for _ in range(n))
    out = bytearray()
    while len(out) < n:                 # header-shaped noise with plausible and implausible fields
        ln = rng.choice([7, 8, 9, 10, 11, 12, 20, 100, 999, 1000, 1001, 0, 3, 0xFFFF, rng.randrange(65536)])
        out += bytes([0x68, ln & 0xFF, ln >> 8, rng.choice([86, 0, 1, 69, rng.randrange(256)]),
                      rng.choice(fg.DEVICES + [1, 255]), rng.choice([48, 0x68]), rng.choice([5, 0x68])])
        out += bytes(rng.randrange(256) for _ in range(rng.randint(0, 12)))
        if rng.random() < 0.3:
            out += fg.runt(rng, rng.choice([7, 8, 9, 10, 11]))
    return bytes(out[:n]) if rng.random() < 0.5 else bytes(out)


def stuck_line(rng, n):
    """a plausible header (own / foreign recipient, known sender, length 10..1000) whose 'frame' does not end in the end
    delimiter, followed by n bytes of an idle / stuck line: a run over an alphabet of one to three byte values.  Whatever
    byte value a reader might wait for is absent from most of these runs."""
    ln = rng.choice([10, 11, 20, 100, 999, 1000, rng.randint(10, 1000)])
    alpha = [rng.choice([0x00, 0xFF, 0x55, 0x16, 0x0a, rng.randrange(256)]) for _ in range(rng.choice([1, 1, 2, 3]))]
    alpha = [a if a != 0x68 else 0x69 for a in alpha]
    head = bytes([0x68, ln & 0xFF, ln >> 8, rng.choice([86, 0, 86, 69, 1]), rng.choice(fg.DEVICES), 48, 5])
    pre = bytes(rng.choice(alpha) for _ in range(rng.choice([0, 0, 3, 40])))
    if n <= 4000:
        return pre + head + bytes(rng.choice(alpha) for _ in range(n))
    # long stretches repeat a short pattern over the alphabet, so that a failing input can be written down: [[hex, times], ...]
    pat = bytes(rng.choice(alpha) for _ in range(rng.choice([1, 1, 2, 5, 8])))
    parts = [[(pre + head).hex(), 1], [pat.hex(), n // len(pat)]]
    nz = unparts(parts)
    _PARTS[nz] = parts
    return nz


_PARTS = {}


def unparts(parts):
    return b"".join(bytes.fromhex(h) * k for h, k in parts)


def valid_frame(rng, inner68):
    for _ in range(10000):
        kind = rng.choice(fg.FRAME_TYPES)
        # every frame length 10..70 (every residue modulo any read size a reader might use), a few longer ones
        pl = bytes(rng.randrange(256) for _ in range(rng.choice([rng.randint(0, 60), rng.randint(0, 60), rng.randint(0, 60), 0, 1, 200])))
        fr = fg.mk(kind, pl, rng.choice([86, 0]), rng.choice(fg.DEVICES))
        if (0x68 in fr[1:]) == inner68:
            return fr
    raise AssertionError


def bcc68_valid(rng):
    for _ in range(100000):
        pl = bytearray(rng.randrange(256) for _ in range(rng.randint(1, 4)))
        fr = fg.mk(rng.choice(fg.FRAME_TYPES), pl, 86, 69)
        pl[-1] ^= fr[-2] ^ 0x68
        fr = fg.mk(fr[7], pl, 86, 69)
        if fr[-2] == 0x68 and 0x68 not in fr[1:-2]:
            return fr
    raise AssertionError


def trailing(obs, fr):
    """number of consecutive deliveries of the frame `fr` at the end of an observation (before the end of the stream)"""
    want = ("D", fr[7], fr[3], fr[4], fr[5], fr[6], hexs(fr[8:-2]))
    seq = [o for o in obs if o[0] != "L"]
    m = 0
    while m < len(seq) and tuple(seq[-1 - m][:7]) == want:
        m += 1
    return m


def judge_calls(res, s, obs, inp, blocked, from_delim=None):
    """clauses a, b, c on one implementation observation"""
    pos = 0
    for o in obs:
        n = o[-1]
        tag = o[0]
        if tag in ("X",):
            res.fail("spec", inp, "only protocol errors / end-of-stream / timeout", list(o),
                     f"read() raised {o[1]}, which is not a documented protocol error")
        if tag not in ("L", "T", "X") and n < 1:
            res.fail("spec", inp, ">= 1 byte consumed", list(o), "a call consumed no input")
        if tag != "L":
            seg = s[pos:pos + n]
            i = seg.find(b"\x68")
            if i >= 0 and n - i > 1000:
                res.fail("spec", inp, "<= 1000 bytes from the start delimiter", dict(call=list(o), from_delimiter=n - i),
                         "a call took more than the maximum frame length from the stream")
        pos += n
    if blocked is not None and blocked >= 1000:
        res.fail("spec", inp, "< 1000 bytes buffered while waiting", blocked,
                 "read() kept waiting although a maximum-size frame's worth of bytes had arrived")
    if from_delim is not None and from_delim >= 1000:
        res.fail("spec", inp, "a call completes once 1000 bytes from its start delimiter have arrived", dict(arrived_from_delimiter=from_delim),
                 "read() waits for more than the maximum frame size: 1000 bytes counted from the call's start delimiter had arrived and the call still waited")


async def _producer(stream, cuts):
    proto = AsyncProtocol(consumers_count=0)
    sr = asyncio.StreamReader()
    w = FakeWriter()
    proto.connection_established(sr, w)
    prev = 0
    for c in list(cuts) + [len(stream)]:
        if c > prev:
            sr.feed_data(stream[prev:c])
            prev = c
            for _ in range(30):
                await asyncio.sleep(0)
    for _ in range(200):
        await asyncio.sleep(0)
    producer = [t for t in proto.tasks if t.get_name() == "frame_producer_task"]
    alive = bool(producer) and not producer[0].done()
    got = []
    q = proto._queues.read
    while not q.empty():
        f = q.get_nowait()
        got.append(("D", int(f.frame_type), int(f.recipient), int(f.sender), int(f.econet_type), int(f.econet_version), hexs(f.message)))
    connected = proto.connected.is_set()
    for t in list(proto.tasks):
        t.cancel()
    await asyncio.gather(*proto.tasks, return_exceptions=True)
    return alive, connected, got


def run(ctx):
    rng = random.Random(ctx["seed"] * 15485863 + 14)
    tier = ctx["tier"]
    quick = tier == "quick"
    res = Result("C14")
    import pycode  # translator validation: generated Lean definitions vs the real functions (harness/pycode.py)
    pycode.check(res, random.Random(ctx["seed"] * 7919 + 77), ctx["tier"], ["frame", "reader"])
    res.rule = ("noise (uniform, delimiter-dense, header-shaped incl. length-boundary runts) optionally followed by runs of a "
                "valid frame of every kind; each stream read up front and lazily in random chunks; producer loop run on a real "
                "AsyncProtocol; noise and announced lengths 10..1001 under random ARRIVAL SCHEDULES with the implementation observed at every suspension "
                "(state, bytes buffered, bytes demanded <= 1000 - taken since the delimiter - buffered) against Model/ReaderChunks. distinct = distinct byte streams; non-trivial = noise containing >= 1 start delimiter")
    cases = []   # (label, noise, frame or None, copies)
    for fn, ln in load_corpus("C14"):
        w = ln.split()
        cases.append(("corpus:" + fn, bytes.fromhex(w[0]) if w[0] != "-" else b"", bytes.fromhex(w[1]) if len(w) > 1 else None,
                      int(w[2]) if len(w) > 2 else 0))
    n_noise = 700 if quick else 30000
    for _ in range(n_noise):
        mode = rng.choice(["uniform", "dense", "header"])
        cases.append(("noise:" + mode, noise(rng, rng.choice([0, 1, 5, 20, 60, 200, rng.randint(0, 400)]) , mode), None, 0))
    # idle / stuck line after a plausible header: longer than the maximum frame, a few longer than the stream reader's buffer limit
    for i in range(40 if quick else 1500):
        cases.append(("noise:stuck", stuck_line(rng, rng.choice([5, 300, 1001, 1500, rng.randint(1000, 3000)])), None, 0))
    for i in range(3 if quick else 40):
        cases.append(("noise:stuck-long", stuck_line(rng, rng.choice([65536, 70000, 131073]) + rng.randint(0, 2000)), None, 0))
    # checksum-valid frames of every one of the 256 type bytes (known or not), alone and followed by a known frame
    for kind in range(256):
        fr = fg.mk(kind, bytes(rng.randrange(256) for _ in range(rng.choice([0, 1, 4]))), rng.choice([86, 0]), rng.choice([69, 81]))
        cases.append(("noise:alltypes", fr + (fg.mk(25, b"", 86, 69) if kind & 1 else b""), None, 0))
    n_run = 250 if quick else 6000
    for i in range(n_run):
        mode = rng.choice(["uniform", "dense", "header"])
        nz = noise(rng, rng.choice([0, 3, 30, 150, rng.randint(0, 40), rng.randint(0, 600), 1200 if not quick else 300]), mode)
        if rng.random() < 0.1:
            nz = stuck_line(rng, rng.choice([0, 7, 1001, 1500]))
        inner = rng.random() < 0.25
        fr = bcc68_valid(rng) if (inner and rng.random() < 0.5) else valid_frame(rng, inner)
        copies = (1000 + 3 * len(fr)) // len(fr) + rng.randint(1, 4)
        if rng.random() < 0.5 and nz:
            nz = nz + b"\x68"        # enter the run misaligned with a pending delimiter
        cases.append(("run:" + ("inner68" if 0x68 in fr[1:] else "clean"), nz, fr, copies))
    if ctx.get("max_cases"):
        cases = cases[:ctx["max_cases"]]
    streams = [nz + (fr * copies if fr else b"") for _, nz, fr, copies in cases]
    answers = driver_batch("read " + hexs(s) for s in streams)
    prod_budget = 120 if quick else 3000
    prod_cases = []
    for ci, ((label, nz, fr, copies), s, ans) in enumerate(zip(cases, streams, answers)):
        model = reader.canon_model(reader.parse_model(ans))
        res.case(s, 0x68 in nz)
        res.count("label:" + label)
        runs = [((), False)]
        if len(s) > 2:
            k = rng.randint(1, 6)
            runs.append((tuple(sorted(rng.sample(range(1, len(s)), min(k, len(s) - 1)))), True))
        impl0 = None
        for cuts, lazy in runs:
            stats = {} if lazy else None
            obs = reader.canon_impl(reader.read_all(s, cuts, lazy, stats=stats))
            inp = dict(noise=nz.hex() if nz not in _PARTS else "%d bytes, see noise_parts: [[hex, times], ...]" % len(nz),
                       frame=fr.hex() if fr else None, copies=copies, cuts=list(cuts), lazy=lazy, label=label)
            if nz in _PARTS:
                inp["noise_parts"] = _PARTS[nz]
            judge_calls(res, s, obs, inp, stats.get("max_blocked_buffer") if stats else None,
                        stats.get("max_blocked_from_delimiter") if stats else None)
            if obs != model:
                res.fail("corr", inp, model[:40], obs[:40], "reader model and FrameReader.read() differ")
            for o in obs:
                res.count("outcome:" + o[0])
            if impl0 is None:
                impl0 = obs
            if fr:
                # clause e, on every way the stream was handed over (all buffered at once / lazily in chunks):
                # trailing consecutive deliveries of the frame
                m, lost_max = trailing(obs, fr), (999 + len(fr)) // len(fr)
                if m < copies - lost_max:
                    # F2 is a statement about particular INPUTS: the frame has an inner start delimiter and the run is entered so
                    # that the reader model itself (which describes that deviation, C14.resync_counterexample) loses the run.
                    # Anything the model does not lose is not F2.
                    f2 = 0x68 in fr[1:] and trailing(model, fr) < copies - lost_max
                    res.fail("spec", inp, f">= {copies - lost_max} trailing deliveries", dict(trailing_deliveries=m),
                             "run of identical valid frames not picked up within maximum frame length plus one frame",
                             finding="F2" if f2 else None)
                res.count("resync:" + ("ok" if m >= copies - lost_max else "lost"))
                res.count("run-frame-length-mod-7:%d" % (len(fr) % 7))
        if ci < prod_budget or label.startswith("corpus"):
            cuts = tuple(sorted(rng.sample(range(1, len(s)), min(3, len(s) - 1)))) if len(s) > 2 else ()
            alive, connected, got = vloop.run(_producer(s, cuts))
            want = [o[:7] for o in model if o[0] == "D"]
            # frames decided without the end of the stream must all have reached the read queue
            # (no EOF is fed here, so a trailing incomplete frame is still being waited for)
            if got != want[:len(got)] or len(got) < len(want) - 1 or not alive or not connected:
                res.fail("spec" if (not alive or not connected) else "corr",
                         dict(noise=nz.hex(), frame=fr.hex() if fr else None, copies=copies, cuts=list(cuts), label=label, via="producer"),
                         dict(alive=True, connected=True, delivered=want), dict(alive=alive, connected=connected, delivered=got),
                         "the connection's producer loop stopped, or frames after the noise did not reach the read queue")
            res.count("producer_runs")
            # the same stream through the producer machine (Model/Producer.lean, theorems in Props/C09Producer.lean):
            # fed one read() call at a time, with a write-fault script, followed by end of stream or silence
            if len(s) <= 2500:
                prod_cases.append(dict(stream=s.hex(), mode=rng.choice("es"), label=label,
                                       script=producer.rand_script(rng, min(s.count(b"\x68") + 1, 40), faulty=rng.random() < 0.5)))
        if len(res.samples) < 4 and label.split(":")[0] in ("run", "noise") and 0x68 in nz and not any(x["label"].split(":")[0] == label.split(":")[0] for x in res.samples):
            res.sample(dict(label=label, noise=nz.hex()[:200], frame=fr.hex() if fr else None, copies=copies,
                            outcomes=[list(o) for o in impl0[:8]]))
    # "never waits for more than the maximum frame size", at every suspension: noise under random arrival schedules, the
    # implementation observed whenever read() is suspended (which primitive, how many bytes it demands, how many are buffered,
    # how many it took since its start delimiter) against the resumable machine (C14.never_demands_beyond_max) and the bound itself
    import chunks
    from common import Parts
    parts = Parts(res)
    sub = [(label, s) for (label, _, _, _), s in zip(cases, streams) if len(s) <= 2600]
    sub = sub[:60] + rng.sample(sub[60:], min(len(sub) - 60, 240 if quick else 5000)) if len(sub) > 60 else sub
    for ln in ([10, 11, 999, 1000, 1001] if quick else [10, 11, 12, 500, 998, 999, 1000, 1001, 1002]):
        # a header announcing `ln` bytes, the body trickling in
        sub.append(("noise:announced-%d" % ln, bytes([0x68, ln & 0xFF, ln >> 8, 86, 69, 48, 5]) + bytes(rng.randrange(256) for _ in range(rng.choice([0, 3, max(ln - 8, 0), ln])))))
    parts.run("suspensions under arrival schedules vs the resumable reader machine", chunks.evaluate, res, sub,
              random.Random(ctx["seed"] * 15485863 + 141), True, 1 if quick else 2)
    parts.finish()
    producer.evaluate(res, [dict(c) for c in producer.CORPUS] + prod_cases, "C14")
    # readers and connections in a process with HISTORY: earlier read() calls abandoned (the real @timeout, a caller's wait_for,
    # cancellation, a connection ended) at every suspension point, the Frame.create executor hop included, each history in a
    # fresh python process so that the first use of a handler module can be the abandoned one (harness/history.py)
    import history
    parts2 = Parts(res)
    parts2.run("reader / connection histories with abandoned calls, in fresh processes", history.evaluate, res,
               random.Random(ctx["seed"] * 15485863 + 1415), tier, "C14")
    parts2.finish()
    # the whole connection (producer AND consumers) after noise that contains checksum-valid stray frames from the
    # known non-controller addresses 0x00 / 0x56: the run of valid frames that follows reaches the device
    producer.evaluate_pipeline(res, producer.pipeline_cases(rng, 60 if quick else 1500,
                                                          noise_fn=lambda r: noise(r, r.choice([0, 5, 20, 60]), r.choice(["uniform", "dense", "header"]))),
                               "C14")
    # concrete failing inputs first, open findings after new ones, the shortest input first
    res.failures.sort(key=lambda f: (f["kind"] != "spec", bool(f.get("finding")), len(str(f.get("input")))))
    return res


def replay(ctx):
    f = ctx["replay"].get("failure") or ctx["replay"].get("first_difference")
    i = f["input"]
    if i.get("via") == "history":
        import history
        res = Result("C14")
        res.rule = "replay of one recorded history of reader / connection sessions in a fresh process"
        history.replay_case(res, i, "C14")
        res.case(str(i["scenario"]))
        return res
    if i.get("via") == "chunks":
        import chunks
        res = Result("C14")
        res.rule = "replay of one recorded arrival schedule"
        chunks.replay_case(res, i)
        res.case(str(i["chunks"]))
        return res
    if i.get("via") == "pipeline":
        res = Result("C14")
        res.rule = "replay of one recorded noise + run stream through the whole connection"
        producer.replay_pipeline(res, i, "C14")
        res.case(i["stream"])
        return res
    if i.get("via") == "producer" and "script" in i:
        res = Result("C14")
        res.rule = "replay of one recorded producer run"
        producer.replay_case(res, i, "C14")
        res.case(i["stream"])
        return res
    nz = unparts(i["noise_parts"]) if "noise_parts" in i else bytes.fromhex(i["noise"])
    fr = bytes.fromhex(i["frame"]) if i.get("frame") else None
    s = nz + (fr * i.get("copies", 0) if fr else b"")
    res = Result("C14")
    res.rule = "replay of one recorded noise stream"
    stats = {}
    obs = reader.canon_impl(reader.read_all(s, tuple(i.get("cuts") or ()), bool(i.get("lazy")), stats=stats))
    model = reader.canon_model(reader.parse_model(driver_batch(["read " + hexs(s)])[0]))
    res.case(s)
    res.sample(dict(input=i, observed=[list(o) for o in obs[:20]]))
    judge_calls(res, s, obs, i, stats.get("max_blocked_buffer"), stats.get("max_blocked_from_delimiter"))
    if fr:
        m, lost_max = trailing(obs, fr), (999 + len(fr)) // len(fr)
        if m < i.get("copies", 0) - lost_max:
            res.fail("spec", i, f">= {i.get('copies', 0) - lost_max} trailing deliveries", dict(trailing_deliveries=m),
                     "run of identical valid frames not picked up within maximum frame length plus one frame",
                     finding="F2" if (0x68 in fr[1:] and trailing(model, fr) < i.get("copies", 0) - lost_max) else None)
    if obs != model:
        res.fail("corr", i, model[:40], obs[:40], "reader model and FrameReader.read() differ")
    return res

"""C05: payload decoding conforms to the wire layout -- both halves.
  c05_sensors (+ c05_regdata): sensor data chain, regulator data + schema
  c05_params: parameter blocks, schedules, alerts, UID / product info, password"""
import c05_params
import c05_sensors
from common import Result


def _merge(a, b):
    a.evaluations += b.evaluations
    a.nontrivial |= b.nontrivial
    a.samples = (a.samples[:4] + b.samples[:4])
    a.dist.update(b.dist)
    a.failures += b.failures
    a.notes += b.notes
    a.extra.update(b.extra)
    a.rule = a.rule + " || " + b.rule
    return a


def run(ctx):
    r1 = c05_sensors.run(ctx)
    r2 = c05_params.run(ctx)
    res = _merge(r1, r2)
    import random
    import pycode  # translator validation: generated Lean definitions vs the real functions (harness/pycode.py)
    pycode.check(res, random.Random(ctx["seed"] * 7919 + 77), ctx["tier"], ["uid", "params", "schedule", "structparams", "sensors"])
    # every decodable kind under every decoding context (no device / thermostat count / schema / product type) and at the
    # device level (handled twice, by two devices, after the device's data changed): harness/c05_ctx.py, Props/C05Ctx.lean
    import c05_ctx
    from common import Parts
    parts = Parts(res)
    parts.run("decoding contexts and device-level purity", c05_ctx.run_ctx, ctx, res)
    parts.finish()
    res.rule += (" || every class with a decode_message of its own (reflection) x payloads of the generators above + noise x 9-10 decoding contexts "
                 "(no device, fresh device, thermostat count 0/1/3, two schemas, product P/I, combinations): results grouped by what the kind may read "
                 "(C05.ctx_irrelevant_*, thermostat_reads_only_the_count, regdata_reads_only_the_schema) must agree; decoded twice; payload compared; "
                 "device level: one frame object handled by a device, again, by a second device, and a fresh frame after the device's data changed")
    res.failures.sort(key=lambda f: f["kind"] != "spec")
    return res


def replay(ctx):
    f = ctx["replay"].get("failure") or ctx["replay"].get("first_difference")
    inp = f["input"]
    if inp.get("kind") in ("ctx", "ctx-device"):
        import c05_ctx
        res = Result("C05")
        res.rule = "replay of one recorded payload under every decoding context and through the device-level steps"
        c05_ctx.replay_one(inp, res)
        return res
    if "family" in inp:
        return c05_params.replay(ctx)
    return c05_sensors.replay(ctx)

"""C05: payload decoding conforms to the wire layout -- both halves.
  c05_sensors (+ c05_regdata): sensor data chain, regulator data + schema
  c05_params: parameter blocks, schedules, alerts, UID / product info, password"""
import c05_params
import c05_sensors
from common import Result


def _merge(a, b):
    a.evaluations += b.evaluations
    a.nontrivial |= b.nontrivial
    a.samples = (a.samples[:4] + b.samples[:4])
    a.dist.update(b.dist)
    a.failures += b.failures
    a.notes += b.notes
    a.extra.update(b.extra)
    a.rule = a.rule + " || " + b.rule
    return a


def run(ctx):
    r1 = c05_sensors.run(ctx)
    r2 = c05_params.run(ctx)
    res = _merge(r1, r2)
    import random
    import pycode  # translator validation: generated Lean definitions vs the real functions (harness/pycode.py)
    pycode.check(res, random.Random(ctx["seed"] * 7919 + 77), ctx["tier"], ["uid", "params", "schedule", "structparams", "sensors"])
    res.failures.sort(key=lambda f: f["kind"] != "spec")
    return res


def replay(ctx):
    f = ctx["replay"].get("failure") or ctx["replay"].get("first_difference")
    inp = f["input"]
    if "family" in inp:
        return c05_params.replay(ctx)
    return c05_sensors.replay(ctx)

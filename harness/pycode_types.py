"""Validation of the class translator (tools/py2lean_types.py) and of its prelude
(lean/PlumVerif/Model/PyPreludeTypes.lean): every method the translator turned into a Lean definition
(lean/PlumVerif/Generated/PyCodeTypes.lean) is run here on a REAL instance put into a given slot state and,
through the driver op `pyt <Class.method> <fuel> <instance> <args…>`, as the GENERATED definition on the encoding of
the same state; compared are the result (value or exception class) AND the slots of the instance afterwards.

    pycode_types.check(res, rng, tier, groups)      groups ⊆ {types, net, frameobj, schedule}

A difference is a `corr` failure.  `err unsupported` = the prelude declines to model that input (counted, not compared):
invalid UTF-8 (replacement decoding), non-canonical spellings of an IPv4 address, floats of the other width.
Floats are compared as IEEE bit patterns of their class's width; every NaN is one token.
"""
import math
import re
import socket
import struct

from common import driver_batch, hexs, use_repo

use_repo()

from pyplumio.helpers import data_types as dt  # noqa: E402

import pycode  # noqa: E402

STRUCT_CLASSES = ["SignedChar", "UnsignedChar", "Short", "UnsignedShort", "Int", "UnsignedInt", "Int64", "UInt64", "Float", "Double"]
OTHER_CLASSES = ["Undefined", "BitArray", "IPv4", "IPv6", "String", "VarBytes", "VarString"]


class Unset:
    pass


UNSET = Unset()


def slot_names(cls):
    out = []
    for k in reversed(cls.__mro__):
        s = k.__dict__.get("__slots__", ())
        if isinstance(s, str):
            s = (s,)
        for n in s:
            if n not in out:
                out.append(n)
    return out


def slot_get(o, name):
    for k in type(o).__mro__:
        d = k.__dict__.get(name)
        if d is not None and type(d).__name__ == "member_descriptor":
            try:
                return d.__get__(o, type(o))
            except AttributeError:
                return UNSET
    return UNSET


def slot_set(o, name, v):
    for k in type(o).__mro__:
        d = k.__dict__.get(name)
        if d is not None and type(d).__name__ == "member_descriptor":
            d.__set__(o, v)
            return
    raise AttributeError(name)


def width(cls_name):
    return {"Float": 4, "Double": 8}.get(cls_name)


def fbits(v, w):
    try:
        raw = struct.pack("<f" if w == 4 else "<d", v)
    except OverflowError:
        return None
    return int.from_bytes(raw, "little")


def enc_val(v, w=None):
    """argument atom of a slot value / argument (None if it cannot be written down)"""
    if v is UNSET:
        return "~"
    if isinstance(v, float):
        w = w or 8
        b = fbits(v, w)
        if b is None:
            return None
        if struct.unpack("<f" if w == 4 else "<d", b.to_bytes(w, "little"))[0] != v and not math.isnan(v):
            return None         # not representable at that width
        return f"F{w}_{b}"
    if isinstance(v, str) and ":" in v:
        try:
            return "X" + hexs(socket.inet_pton(socket.AF_INET6, v))
        except OSError:
            return None
    if isinstance(v, (list, tuple, dict)):
        return None
    try:
        if isinstance(v, str):
            v.encode()
        return pycode.enc_scalar(v)
    except (TypeError, UnicodeEncodeError):
        return None


def enc_obj(o):
    w = width(type(o).__name__)
    parts = []
    for n in slot_names(type(o)):
        a = enc_val(slot_get(o, n), w)
        if a is None:
            return None
        parts.append(f"{n}={a}")
    return f"O{type(o).__name__}:" + ";".join(parts)


def show_val(v, w=None):
    if v is UNSET:
        return "~"
    if v is NotImplemented:
        return "NotImplemented"
    if isinstance(v, float):
        w = w or 8
        return f"F{w}_{fbits(v, w)}"
    if isinstance(v, str) and ":" in v:
        try:
            return "X" + hexs(socket.inet_pton(socket.AF_INET6, v))
        except OSError:
            pass
    if isinstance(v, dt.DataType):
        return show_obj(v)
    return pycode.show(v)


def show_obj(o):
    w = width(type(o).__name__)
    return type(o).__name__ + "{" + ",".join(f"{n}={show_val(slot_get(o, n), w)}" for n in slot_names(type(o))) + "}"


NAN = {4: lambda n: (n & 0x7F800000) == 0x7F800000 and (n & 0x7FFFFF) != 0,
       8: lambda n: (n & 0x7FF0000000000000) == 0x7FF0000000000000 and (n & 0xFFFFFFFFFFFFF) != 0}


def canon(ans):
    """every NaN pattern is one token"""
    return re.sub(r"F([48])_(\d+)", lambda m: f"F{m.group(1)}_nan" if NAN[int(m.group(1))](int(m.group(2))) else m.group(0), ans)


def exc_name(e):
    if isinstance(e, struct.error):
        return "StructError"
    if isinstance(e, UnicodeError):
        return "UnicodeError"
    if type(e) is OSError:
        return "OSError"
    return type(e).__name__


# ---------------------------------------------------------------------------------------------- cases

INT_BOUNDS = {"SignedChar": (1, True), "UnsignedChar": (1, False), "Short": (2, True), "UnsignedShort": (2, False),
              "Int": (4, True), "UnsignedInt": (4, False), "Int64": (8, True), "UInt64": (8, False)}


def values_for(name, rng, quick):
    n = 6 if quick else 60
    if name in INT_BOUNDS:
        k, signed = INT_BOUNDS[name]
        lo, hi = (-(1 << (8 * k - 1)), (1 << (8 * k - 1)) - 1) if signed else (0, (1 << (8 * k)) - 1)
        return [lo, hi, lo - 1, hi + 1, 0, 1, -1, True, False, None, "x", b"\x01"] + [rng.randint(lo, hi) for _ in range(n)] + \
            [rng.randint(lo - 1000, hi + 1000) for _ in range(3)]
    if name in ("Float", "Double"):
        w = width(name)
        pats = [0, 1, 0x3F800000 if w == 4 else 0x3FF0000000000000, (1 << (8 * w - 1)), (0x7F800000 if w == 4 else 0x7FF0000000000000),
                (0x7FC00000 if w == 4 else 0x7FF8000000000000), (0x7F800001 if w == 4 else 0x7FF0000000000001)] + \
            [rng.getrandbits(8 * w) for _ in range(n)]
        vals = [struct.unpack("<f" if w == 4 else "<d", p.to_bytes(w, "little"))[0] for p in pats]
        return vals + [None, "x", b"\x00"]
    if name == "IPv4":
        return ["0.0.0.0", "255.255.255.0", "192.168.1.7", "10.0.0.255", None, 5, b"\x01\x02\x03\x04", "1.2.3", "01.2.3.4", "1.2.3.4.5", "", "a.b.c.d",
                "256.1.1.1"] + [socket.inet_ntoa(bytes(rng.randrange(256) for _ in range(4))) for _ in range(n)]
    if name == "IPv6":
        return ["::1", "::", "fe80::1:2", None, 5] + [socket.inet_ntop(socket.AF_INET6, bytes(rng.randrange(256) for _ in range(16))) for _ in range(n)]
    if name in ("String", "VarString"):
        return ["", "a", "ecoMAX", "zażółć", "日本語", "a\x00b", "\U0001F600x", "x" * 254, "x" * 255, "x" * 256, "é" * 128, None, 5, b"ab"] + \
            ["".join(rng.choice("abcXYZ 09-_äßł日€") for _ in range(rng.randrange(12))) for _ in range(n)]
    if name == "VarBytes":
        return [b"", b"\x00", b"abc", bytes(255), bytes(256), None, 5, "ab"] + [bytes(rng.randrange(256) for _ in range(rng.randrange(9))) for _ in range(n)]
    if name == "BitArray":
        return [None, True, False, 0, 1, 5, 255, 256, -1, "x"]
    return [None, 0, b""]


def buffers_for(name, rng, quick):
    n = 10 if quick else 120
    out = [b"", b"\x00", b"\xff", b"\x01\x02", bytes(3), bytes(4), bytes(7), bytes(8), bytes(range(1, 17)), bytes(range(20)), None, 5, "ab", [1, 2]]
    for _ in range(n):
        out.append(bytes(rng.randrange(256) for _ in range(rng.choice([1, 2, 3, 4, 5, 8, 9, 15, 16, 17, 30]))))
    if name in ("String", "VarString", "VarBytes"):
        for s in ("abc", "zażółć", "日本語", "\U0001F600"):
            e = s.encode()
            out += [e + b"\x00rest", bytes([len(e)]) + e + b"tail", bytes([len(e) + 3]) + e, bytes([len(e) - 1]) + e, e[:-1] + b"\x00", bytes([len(e) - 1]) + e[:-1]]
        out += [b"\x00abc", b"\xff" + bytes(300), b"a\xffb\x00", b"\x03a\xffb"]
    return out


def instances(cls, rng, quick):
    """instances of the class in various slot states"""
    name = cls.__name__
    out = []

    def add(fn):
        try:
            o = fn()
        except Exception:  # noqa: BLE001
            return
        out.append(o)
    add(lambda: cls())
    add(lambda: cls.__new__(cls))
    for v in values_for(name, rng, True):
        if v is None:
            continue
        add(lambda v=v: cls(v))
    for b in buffers_for(name, rng, True)[:30]:
        if isinstance(b, bytes):
            add(lambda b=b: cls.from_bytes(b))
    # slots put into odd states directly
    for _ in range(6 if quick else 40):
        def odd():
            o = cls.__new__(cls)
            for s in slot_names(cls):
                r = rng.random()
                if s == "_struct" or r < 0.25:
                    continue
                if s in ("_size", "_index"):
                    slot_set(o, s, rng.choice([0, 0, 1, 2, 4, 7, 8, 3, 300, -1, rng.randrange(10)]))
                else:
                    vs = [v for v in values_for(name, rng, True)]
                    slot_set(o, s, rng.choice(vs))
            return o
        add(odd)
    if name == "BitArray":
        for v in (True, False, None, 5):
            for i in (0, 1, 6, 7, 8, -1):
                add(lambda v=v, i=i: cls(v, i))
        for b in range(0, 256, 37):
            for i in range(8):
                def mk(b=b, i=i):
                    o = cls.from_bytes(bytes([b]))
                    o.next(i)
                    return o
                add(mk)
    return out


def clone(o):
    c = type(o).__new__(type(o))
    for s in slot_names(type(o)):
        v = slot_get(o, s)
        if v is not UNSET:
            slot_set(c, s, v)
    return c


def cases_types(rng, quick):
    """(qualified name, instance or None, args, python thunk)"""
    for name in STRUCT_CLASSES + OTHER_CLASSES:
        cls = getattr(dt, name, None)
        if cls is None:
            continue
        w = width(name)
        vals = values_for(name, rng, quick)
        bufs = buffers_for(name, rng, quick)
        for v in vals:
            if name == "BitArray":
                for i in (0, 3, 7, 8, None, "x"):
                    yield f"{name}.new", None, [v, i], (lambda v=v, i=i: cls(v, i)), w
            elif name in ("String", "VarString", "VarBytes") and v is None:
                continue
            else:
                yield f"{name}.new", None, [v], (lambda v=v: cls(v)), w
        for b in bufs:
            for off in ((0, 1, 3, len(b) if isinstance(b, bytes) else 0, -1) if not quick or rng.random() < 0.3 else (0, rng.choice([0, 1, 2, 5]))):
                yield f"{name}.from_bytes", None, [b, off], (lambda b=b, off=off: cls.from_bytes(b, off)), w
        insts = instances(cls, rng, quick)
        for o in insts:
            for m in ("pack", "to_bytes"):
                yield f"{name}.{m}", o, [], (lambda o, m=m: getattr(o, m)()), w
            for m in ("size", "value"):
                yield f"{name}.{m}", o, [], (lambda o, m=m: getattr(o, m)), w
            for b in rng.sample(bufs, 6 if quick else 25):
                yield f"{name}.unpack", o, [b], (lambda o, b=b: o.unpack(b)), w
            iargs = [rng.choice(vals)] if name != "BitArray" else [rng.choice(vals), rng.choice([0, 5, 7])]
            yield f"{name}.__init__", o, iargs, (lambda o, iargs=iargs: o.__init__(*iargs)), w
            others = [rng.choice(insts), rng.choice(vals), clone(o), None]
            if name == "UnsignedChar":
                others.append(dt.SignedChar(1))
            for other in others:
                yield f"{name}.__eq__", o, [other], (lambda o, other=other: o.__eq__(other)), w
            if name == "BitArray":
                for i in (0, 1, 6, 7, 8, -1, None):
                    yield f"{name}.next", o, [i], (lambda o, i=i: o.next(i)), w


# ---------------------------------------------------------------------------------------------- frame object

from pyplumio import frames as fr  # noqa: E402
from pyplumio.const import DeviceType, FrameType  # noqa: E402


class TestFrame(fr.Frame):
    """the concrete kind the translated base class is validated with: the same members as `PyT.testEnv`"""

    __slots__ = ()
    frame_type = FrameType(49)

    def create_message(self, data):
        m = data.get("m", b"")
        if not isinstance(m, (bytes, bytearray)):
            raise ValueError
        return bytearray(m)

    def decode_message(self, message):
        if message[:1] == b"\xee":
            raise ValueError
        return {"m": bytes(message)}


TestFrame.__name__ = "Frame"
FRAME_SLOTS = ["recipient", "sender", "econet_type", "econet_version", "_handler", "_message", "_data"]


def enc_dict(d):
    return "E" + "+".join(hexs(k.encode()) + "/" + pycode.enc_scalar(x) for k, x in d.items())


def frame_states(rng, quick):
    msgs = [None, bytearray(), bytearray(b"\x01\x02"), bytearray(b"\xee\x01"), bytearray(range(40)), bytearray(300)]
    datas = [None, {}, {"m": b"\x07"}, {"m": b""}, {"m": 5}, {"x": 1}, {"m": bytes(70), "y": True}]
    hdrs = [(0, 86, 48, 5), (DeviceType.ECOMAX, DeviceType.ECONET, 48, 5), (255, 0, 0, 255), (256, 86, 48, 5), (0, -1, 48, 5),
            (0, 86, 300, 5), (0, 86, 48, 70000)]
    n = 40 if quick else 400
    for _ in range(n):
        yield rng.choice(hdrs) if rng.random() < 0.4 else hdrs[0], rng.choice(msgs), rng.choice(datas)
    yield hdrs[0], bytearray(65526), None
    yield hdrs[0], bytearray(65525), None


def mk_frame(hdr, msg, data):
    f = TestFrame.__new__(TestFrame)
    f.recipient, f.sender, f.econet_type, f.econet_version = hdr
    f._handler = None
    f._message = None if msg is None else bytearray(msg)
    f._data = None if data is None else dict(data)
    return f


def enc_frame(f):
    parts = []
    for n in FRAME_SLOTS:
        v = slot_get(f, n)
        a = "~" if v is UNSET else (enc_dict(v) if isinstance(v, dict) else pycode.enc_scalar(int(v) if isinstance(v, int) and not isinstance(v, bool) else v))
        parts.append(f"{n}={a}")
    return "OFrame:" + ";".join(parts)


def show_frame(f):
    def sv(v):
        if v is UNSET:
            return "~"
        return pycode.show(int(v) if isinstance(v, int) and not isinstance(v, bool) else v)
    return "Frame{" + ",".join(f"{n}={sv(slot_get(f, n))}" for n in FRAME_SLOTS) + "}"


def cases_frameobj(rng, quick):
    """(qualified name, frame state, extra argument atoms, python thunk on a fresh frame in that state)"""
    for hdr, msg, data in frame_states(rng, quick):
        for name, thunk in (("message", lambda f: f.message), ("data", lambda f: f.data), ("length", lambda f: f.length),
                            ("__len__", lambda f: f.__len__()), ("header", lambda f: f.header), ("bytes", lambda f: f.bytes)):
            yield f"Frame.{name}", (hdr, msg, data), [], thunk
        for m in (bytearray(), bytearray(b"\x09\x08"), None):
            yield "Frame.message.setter", (hdr, msg, data), [m], (lambda f, m=m: setattr(f, "message", m))
        for d in ({}, {"m": b"\x05"}, None):
            yield "Frame.data.setter", (hdr, msg, data), [d], (lambda f, d=d: setattr(f, "data", d))
    for hdr, msg, data in list(frame_states(rng, True))[:12]:
        for kw in ({}, {"m": b"\x01"}, {"z": 3}):
            args = [int(hdr[0]), int(hdr[1]), hdr[2], hdr[3], msg, data, kw]
            yield "Frame.new", None, args, (lambda args=args: TestFrame(*args[:6], **args[6]))


def check_frameobj(res, rng, tier):
    quick = tier == "quick"
    have = set(driver_batch(["pyt-functions"])[0].split())
    reqs, expect, inputs = [], [], []
    missing = set()
    for name, state, args, thunk in cases_frameobj(rng, quick):
        if name not in have:
            missing.add(name)
            continue
        atoms = []
        if state is not None:
            atoms.append(enc_frame(mk_frame(*state)))
        for a in args:
            atoms.append(enc_dict(a) if isinstance(a, dict) and state is None and False else pycode.enc(a))
        try:
            if state is not None:
                f = mk_frame(*state)
                r = thunk(f)
                exp = "ok (" + pycode.show(r) + "," + show_frame(f) + ")"
            else:
                exp = "ok " + show_frame(thunk())
        except Exception as e:  # noqa: BLE001
            exp = "err " + exc_name(e)
        reqs.append(f"pyt {name} 0 " + " ".join(atoms))
        expect.append(exp)
        inputs.append(dict(function=name, state=repr(state)[:200], args=[repr(a)[:80] for a in args]))
    answers = driver_batch(reqs)
    for line, exp, ans, inp in zip(reqs, expect, answers, inputs):
        res.case(("pycode_types", line[:300]))
        if ans.startswith("err unsupported"):
            res.count("pycode_types: outside the prelude's modelled domain (declined, not compared)")
            continue
        res.count("pycode_types:Frame")
        if ans == "bad-op":
            res.fail("corr", dict(inp, request=line[:400]), "an answer of the generated definition", "bad-op",
                     f"translated {inp['function']}: the driver has no generated definition of that name/arity, or the input could not be written down")
        elif ans != exp:
            res.fail("corr", dict(inp, request=line[:400]), dict(generated_lean=ans[:600]), dict(python=exp[:600]),
                     f"translated {inp['function']} (Generated/PyCodeTypes.lean via tools/py2lean_types.py + PyPreludeTypes) and the Python method differ")
    if missing:
        res.notes.append("pycode_types: not translated on this tree (outside the translator's subset), not compared: " + ", ".join(sorted(missing)))
    res.notes.append(f"pycode_types: {len(reqs)} evaluations of the translated frame object (getters, setters, length, header, bytes, construction) "
                     "compared with a real Frame subclass (result and slots afterwards)")
    return len(reqs)


# ---------------------------------------------------------------------------------------------- structures (W7c)

def enc_nested(v):
    """one word, nested: scalars, data-class instances `O<cls>(f=v,…)`, dicts `M(<hex key>=v,…)`"""
    import dataclasses
    if dataclasses.is_dataclass(v) and not isinstance(v, type):
        return "O" + type(v).__name__ + "(" + ",".join(f"{f.name}={enc_nested(getattr(v, f.name))}" for f in dataclasses.fields(v)) + ")"
    if isinstance(v, dict):
        return "M(" + ",".join(hexs(k.encode()) + "=" + enc_nested(x) for k, x in v.items()) + ")"
    if isinstance(v, int) and not isinstance(v, bool):
        return f"i{int(v)}"
    return pycode.enc_scalar(v)


def cases_net(rng, quick):
    """(qualified name, constant-parameter values, sender, args, thunk(structure))"""
    from pyplumio.const import EncryptionType
    from pyplumio.structures import network_info as ni
    from pyplumio.structures import program_version as pv
    n = 40 if quick else 600
    tags = [b"", b"\x01", b"\xff\xff", b"\x01\x02\x03", b"\x7a\x00", b"\x00\x00\x00", bytes(5)]
    softs = [pv.SOFTWARE_VERSION, "1.2.3", "0.0.0", "65535.65535.65535", "65536.0.0", "1.2", "1", "1.2.3.4", "a.b.c", "", "1..3", "01.002.3",
             " 1.2.3", "1_0.2.3", "+1.2.3", "1.2.-3", "1.2.3 ", "１.2.3", "1.2.x3", "12345678901234567890.1.1"]
    for _ in range(n):
        v = pv.VersionInfo(software=rng.choice(softs) if rng.random() < 0.5 else ".".join(str(rng.randrange(70000)) for _ in range(3)),
                           struct_tag=rng.choice(tags), struct_version=rng.choice([5, 0, 255, 256, -1, rng.randrange(256)]),
                           device_id=rng.choice(tags), processor_signature=rng.choice(tags))
        data = rng.choice([{}, {"version": v}, {"version": v}, {"version": v, "x": 1}])
        sender = rng.choice([86, 69, 0, 255, 256, -1, rng.randrange(256)])
        yield "ProgramVersionStructure.encode", [pv.SOFTWARE_VERSION], sender, [data], (lambda st, data=data: st.encode(data))
    for _ in range(n):
        m = bytes(rng.randrange(256) for _ in range(rng.choice([0, 1, 14, 15, 15, 15, 16, 20, 40])))
        off = rng.choice([0, 0, 1, 7])
        data = rng.choice([None, None, {}, {"x": 1}, {"version": 3}])
        yield "ProgramVersionStructure.decode", [], 86, [m, off, data], (lambda st, m=m, off=off, data=data: st.decode(bytearray(m), off, None if data is None else dict(data)))
    ip = lambda: socket.inet_ntoa(bytes(rng.randrange(256) for _ in range(4)))  # noqa: E731
    ips = lambda: rng.choice([ip(), ip(), "0.0.0.0", "255.255.255.0", "01.2.3.4", "1.2.3", "x"])  # noqa: E731
    ssids = ["", "boiler", "zażółć", "日本語", "x" * 255, "x" * 256, "é" * 128, "a b"]
    for _ in range(n):
        eth = ni.EthernetParameters(ip=ips(), netmask=ips(), gateway=ips(), status=rng.random() < 0.5)
        wlan = ni.WirelessParameters(ip=ips(), netmask=ips(), gateway=ips(), status=rng.random() < 0.5, ssid=rng.choice(ssids),
                                     encryption=rng.choice(list(EncryptionType) + [7]), signal_quality=rng.choice([100, 0, 255, 256, -1, rng.randrange(256)]))
        net = ni.NetworkInfo(eth=eth, wlan=wlan, server_status=rng.random() < 0.5)
        data = rng.choice([{}, {"network": net}, {"network": net}, {"network": net}])
        yield "NetworkInfoStructure.encode", [], 86, [data], (lambda st, data=data: st.encode(data))
    good = []
    for _ in range(n):
        net = ni.NetworkInfo(eth=ni.EthernetParameters(ip=ip(), netmask=ip(), gateway=ip(), status=rng.random() < 0.5),
                             wlan=ni.WirelessParameters(ip=ip(), netmask=ip(), gateway=ip(), status=rng.random() < 0.5, ssid=rng.choice(ssids[:5]),
                                                        encryption=rng.choice(list(EncryptionType)), signal_quality=rng.randrange(256)),
                             server_status=rng.random() < 0.5)
        good.append(bytes(ni.NetworkInfoStructure(None).encode({"network": net})))
    for _ in range(2 * n):
        r = rng.random()
        m = bytearray(rng.choice(good))
        if r < 0.3:
            m[rng.randrange(len(m))] = rng.randrange(256)
        elif r < 0.5:
            m = m[:rng.randrange(len(m) + 1)]
        elif r < 0.6:
            m = bytearray(rng.randrange(256) for _ in range(rng.randrange(60)))
        off = rng.choice([1, 1, 1, 0, 3])
        data = rng.choice([None, None, {}, {"x": 1}])
        yield "NetworkInfoStructure.decode", [], 86, [bytes(m), off, data], (lambda st, m=bytes(m), off=off, data=data: st.decode(bytearray(m), off, None if data is None else dict(data)))


def check_net(res, rng, tier):
    from pyplumio.structures import network_info as ni
    from pyplumio.structures import program_version as pv
    quick = tier == "quick"
    have = set(driver_batch(["pyt-functions"])[0].split())
    reqs, expect, inputs, missing = [], [], [], set()

    class FakeFrame:
        def __init__(self, sender):
            self.sender = sender
    for name, ks, sender, args, thunk in cases_net(rng, quick):
        if name not in have:
            missing.add(name)
            continue
        cls = {"ProgramVersionStructure": pv.ProgramVersionStructure, "NetworkInfoStructure": ni.NetworkInfoStructure}[name.split(".")[0]]
        self_atom = f"O{cls.__name__}(frame=OFrame(sender=i{sender}))"
        self_show = cls.__name__ + "{frame=Frame{sender=" + str(sender) + "}}"
        try:
            atoms = [enc_nested(k) for k in ks] + [self_atom] + [enc_nested(a) for a in args]
        except (TypeError, UnicodeEncodeError):
            continue
        try:
            r = thunk(cls(FakeFrame(sender)))
            exp = "ok (" + pycode.show(r) + "," + self_show + ")"
        except Exception as e:  # noqa: BLE001
            exp = "err " + exc_name(e)
        reqs.append(f"pytn {name} " + " ".join(atoms))
        expect.append(exp)
        inputs.append(dict(function=name, sender=sender, args=[repr(a)[:300] for a in args]))
    answers = driver_batch(reqs)
    for line, exp, ans, inp in zip(reqs, expect, answers, inputs):
        res.case(("pycode_types", line[:400]))
        if ans.startswith("err unsupported"):
            res.count("pycode_types: outside the prelude's modelled domain (declined, not compared)")
            continue
        res.count("pycode_types:" + inp["function"].split(".")[0])
        if ans == "bad-op":
            res.fail("corr", dict(inp, request=line[:600]), "an answer of the generated definition", "bad-op",
                     f"translated {inp['function']}: the driver has no generated definition of that name/arity, or the input could not be written down")
        elif ans != exp:
            res.fail("corr", dict(inp, request=line[:600]), dict(generated_lean=ans[:800]), dict(python=exp[:800]),
                     f"translated {inp['function']} (Generated/PyCodeTypes.lean via tools/py2lean_types.py + PyPreludeNet) and the Python method differ")
    if missing:
        res.notes.append("pycode_types: not translated on this tree (outside the translator's subset), not compared: " + ", ".join(sorted(missing)))
    res.notes.append(f"pycode_types: {len(reqs)} evaluations of the translated network-information / program-version structures "
                     "(encode, decode) compared with the real methods")
    return len(reqs)


GROUPS = {"types": cases_types}


def check(res, rng, tier, groups):
    quick = tier == "quick"
    reqs, expect, inputs = [], [], []
    have = set(driver_batch(["pyt-functions"])[0].split())
    missing = set()
    extra = 0
    if "net" in groups:
        extra += check_net(res, rng, tier)
        groups = [g for g in groups if g != "net"]
        if not groups:
            return extra
    if "frameobj" in groups:
        extra += check_frameobj(res, rng, tier)
        groups = [g for g in groups if g != "frameobj"]
        if not groups:
            return extra
    for g in groups:
        for name, inst, args, thunk, w in GROUPS[g](rng, quick):
            if name not in have:
                missing.add(name)
                continue
            atoms = []
            if inst is not None:
                atoms.append(enc_obj(inst))
            for a in args:
                atoms.append(enc_obj(a) if isinstance(a, dt.DataType) else enc_val(a, w))
            if any(a is None for a in atoms):
                continue
            line = f"pyt {name} 0 " + " ".join(atoms)
            try:
                if inst is not None:
                    o = clone(inst)
                    r = thunk(o)
                    exp = "ok (" + show_val(r, w) + "," + show_obj(o) + ")"
                else:
                    exp = "ok " + show_val(thunk(), w)
            except Exception as e:  # noqa: BLE001
                exp = "err " + exc_name(e)
            reqs.append(line)
            expect.append(exp)
            inputs.append(dict(function=name, instance=(show_obj(inst) if inst is not None else None), args=[(show_obj(a) if isinstance(a, dt.DataType) else repr(a)[:80]) for a in args]))
    if "types" in groups:
        tbl = driver_batch(["pyt-table DATA_TYPES"])[0]
        real = " ".join(c.__name__ for c in dt.DATA_TYPES)
        res.case(("pycode_types", "DATA_TYPES"))
        if tbl != real:
            res.fail("corr", dict(table="DATA_TYPES"), dict(generated_lean=tbl), dict(python=real),
                     "translated table DATA_TYPES (Generated/PyCodeTypes.lean) differs from the tuple the interpreter holds")
    answers = driver_batch(reqs)
    for line, exp, ans, inp in zip(reqs, expect, answers, inputs):
        res.case(("pycode_types", line))
        fn = inp["function"]
        if ans.startswith("err unsupported"):
            res.count("pycode_types: outside the prelude's modelled domain (declined, not compared)")
            continue
        res.count("pycode_types:" + fn.split(".")[0])
        if ans == "bad-op":
            res.fail("corr", dict(inp, request=line), "an answer of the generated definition", "bad-op",
                     f"translated {fn}: the driver has no generated definition of that name/arity, or the input could not be written down")
        elif canon(ans) != canon(exp):
            res.fail("corr", dict(inp, request=line), dict(generated_lean=ans), dict(python=exp),
                     f"translated {fn} (Generated/PyCodeTypes.lean via tools/py2lean_types.py + PyPreludeTypes) and the Python method differ")
    if missing:
        res.notes.append("pycode_types: not translated on this tree (outside the translator's subset), not compared: " + ", ".join(sorted(missing)))
    res.notes.append(f"pycode_types: {len(reqs)} evaluations of the generated class methods ({', '.join(groups)}) compared with the real methods "
                     "(result and instance slots afterwards)")
    return len(reqs)

"""Run the real Parameter.set / Parameter.update under the virtual loop, one external event
at a time (C08).  Reports enter through device.handle_frame(<parameters response built from
payload bytes>), so the real decode -> dispatch -> create_or_update -> update path runs.

Events (also the line-protocol tokens understood by the Lean driver op `c08`):
  c:<v>:<retries>:<timeout ms>   set(v, retries, timeout)
  b                              the held executor answers (request construction resumes)
  r:<value>:<min>:<max>          controller report for the parameter
  w:<ms>                         advance the clock (ignored if it would reach the pending timer)
  t                              advance the clock to the pending timer and let it fire
Observed outputs per event (canonical strings, same as the driver's):
  S:<raw value>:<t ms>  set request put on the write queue      R:<t ms>  re-read request
  T:<t ms> / F:<t ms>   set() returned True / False            E:<t ms>  set() raised ValueError
  X:...                 anything else (never expected)
"""
import asyncio
from asyncio import events

from common import use_repo
import vloop

use_repo()
from pyplumio.const import DeviceType, FrameType  # noqa: E402
from pyplumio.devices.ecomax import EcoMAX  # noqa: E402
from pyplumio.frames.messages import SensorDataMessage  # noqa: E402
from pyplumio.frames.responses import (  # noqa: E402
    EcomaxParametersResponse,
    MixerParametersResponse,
    SchedulesResponse,
    ThermostatParametersResponse,
    UIDResponse,
)
from pyplumio.structures.network_info import NetworkInfo  # noqa: E402

KINDS = ("ecomax", "mixer", "thermostat", "schedule")

# UID response payload (ecoMAX 350P2-ZF, product type 0 = ecoMAX P)
UID_PAYLOAD = bytes.fromhex("005A000B001600110D3833383655395A0000000A454D33353050322D5A46")
# sensor-data message after the frame-version list: state OFF, two thermostats available
# (one connected), five mixers (one connected) -- a recorded controller message
SENSOR_TAIL = bytes.fromhex(
    "0000000000ff0300000900d012b34101ffffffff02ffffffff03ffffffff04ffffffff05ffffffff06000000"
    "0007ffffffff08ffffffff29002d800020000000000010000000000000000001120b3a4b01ffffffff120a4801"
    "02280005020300002e42000048420200000e420000000005ffffffff28000800ffffffff28000800ffffffff28"
    "000800ffffffff280008000000a04128000800")
THERMOSTATS = 2

SET_TYPE = {"ecomax": FrameType.REQUEST_SET_ECOMAX_PARAMETER, "mixer": FrameType.REQUEST_SET_MIXER_PARAMETER,
            "thermostat": FrameType.REQUEST_SET_THERMOSTAT_PARAMETER, "schedule": FrameType.REQUEST_SET_SCHEDULE}
REFRESH_TYPE = {"ecomax": FrameType.REQUEST_ECOMAX_PARAMETERS, "mixer": FrameType.REQUEST_MIXER_PARAMETERS,
                "thermostat": FrameType.REQUEST_THERMOSTAT_PARAMETERS, "schedule": FrameType.REQUEST_SCHEDULES}


def sensor_message(versions):
    head = bytes([len(versions)]) + b"".join(bytes([ft, ver & 0xFF, ver >> 8]) for ft, ver in versions)
    return SensorDataMessage(sender=DeviceType.ECOMAX, message=bytearray(head + SENSOR_TAIL))


def report_frame(kind, triple):
    """parameters response carrying exactly one defined parameter: the one under test"""
    v, lo, hi = triple
    t = bytes([v, lo, hi])
    if kind == "ecomax":      # [_, start, count, triples...]   parameter index 0
        return EcomaxParametersResponse(sender=DeviceType.ECOMAX, message=bytearray(b"\x00\x00\x01" + t))
    if kind == "mixer":       # [_, start, count, mixers, triples...]   mixer 0, parameter index 0
        return MixerParametersResponse(sender=DeviceType.ECOMAX, message=bytearray(b"\x00\x00\x01\x01" + t))
    if kind == "thermostat":  # [_, start, count, profile triple, per thermostat: triples]; thermostat 0 'mode'
        return ThermostatParametersResponse(
            sender=DeviceType.ECOMAX, message=bytearray(b"\x00\x00\x02" + b"\xff\xff\xff" + t + b"\x00\x00\x05"))
    if kind == "schedule":    # [_, start, count, per schedule: index, switch, parameter triple, 42 bytes]
        return SchedulesResponse(
            sender=DeviceType.ECOMAX, message=bytearray(b"\x00\x00\x01" + b"\x00\x01" + t + bytes(42)))
    raise ValueError(kind)


def find_holder(device, kind):
    """(the device object that holds the parameter, the parameter's name)"""
    if kind == "ecomax":
        return device, "airflow_power_100"
    if kind == "mixer":
        return device.data["mixers"][0], "mixer_target_temp"
    if kind == "thermostat":
        return device.data["thermostats"][0], "mode"
    return device, "heating_schedule_parameter"


def find_parameter(device, kind):
    holder, name = find_holder(device, kind)
    return holder.data[name]


def tx_value(kind, frame):
    m = bytes(frame.message)
    if kind == "ecomax":
        return m[1] if len(m) == 2 and m[0] == 0 else None
    if kind == "mixer":
        return m[2] if len(m) == 3 and m[0] == 0 and m[1] == 0 else None
    if kind == "thermostat":   # [index + 1 + offset, value (size bytes)]
        return int.from_bytes(m[1:], "little") if len(m) == 2 and m[0] == 1 else None
    return m[3] if len(m) == 4 + 42 and m[0] == 1 and m[1] == 0 else None


class StampQueue(asyncio.Queue):
    """the device write queue; remembers the virtual time of every put"""

    def __init__(self, loop):
        super().__init__()
        self._vloop = loop
        self.stamps = []

    def _put(self, item):
        self.stamps.append(self._vloop.time())
        super()._put(item)


def ms(t):
    x = round(t * 1000)
    assert abs(x - t * 1000) < 1e-6, t
    return x


class Rig:
    """one device + one parameter, driven event by event"""

    def __init__(self, kind, tracking, hold, initial, start_ms=0, late=False, via_device=False):
        self.kind = kind
        self.via_device = via_device   # call Device.set(name, value, retries) instead of Parameter.set (timeout = default)
        self.late = late      # read the bytes of a queued set request only at the end of the run
        self.deferred = []    # (group list, position, frame, t)
        self.loop = vloop.new_loop(hold_executor=False)
        events._set_running_loop(self.loop)
        self.loop._vt = start_ms / 1000.0
        self.queue = StampQueue(self.loop)
        self.device = EcoMAX(self.queue, NetworkInfo())
        self.task = None
        self.reported = False
        self.device.handle_frame(UIDResponse(sender=DeviceType.ECOMAX, message=bytearray(UID_PAYLOAD)))
        self.loop.settle()
        versions = [(int(REFRESH_TYPE[kind]), 1)] if tracking else [(int(FrameType.REQUEST_ALERTS), 1)]
        self.device.handle_frame(sensor_message(versions))
        self.loop.settle()
        self.device.handle_frame(report_frame(kind, initial))
        self.loop.settle()
        self.param = find_parameter(self.device, kind)
        self.drain()
        self.loop.hold = hold

    def close(self):
        try:
            for t in asyncio.all_tasks(self.loop):
                t.cancel()
            self.loop.held.clear()
            self.loop.settle()
        finally:
            events._set_running_loop(None)
            asyncio.set_event_loop(None)
            self.loop.close()

    def now(self):
        return ms(self.loop.time())

    def drain(self):
        out = []
        while not self.queue.empty():
            f = self.queue.get_nowait()
            t = ms(self.queue.stamps.pop(0))
            if f.frame_type == SET_TYPE[self.kind]:
                if self.late:
                    self.deferred.append((out, len(out), f, t))
                    out.append(None)
                else:
                    out.append(self.show_set(f, t))
            elif f.frame_type == REFRESH_TYPE[self.kind]:
                out.append(f"R:{t}")
            else:
                out.append(f"X:{type(f).__name__}:{t}")
        if self.task is not None and self.task.done() and not self.reported:
            self.reported = True
            if self.task.cancelled():
                out.append("X:cancelled")
            elif self.task.exception() is not None:
                e = self.task.exception()
                out.append(f"E:{self.now()}" if isinstance(e, ValueError) else f"X:{type(e).__name__}")
            else:
                r = self.task.result()
                out.append((f"T:{self.now()}" if r is True else f"F:{self.now()}" if r is False else f"X:ret:{r!r}"))
        return out

    def show_set(self, f, t):
        v = tx_value(self.kind, f)
        return f"S:{v}:{t}" if v is not None else f"X:set-frame:{bytes(f.message).hex()}:{t}"

    def resolve(self):
        """late mode: encode the set requests now, after everything that happened since they were queued"""
        for out, k, f, t in self.deferred:
            out[k] = self.show_set(f, t)
        self.deferred = []

    def apply(self, ev):
        """apply one event token, return the canonical outputs it produced"""
        p = ev.split(":")
        loop = self.loop
        if p[0] == "c":
            if self.task is None:
                v, r, T = int(p[1]), int(p[2]), int(p[3])
                if self.via_device:
                    holder, name = find_holder(self.device, self.kind)
                    assert T == 5000, "Device.set uses Parameter.set's default timeout"
                    self.task = loop.create_task(holder.set(name, v, retries=r))
                else:
                    self.task = loop.create_task(self.param.set(v, retries=r, timeout=T / 1000.0))
        elif p[0] == "b":
            if loop.held:
                loop.release(0)
        elif p[0] == "r":
            self.device.handle_frame(report_frame(self.kind, (int(p[1]), int(p[2]), int(p[3]))))
        elif p[0] == "w":
            target = loop.time() + int(p[1]) / 1000.0
            nt = loop.next_timer()
            if nt is None or target < nt:
                loop.settle(until=target)
        elif p[0] == "t":
            nt = loop.next_timer()
            if nt is not None:
                loop.settle(until=nt)
        else:
            raise ValueError(ev)
        loop.settle()
        return self.drain()


def run_history(kind, tracking, hold, initial, events_, start_ms=0, late=False, via_device=False):
    """-> (groups: list of output lists per event, final clock ms, local triple at the end)"""
    rig = Rig(kind, tracking, hold, initial, start_ms, late, via_device)
    try:
        groups = [rig.apply(e) for e in events_]
        rig.resolve()
        vals = rig.param.values
        return groups, rig.now(), (vals.value, vals.min_value, vals.max_value)
    finally:
        rig.close()

"""Run the real Parameter.set / Parameter.update under the virtual loop, one external event
at a time (C08).  Reports enter through device.handle_frame(<parameters response built from
payload bytes>), so the real decode -> dispatch -> create_or_update -> update path runs.

Events (also the line-protocol tokens understood by the Lean driver op `c08`):
  c:<v>:<retries>:<timeout ms>   set(v, retries, timeout)
  b                              the held executor answers (request construction resumes)
  r:<value>:<min>:<max>          controller report for the parameter
  w:<ms>                         advance the clock (ignored if it would reach the pending timer)
  t                              advance the clock to the pending timer and let it fire
  k:1                            the controller starts announcing the parameters-frame version (tracking on)
Observed outputs per event (canonical strings, same as the driver's):
  S:<raw value>:<t ms>  set request put on the write queue      R:<t ms>  re-read request
  T:<t ms> / F:<t ms>   set() returned True / False            E:<t ms>  set() raised ValueError
  X:...                 anything else (never expected)
"""
import asyncio
from asyncio import events

from common import use_repo
import vloop

use_repo()
from pyplumio.const import DeviceType, FrameType  # noqa: E402
from pyplumio.devices.ecomax import EcoMAX  # noqa: E402
from pyplumio.frames.messages import SensorDataMessage  # noqa: E402
from pyplumio.frames.responses import (  # noqa: E402
    EcomaxParametersResponse,
    MixerParametersResponse,
    SchedulesResponse,
    ThermostatParametersResponse,
    UIDResponse,
)
from pyplumio.structures.network_info import NetworkInfo  # noqa: E402

KINDS = ("ecomax", "mixer", "thermostat", "schedule")

# UID response payload (ecoMAX 350P2-ZF, product type 0 = ecoMAX P)
UID_PAYLOAD = bytes.fromhex("005A000B001600110D3833383655395A0000000A454D33353050322D5A46")
# sensor-data message after the frame-version list: state OFF, two thermostats available
# (one connected), five mixers (one connected) -- a recorded controller message
SENSOR_TAIL = bytes.fromhex(
    "0000000000ff0300000900d012b34101ffffffff02ffffffff03ffffffff04ffffffff05ffffffff06000000"
    "0007ffffffff08ffffffff29002d800020000000000010000000000000000001120b3a4b01ffffffff120a4801"
    "02280005020300002e42000048420200000e420000000005ffffffff28000800ffffffff28000800ffffffff28"
    "000800ffffffff280008000000a04128000800")
THERMOSTATS = 2

SET_TYPE = {"ecomax": FrameType.REQUEST_SET_ECOMAX_PARAMETER, "mixer": FrameType.REQUEST_SET_MIXER_PARAMETER,
            "thermostat": FrameType.REQUEST_SET_THERMOSTAT_PARAMETER, "schedule": FrameType.REQUEST_SET_SCHEDULE,
            "profile": FrameType.REQUEST_SET_THERMOSTAT_PARAMETER, "control": FrameType.REQUEST_ECOMAX_CONTROL}
REFRESH_TYPE = {"ecomax": FrameType.REQUEST_ECOMAX_PARAMETERS, "mixer": FrameType.REQUEST_MIXER_PARAMETERS,
                "thermostat": FrameType.REQUEST_THERMOSTAT_PARAMETERS, "schedule": FrameType.REQUEST_SCHEDULES,
                "profile": FrameType.REQUEST_ECOMAX_PARAMETERS,   # the profile is an ecoMAX-level parameter
                "control": FrameType.REQUEST_ECOMAX_PARAMETERS}   # so is the on/off control switch

_TABLES = None


def tables():
    global _TABLES
    if _TABLES is None:
        import json
        import os
        from common import VERIF
        with open(os.path.join(VERIF, "build", "tables.json")) as f:
            _TABLES = json.load(f)
    return _TABLES


def _conv_words(kind, row):
    """driver words (cls mnum mden offset precision) as harness/paramdev.conv_words / Model/ParamTables.convOf"""
    cls = "sw" if row["switch"] else {"ecomax": "so", "mixer": "so", "thermostat": "sc", "schedule": "pl", "profile": "so",
                                      "control": "sw"}[kind]
    off = row["offset"] if cls == "so" else 0
    return f"{cls} {row['mult_num']} {row['mult_den']} {off} {row['precision']}"


# which parameter the rig works on.  id -> (kind, sub-device index, parameter index | schedule name, 'p'|'s')
TARGET_IDS = {
    # the four base targets (first parameter of the first sub-device / schedule)
    "ecomax": ("ecomax", 0, 0, None), "mixer": ("mixer", 0, 0, None), "thermostat": ("thermostat", 0, 0, None),
    "schedule": ("schedule", 0, "heating", "p"),
    # other addresses: another index, second mixer / thermostat, scaled rows (multiplier 0.1, offset 20), 2-byte row
    "ecomax:85": ("ecomax", 0, 85, None), "ecomax:88": ("ecomax", 0, 88, None), "ecomax:108": ("ecomax", 0, 108, None),
    "ecomax:18": ("ecomax", 0, 18, None),
    "mixer1:0": ("mixer", 1, 0, None), "mixer1:5": ("mixer", 1, 5, None), "mixer0:6": ("mixer", 0, 6, None),
    "thermostat1:0": ("thermostat", 1, 0, None), "thermostat1:1": ("thermostat", 1, 1, None),
    "thermostat0:8": ("thermostat", 0, 8, None),
    # schedules whose name extends another schedule's name, and the shorter one next to the longer
    "schedule:heating_circulation:p": ("schedule", 0, "heating_circulation", "p"),
    "schedule:mixer_10:p": ("schedule", 0, "mixer_10", "p"),
    "schedule:mixer_1:p": ("schedule", 0, "mixer_1", "p"),
    "schedule:intake_summer:s": ("schedule", 0, "intake_summer", "s"),
    "schedule:water_heater_2:p": ("schedule", 0, "water_heater_2", "p"),
    "schedule:heating:s": ("schedule", 0, "heating", "s"),
    # the thermostat profile: an ecoMAX-level number fed by the thermostat-parameters response
    "profile": ("profile", 0, 0, None),
    # the controller on/off switch: an ecoMAX-level switch fed by the state byte of the sensor-data message
    # (behind on_change: only a CHANGE of the state reaches the parameter), written by the control request
    "control": ("control", 0, 0, None),
    # a mixer switch
    "mixer0:4": ("mixer", 0, 4, None),
}
BASE_TARGETS = ("ecomax", "mixer", "thermostat", "schedule")
PARTNER = {"heating": "heating_circulation", "heating_circulation": "heating", "mixer_10": "mixer_1", "mixer_1": "mixer_10",
           "intake_summer": "intake", "water_heater_2": "water_heater"}


class Target:
    def __init__(self, tid):
        self.id = tid
        self.kind, self.dev, ix, self.part = TARGET_IDS[tid]
        t = tables()
        if self.kind == "schedule":
            self.sched = ix
            self.sched_index = t["schedules"].index(ix)
            self.partner = PARTNER[ix]
            self.partner_index = t["schedules"].index(self.partner)
            self.index = self.sched_index * 2 + (1 if self.part == "p" else 0)
            row = t["tables"]["scheduleParams"][self.index]
        elif self.kind == "profile":
            self.index = 0
            row = t["special"]["thermostatProfile"]
        elif self.kind == "control":
            self.index = 0
            row = t["special"]["ecomaxControl"]
        else:
            self.index = ix
            row = t["tables"][{"ecomax": "ecomaxP", "mixer": "mixerP", "thermostat": "thermostat"}[self.kind]][ix]
        self.row = row
        self.name = row["name"]
        self.size = row["size"] if self.kind == "thermostat" else 1
        self.switch = bool(row["switch"])
        self.conv = _conv_words(self.kind, row)
        self.scaled = (row["mult_num"], row["mult_den"]) != (1, 1) or (row["offset"] != 0 and self.kind != "thermostat")
        self.maxraw = 256 ** self.size - 1

    def display_of(self, raw):
        """a display value whose raw value is meant to be `raw` (what a user would type)"""
        r = self.row
        if (r["mult_num"], r["mult_den"]) != (1, 1):
            return round((raw - (r["offset"] if self.kind != "thermostat" else 0)) * (r["mult_num"] / r["mult_den"]), 1)
        if r["offset"] and self.kind != "thermostat":
            return raw - r["offset"]
        return raw


_TARGETS = {}


def target(tid):
    if isinstance(tid, Target):
        return tid
    if tid not in _TARGETS:
        _TARGETS[tid] = Target(tid)
    return _TARGETS[tid]


def sensor_message(versions, state=0):
    head = bytes([len(versions)]) + b"".join(bytes([ft, ver & 0xFF, ver >> 8]) for ft, ver in versions)
    return SensorDataMessage(sender=DeviceType.ECOMAX, message=bytearray(head + bytes([state]) + SENSOR_TAIL[1:]))


def _le(v, size):
    return int(v).to_bytes(size, "little")


def report_frame(tid, triple, versions=()):
    """parameters response in which the parameter under test carries `triple` (everything else
    in it is filler that never changes)"""
    tg = target(tid)
    v, lo, hi = triple
    E = DeviceType.ECOMAX
    if tg.kind == "control":     # sensor data whose state byte is OFF (0) / WORKING (3); the range of the switch is 0..1 by construction
        if (lo, hi) != (0, 1) or v not in (0, 1):
            raise ValueError("the control switch has no reportable range")
        return sensor_message(list(versions), 3 if v else 0)
    if tg.kind == "ecomax":      # [_, start, count, triples...]
        return EcomaxParametersResponse(sender=E, message=bytearray(bytes([0, tg.index, 1, v, lo, hi])))
    if tg.kind == "mixer":       # [_, start, count, mixers, per mixer: triples...]
        body = b"".join(bytes([v, lo, hi]) if m == tg.dev else bytes([5, 0, 100]) for m in range(2))
        return MixerParametersResponse(sender=E, message=bytearray(bytes([0, tg.index, 1, 2]) + body))
    if tg.kind == "thermostat":  # [_, start, count, profile triple, per thermostat: parameters 0..index, sized]
        rows = tables()["tables"]["thermostat"]
        body = b""
        for th in range(THERMOSTATS):
            for ix in range(tg.index + 1):
                sz = rows[ix]["size"]
                if th == tg.dev and ix == tg.index:
                    body += _le(v, sz) + _le(lo, sz) + _le(hi, sz)
                else:
                    body += _le(3, sz) + _le(0, sz) + _le(200, sz)
        return ThermostatParametersResponse(
            sender=E, message=bytearray(bytes([0, 0, THERMOSTATS * (tg.index + 1)]) + b"\xff\xff\xff" + body))
    if tg.kind == "profile":     # thermostat-parameters response whose profile triple is the parameter under test
        return ThermostatParametersResponse(
            sender=E, message=bytearray(bytes([0, 0, THERMOSTATS, v, lo, hi]) + bytes([3, 0, 200]) * THERMOSTATS))
    if tg.kind == "schedule":    # [_, start, count, per schedule: index, switch, parameter triple, 42 bytes]
        if tg.part == "p":
            rec = bytes([tg.sched_index, 1, v, lo, hi]) + bytes(42)
        else:
            rec = bytes([tg.sched_index, v, 9, 0, 100]) + bytes(42)
        partner = bytes([tg.partner_index, 0, 7, 0, 100]) + bytes(42)
        recs = [rec, partner] if tg.sched_index < tg.partner_index else [partner, rec]
        return SchedulesResponse(sender=E, message=bytearray(b"\x00\x00\x02" + b"".join(recs)))
    raise ValueError(tg.kind)


def find_holder(device, tid):
    """(the device object that holds the parameter, the parameter's name)"""
    tg = target(tid)
    if tg.kind == "mixer":
        return device.data["mixers"][tg.dev], tg.name
    if tg.kind == "thermostat":
        return device.data["thermostats"][tg.dev], tg.name
    return device, tg.name


def find_parameter(device, tid):
    holder, name = find_holder(device, tid)
    return holder.data[name]


def tx_value(tid, frame):
    """the raw value carried by a set request, None if it does not address the parameter under test
    (the addressing is asserted here: index / sub-device / offset / schedule number and the untouched fields)"""
    tg = target(tid)
    m = bytes(frame.message)
    if tg.kind == "ecomax":
        return m[1] if len(m) == 2 and m[0] == tg.index else None
    if tg.kind == "mixer":
        return m[2] if len(m) == 3 and m[0] == tg.dev and m[1] == tg.index else None
    if tg.kind == "profile":      # [index 0 + offset 0, value (1 byte)]
        return m[1] if len(m) == 2 and m[0] == 0 else None
    if tg.kind == "control":      # [value]
        return m[0] if len(m) == 1 else None
    if tg.kind == "thermostat":   # [index + 1 + thermostat * (parameters per thermostat), value (size bytes)]
        want = tg.index + 1 + tg.dev * (tg.index + 1)
        return int.from_bytes(m[1:], "little") if len(m) == 1 + tg.size and m[0] == want else None
    if len(m) != 4 + 42 or m[0] != 1 or m[1] != tg.sched_index or any(m[4:]):
        return None
    if tg.part == "p":
        return m[3] if m[2] == 1 else None
    return m[2] if m[3] == 9 else None


class StampQueue(asyncio.Queue):
    """the device write queue; remembers the virtual time of every put"""

    def __init__(self, loop):
        super().__init__()
        self._vloop = loop
        self.stamps = []

    def _put(self, item):
        self.stamps.append(self._vloop.time())
        super()._put(item)


def ms(t):
    x = round(t * 1000)
    assert abs(x - t * 1000) < 1e-6, t
    return x


class Rig:
    """one device + one parameter, driven event by event"""

    def __init__(self, kind, tracking, hold, initial, start_ms=0, late=False, via_device=False, display=None, fresh=False,
                 route=None, defer=False):
        self.defer = defer             # the parameter does not exist yet when the client calls Device.set(name, ...): its first report comes later
        self.route = route             # public set route (ROUTES); None: Parameter.set by keywords / Device.set (via_device)
        self.target = target(kind)
        self.tid = kind
        kind = self.kind = self.target.kind
        self.display = display         # value handed to set() instead of the raw value of the call token
        self.fresh = fresh             # Parameter.set on the object fetched from device.data right before the call
                                       # (default: on the object the client was handed BEFORE any later report)
        self.tracking = bool(tracking)
        self.via_device = via_device   # call Device.set(name, value, retries) instead of Parameter.set (timeout = default)
        self.late = late      # read the bytes of a queued set request only at the end of the run
        self.deferred = []    # (group list, position, frame, t)
        self.loop = vloop.new_loop(hold_executor=False)
        events._set_running_loop(self.loop)
        self.loop._vt = start_ms / 1000.0
        self.queue = StampQueue(self.loop)
        self.device = EcoMAX(self.queue, NetworkInfo())
        self.tasks = []          # one per set() call, in call order
        self.reported = set()
        self.broken = None
        self.device.handle_frame(UIDResponse(sender=DeviceType.ECOMAX, message=bytearray(UID_PAYLOAD)))
        self.loop.settle()
        versions = [(int(REFRESH_TYPE[kind]), 1)] if tracking else [(int(FrameType.REQUEST_ALERTS), 1)]
        self.versions = versions
        self.device.handle_frame(sensor_message(versions))
        self.loop.settle()
        if not defer:
            self.device.handle_frame(report_frame(self.target, initial, self.versions))
        self.loop.settle()
        try:
            self.param = find_parameter(self.device, self.target)
            if defer:
                self.broken = "X:parameter-exists-before-its-first-report"
        except KeyError:
            self.param = None
            if not defer:
                self.broken = "X:parameter-missing-after-its-first-report"
        self.drain()
        self.loop.hold = hold

    def close(self):
        try:
            for t in asyncio.all_tasks(self.loop):
                t.cancel()
            self.loop.held.clear()
            self.loop.settle()
        finally:
            events._set_running_loop(None)
            asyncio.set_event_loop(None)
            self.loop.close()

    def now(self):
        return ms(self.loop.time())

    def drain(self):
        out = []
        while not self.queue.empty():
            f = self.queue.get_nowait()
            t = ms(self.queue.stamps.pop(0))
            if f.frame_type == SET_TYPE[self.kind]:
                if self.late:
                    self.deferred.append((out, len(out), f, t))
                    out.append(None)
                else:
                    out.append(self.show_set(f, t))
            elif f.frame_type == REFRESH_TYPE[self.kind]:
                out.append(f"R:{t}")
            else:
                out.append(f"X:{type(f).__name__}:{t}")
        for i, task in enumerate(self.tasks):
            if task.done() and i not in self.reported:
                self.reported.add(i)
                if task.cancelled():
                    out.append(f"X:cancelled:{i}")
                elif task.exception() is not None:
                    e = task.exception()
                    out.append(f"E:{i}:{self.now()}" if isinstance(e, ValueError) else f"X:{type(e).__name__}:{i}")
                else:
                    r = task.result()
                    out.append((f"T:{i}:{self.now()}" if r is True else f"F:{i}:{self.now()}" if r is False else f"X:ret:{r!r}"))
        return out

    def show_set(self, f, t):
        v = tx_value(self.target, f)
        return f"S:{v}:{t}" if v is not None else f"X:set-frame:{bytes(f.message).hex()}:{t}"

    def resolve(self):
        """late mode: encode the set requests now, after everything that happened since they were queued"""
        for out, k, f, t in self.deferred:
            out[k] = self.show_set(f, t)
        self.deferred = []

    def apply(self, ev):
        """apply one event token, return the canonical outputs it produced"""
        if self.broken:
            b, self.broken = self.broken, "-"
            return [b] if b != "-" else []
        p = ev.split(":")
        loop = self.loop
        if p[0] == "c":
            if True:
                v, r, T = int(p[1]), int(p[2]), int(p[3])
                raw = v
                k = len(self.tasks)
                disp = self.display if not isinstance(self.display, list) else (self.display[k] if k < len(self.display) else None)
                if isinstance(self.display, list) or k == 0:
                    if disp is not None:
                        v = disp          # the display value whose raw value (Lean: toRaw) is the token's v
                if self.route is not None:
                    self.tasks.append(self.call_route(self.route, v, r, T, raw))
                elif self.via_device and T == 5000:      # Device.set uses Parameter.set's default timeout
                    holder, name = find_holder(self.device, self.target)
                    self.tasks.append(loop.create_task(holder.set(name, v, retries=r)))
                else:
                    handle = find_parameter(self.device, self.target) if self.fresh else self.param
                    self.tasks.append(loop.create_task(handle.set(v, retries=r, timeout=T / 1000.0)))
        elif p[0] == "b":
            if loop.held:
                loop.release(0)
        elif p[0] == "r":
            self.device.handle_frame(report_frame(self.target, (int(p[1]), int(p[2]), int(p[3])), self.versions))
        elif p[0] == "k":
            # the controller starts announcing the version of the parameters frame (sensor data with a
            # frame-versions entry): from now on has_frame_version(...) is True.  The announcement itself makes
            # the device request that frame once (C15's business): that request is taken off the queue here.
            if p[1] != "1":
                raise ValueError("tracking cannot be switched off by any frame")
            if not self.tracking:
                self.tracking = True
                before = self.drain()
                hold, loop.hold = loop.hold, False
                self.versions = [(int(REFRESH_TYPE[self.kind]), 1)]
                state = 3 if (self.kind == "control" and self.device.data["ecomax_control"].values.value) else 0
                self.device.handle_frame(sensor_message(self.versions, state))
                loop.settle()
                loop.hold = hold
                got = []
                while not self.queue.empty():
                    got.append(self.queue.get_nowait())
                    self.queue.stamps.pop(0)
                ok = len(got) == 1 and got[0].frame_type == REFRESH_TYPE[self.kind]
                return before + ([] if ok else [f"X:versions:{[type(g).__name__ for g in got]}".replace(" ", "")])
        elif p[0] == "w":
            target = loop.time() + int(p[1]) / 1000.0
            nt = loop.next_timer()
            if nt is None or target < nt:
                loop.settle(until=target)
        elif p[0] == "t":
            nt = loop.next_timer()
            if nt is not None:
                live = [h._when for h in loop._scheduled if not h._cancelled]
                if live.count(nt) > 1:
                    raise Tie(f"two sleeps end at {nt}")
                loop.settle(until=nt)
        else:
            raise ValueError(ev)
        loop.settle()
        return self.drain()


# ----------------------------------------------------------------------------- public set routes
# route id -> (object the call is made on, method, argument form).  The call token c:<v>:<retries>:<timeout> is what the
# CALLER means; a form that leaves an argument out is only admissible when the token carries that argument's documented
# default (5 attempts, 5.0 s), a turn_on/turn_off form only for the value 1/0.
#   object: P = the Parameter object, D = the device object that holds it (by name), E = the EcoMAX (control switch only)
#   forms : kw  f(v, retries=r, timeout=T)   pos f(v, r, T)   wk f(v, timeout=T, retries=r)   r f(v, r) / f(v, retries=r)
#           t   f(v, timeout=T)              0   f(v)         on/off  f()
# Device.set / set_nowait: `timeout` is documented as the time to wait for the parameter to become available and is
# NOT the retry interval (the set machine runs with the default interval): forms kw/pos pass a Device-level timeout
# and demand T = 5000 of the token.
DEFAULT_RETRIES, DEFAULT_TIMEOUT = 5, 5000
ROUTES = {}
for _obj, _meths in (("P", ("set", "set_nowait")), ("D", ("set", "set_nowait"))):
    for _m in _meths:
        for _form in ("kw", "pos", "wk", "r", "rk", "t", "0"):
            if _obj == "D" and _form == "t":
                continue
            ROUTES[f"{_obj}.{_m}/{_form}"] = (_obj, _m, _form)
for _obj in ("P", "E"):
    for _m in ("turn_on", "turn_off", "turn_on_nowait", "turn_off_nowait"):
        ROUTES[f"{_obj}.{_m}"] = (_obj, _m, "on" if "_on" in _m else "off")


def route_admits(route, tg, v, r, T):
    """may the call token c:v:r:T be expressed through this route on this target?"""
    obj, meth, form = ROUTES[route]
    if form in ("on", "off"):
        if not tg.switch or (obj == "E") != (tg.kind == "control"):
            return False
        return v == (1 if form == "on" else 0) and r == DEFAULT_RETRIES and T == DEFAULT_TIMEOUT
    if obj == "D" or form in ("r", "rk", "0"):
        if T != DEFAULT_TIMEOUT:
            return False
    if form in ("t", "0") and r != DEFAULT_RETRIES:
        return False
    return True


def routes_for(tg, v, r, T):
    return [k for k in ROUTES if route_admits(k, tg, v, r, T)]


def _call_args(form, v, r, T, device_level, raw=0):
    ts = T / 1000.0 if T % 1000 else (T // 1000 if (raw + r) % 2 else T / 1000.0)    # 2 and 2.0 are both "two seconds"
    if device_level:     # Device.set(name, value, retries, timeout): timeout = wait for the parameter (it exists: no wait)
        wait = [None, 0.25, 3, 7.5][(raw + r) % 4]
        return {"kw": ((v,), dict(retries=r, timeout=wait)), "pos": ((v, r, wait), {}), "wk": ((v,), dict(timeout=wait, retries=r)),
                "r": ((v, r), {}), "rk": ((v,), dict(retries=r)), "0": ((v,), {})}[form]
    return {"kw": ((v,), dict(retries=r, timeout=ts)), "pos": ((v, r, ts), {}), "wk": ((v,), dict(timeout=ts, retries=r)),
            "r": ((v, r), {}), "rk": ((v,), dict(retries=r)), "t": ((v,), dict(timeout=ts)), "0": ((v,), {}),
            "on": ((), {}), "off": ((), {})}[form]


def _no_task(loop, what):
    fut = loop.create_future()
    fut.set_exception(RuntimeError(what))
    return fut


def _rig_call_route(self, route, v, r, T, raw):
    """make the call through the public route; -> the task / future whose completion is the end of the call
    (v: the value handed over, raw: the raw value the call token means)"""
    obj, meth, form = ROUTES[route]
    if not route_admits(route, self.target, raw, r, T):
        raise ValueError(f"route {route} cannot express c:{raw}:{r}:{T} on {self.tid}")
    holder, name = find_holder(self.device, self.target)
    if obj == "P":
        on = find_parameter(self.device, self.target) if self.fresh else self.param
        owner = on.device
        args, kw = _call_args(form, v, r, T, False, raw)
    elif obj == "D":
        on, owner = holder, holder
        args, kw = _call_args(form, v, r, T, True, raw)
        args = (name,) + args
    else:
        on, owner = self.device, self.device
        args, kw = (), {}
    fn = getattr(on, meth)
    if meth.endswith("_nowait"):
        before = set(owner.tasks)
        ret = fn(*args, **kw)
        new = [t for t in owner.tasks if t not in before]
        if ret is not None:
            return _no_task(self.loop, f"nowait-returned:{type(ret).__name__}")
        if len(new) != 1:
            return _no_task(self.loop, f"nowait-tasks:{len(new)}")
        return new[0]
    return self.loop.create_task(fn(*args, **kw))


Rig.call_route = _rig_call_route


class Tie(Exception):
    """two timers of overlapping calls are due at the same virtual instant: the order is not the property's business"""


def run_history(kind, tracking, hold, initial, events_, start_ms=0, late=False, via_device=False, display=None, fresh=False,
                route=None, defer=False):
    """-> (groups: list of output lists per event, final clock ms, local triple at the end)"""
    rig = Rig(kind, tracking, hold, initial, start_ms, late, via_device, display, fresh, route, defer)
    try:
        groups = [rig.apply(e) for e in events_]
        rig.resolve()
        if rig.param is None and defer:
            try:
                rig.param = find_parameter(rig.device, rig.target)
            except KeyError:
                pass
        if rig.param is None:
            return groups, rig.now(), (-1, -1, -1), False
        # the triple the CLIENT sees through device.data now must be the kept object's (parameters are updated in place)
        now_obj = find_parameter(rig.device, rig.target)
        if now_obj is not rig.param:
            groups[-1 if groups else 0:] = (groups[-1:] or [[]])
            groups[-1].append("X:parameter-object-replaced")
        vals = now_obj.values
        return groups, rig.now(), (vals.value, vals.min_value, vals.max_value), bool(now_obj.pending_update)
    finally:
        rig.close()

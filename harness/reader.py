"""Run the real FrameReader on a real asyncio.StreamReader and canonicalise what each
read() call did:  (tag, detail..., consumed)  with tags
  D kind rcpt sender etype ever payloadhex   frame delivered
  I                                          None returned (ignored)
  E <ProtocolError subclass>                 protocol error
  L                                          OSError (connection lost)
  T                                          asyncio.TimeoutError
  X <class>                                  anything else (never expected)
"""
import asyncio

from common import hexs, use_repo
import vloop

use_repo()
from pyplumio.exceptions import ProtocolError  # noqa: E402
from pyplumio.stream import FrameReader  # noqa: E402

PERR_CLASS = {
    "incompleteHeader": "ReadError",
    "badLength": "ReadError",
    "incompleteFrame": "ReadError",
    "unknownDevice": "UnknownDeviceError",
    "checksum": "ChecksumError",
    "unknownFrame": "UnknownFrameError",
}


def _frame_fields(f):
    """never raises: reading a delivered frame's fields may raise on a modified tree (that is judged where the fields are used)"""
    try:
        return (int(f.frame_type), int(f.recipient), int(f.sender), int(f.econet_type), int(f.econet_version), hexs(f.message))
    except Exception as e:  # noqa: BLE001
        return ("!" + type(e).__name__,)


def check_fresh(kept, problems):
    """kept: [(call index, frame object, fields read at delivery)] of ONE reader, all still alive.  Appends to `problems`
    (call index, what, detail): an object handed out twice; a delivered frame whose fields changed after later reads."""
    seen = {}
    for i, f, at_delivery in kept:
        if id(f) in seen:
            problems.append((i, "same-object", dict(earlier_call=seen[id(f)], fields=list(at_delivery))))
        else:
            seen[id(f)] = i
        now = _frame_fields(f)
        if now != at_delivery:
            problems.append((i, "changed-after-delivery", dict(at_delivery=list(at_delivery), later=list(now))))


async def _read_all(stream: bytes, cuts, lazy, max_calls, stats=None, fresh=None):
    sr = asyncio.StreamReader()
    fr = FrameReader(sr)
    kept = []
    chunks = []
    prev = 0
    for c in list(cuts) + [len(stream)]:
        if c > prev:
            chunks.append(stream[prev:c])
            prev = c
    fed = 0
    pending = list(chunks)
    eof = False

    def feed_next():
        nonlocal fed, eof
        if pending:
            ch = pending.pop(0)
            fed += len(ch)
            sr.feed_data(ch)
        elif not eof:
            eof = True
            sr.feed_eof()

    if not lazy:
        while not eof:
            feed_next()
    out = []
    consumed_before = 0
    for _ in range(max_calls):
        t = asyncio.ensure_future(fr.read())
        guard = 0
        while not t.done():
            await asyncio.sleep(0)
            if not t.done() and sr._waiter is not None:
                if stats is not None:
                    # bytes sitting in the buffer while the reader still waits for more
                    stats["max_blocked_buffer"] = max(stats.get("max_blocked_buffer", 0), len(sr._buffer))
                    # bytes that have ARRIVED for this call, counted from its first start delimiter, while it still waits
                    # (consumed or not: a call that took a frame's worth and waits for more is waiting beyond the frame)
                    i = stream.find(b"\x68", consumed_before, fed)
                    if i >= 0 and not eof:
                        stats["max_blocked_from_delimiter"] = max(stats.get("max_blocked_from_delimiter", 0), fed - i)
                feed_next()
            guard += 1
            if guard > 100000:
                t.cancel()
                raise RuntimeError("reader harness: no progress")
        consumed_total = fed - len(sr._buffer)
        n = consumed_total - consumed_before
        consumed_before = consumed_total
        exc = t.exception()
        if exc is None:
            f = t.result()
            if f is None:
                out.append(("I", n))
            else:
                try:
                    payload = hexs(f.message)
                except Exception as e:  # noqa: BLE001 -- reading the delivered payload must not raise
                    payload = "!" + type(e).__name__
                # the application then looks at the decoded content: the frame must go on carrying the bytes it was read from
                try:
                    f.data  # noqa: B018
                except Exception:  # noqa: BLE001 -- an undecodable payload is C05's / C09's business
                    pass
                try:
                    again = hexs(f.message)
                    if again != payload or (not payload.startswith("!") and bytes(f.bytes)[8:-2] != bytes(f.message)):
                        payload = f"{payload}->{again}"
                except Exception as e:  # noqa: BLE001
                    if not payload.startswith("!"):
                        payload = f"{payload}->!{type(e).__name__}"
                out.append(("D", int(f.frame_type), int(f.recipient), int(f.sender), int(f.econet_type),
                            int(f.econet_version), payload, n,
                            type(f).__name__))
                if fresh is not None:
                    kept.append((len(out) - 1, f, _frame_fields(f)))
        elif isinstance(exc, ProtocolError):
            out.append(("E", type(exc).__name__, n))
        elif isinstance(exc, asyncio.TimeoutError):
            out.append(("T", n))
            break
        elif isinstance(exc, OSError):
            out.append(("L", n))
            break
        else:
            out.append(("X", type(exc).__name__, n))
            break
    if fresh is not None:
        check_fresh(kept, fresh)
    return out


def read_all(stream: bytes, cuts=(), lazy=False, max_calls=None, stats=None, fresh=None):
    """fresh: a list -> every delivered frame object is kept alive to the end of the stream and checked by check_fresh"""
    if max_calls is None:
        max_calls = len(stream) + 2
    return vloop.run(_read_all(bytes(stream), cuts, lazy, max_calls, stats, fresh))


def parse_model(line):
    """driver `read` answer -> list of canonical tuples comparable with read_all()"""
    out = []
    for part in line.split(";"):
        w = part.split(" ")
        if w[0] == "D":
            out.append(("D", int(w[1]), int(w[2]), int(w[3]), int(w[4]), int(w[5]), w[6], int(w[7])))
        elif w[0] == "I":
            out.append(("I", int(w[1])))
        elif w[0] == "E":
            out.append(("E", PERR_CLASS[w[1]], int(w[2]), w[1]))
        elif w[0] == "L":
            out.append(("L", int(w[1])))
        else:
            raise ValueError(part)
    return out


def canon_impl(obs):
    """granularity of the properties: a protocol error is a protocol error (the subclass is
    informational), delivered frames are compared by their fields (class name informational)"""
    out = []
    for o in obs:
        if o[0] == "D":
            out.append(o[:8])
        elif o[0] == "E":
            out.append(("E", o[-1]))
        else:
            out.append(o)
    return out


def canon_model(obs):
    return [("E", o[2]) if o[0] == "E" else o for o in obs]

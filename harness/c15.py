"""C15 correspondence: sensor-data / regulator-data frames carrying frame-version announcements fed
into a real EcoMAX device through `handle_frame`, each run to quiescence, observing the frames that
appear on the device queue -- versus the Lean model (`c15`) and the Lean judge `C15.spec` (`c15judge`).

Case text (also corpus / replay format): events separated by blanks
    s<k>:<v>,<k>:<v>,...  (or s-)   announcement carried by a sensor-data message (wire order)
    r<k>:<v>,...          (or r-)   announcement carried by a regulator-data message
    e<k>,<k>,...          (or e-)   `frame_errors` dispatched with these kinds (as async_setup does)
    q<k>:<n>                        the public `request(name, kind, retries=n)` for a value that never arrives
    c<name>:<b>,<name>:<b>...       client callbacks subscribed from here on: name = a sensor name (state, fan, thermostat,
                                    mixers_connected), `frame_versions`, `sensors` or `regdata`; behaviour b: x raises, p suspends
                                    (a few loop turns) and returns, h suspends until the NEXT event has been handled, H suspends
                                    until the end of the history, u unsubscribes itself and returns, o = subscribe_once + raises
An announcement may carry a suffix ~<letters>: what happens to the frame object BEFORE the device handles it:
    r repr(frame)   d frame.data   m frame.message   l len(frame)   e frame == <a twin built from the same bytes>   b frame.bytes
    w the frame arrives as bytes through a real FrameReader (asyncio.StreamReader)   g the same with DEBUG logging of the
    `pyplumio` loggers switched on while the event is handled (the reader logs "Received frame: %s").
    h  (a word of its own) from here on `run_in_executor` jobs (the class import inside every `Request.create`) complete one
       at a time, each only after the loop has gone idle -- as with a real executor thread, the handler of an announcement is
       then SUSPENDED inside `Request.create` while the other callbacks of the same message run.
None of this is an event of the model: the statement's oracle does not depend on it.
"""
import asyncio
from asyncio import events as aio_events
import itertools
import logging
import random
import struct

from common import Result, driver_batch, load_corpus, use_repo
import vloop

use_repo()
from pyplumio.const import DeviceType, FrameType  # noqa: E402
from pyplumio.devices.ecomax import SETUP_FRAME_TYPES, EcoMAX  # noqa: E402
from pyplumio.devices.ecoster import EcoSTER  # noqa: E402
from pyplumio.frames import Request, is_known_frame_type  # noqa: E402
from pyplumio.frames.messages import RegulatorDataMessage, SensorDataMessage  # noqa: E402
from pyplumio.structures.modules import MODULES  # noqa: E402
from pyplumio.structures.network_info import NetworkInfo  # noqa: E402
from pyplumio.stream import FrameReader  # noqa: E402

NAN = struct.pack("<I", 0x7FC00000)
KNOWN = [int(m.value) for m in FrameType]
REQUESTS = [int(m.value) for m in FrameType if m.name.startswith("REQUEST_")]
FOREIGN = [k for k in KNOWN if k not in REQUESTS]
UNKNOWN = [k for k in range(256) if k not in KNOWN]
SETUP = [int(d.frame_type) for d in SETUP_FRAME_TYPES]


def versions_block(entries):
    b = bytearray([len(entries)])
    for k, v in entries:
        b.append(k)
        b += struct.pack("<H", v)
    return b


def sensor_payload(entries):
    """minimal valid sensor-data message: the frame-versions block, then every later block empty/absent"""
    b = versions_block(entries)
    b += bytes([0])                      # state
    b += bytes(4) + bytes(4)             # outputs, output flags
    b += bytes([0])                      # temperatures: none
    b += bytes(4)                        # statuses
    b += bytes([0])                      # pending alerts
    b += bytes([255])                    # fuel level: undefined
    b += bytes([0])                      # transmission
    b += NAN + bytes([255]) + NAN + NAN  # fan power, boiler load, boiler power, fuel consumption: undefined
    b += bytes([0])                      # thermostat
    b += bytes([255] * len(MODULES))     # no module versions
    b += bytes([255])                    # no lambda sensor
    b += bytes([255])                    # no thermostats
    b += bytes([0])                      # no mixers
    return b


def regdata_payload(entries):
    """regulator-data message: 2 bytes skipped, version 1.0, frame-versions block, no schema -> nothing more"""
    return bytearray([0, 0, 0, 1]) + versions_block(entries)


def parse_case(text):
    evs = []
    for w in text.split():
        kind, body = w[0], w[1:]
        if kind in "sr":
            body, _, how = body.partition("~")
            entries = [] if body == "-" else [tuple(int(x) for x in e.split(":")) for e in body.split(",")]
            evs.append((kind + how, entries))
        elif kind == "c":
            evs.append(("c", [tuple(e.split(":")) for e in body.split(",")]))
        elif w == "h":
            evs.append(("h", None))
        elif kind == "e":
            evs.append(("e", [] if body == "-" else [int(x) for x in body.split(",")]))
        elif kind == "q":
            evs.append(("q", tuple(int(x) for x in body.split(":"))))
        else:
            raise ValueError(w)
    return evs


def case_text(evs):
    out = []
    for kind, body in evs:
        if kind == "e":
            out.append("e" + (",".join(map(str, body)) or "-"))
        elif kind == "q":
            out.append(f"q{body[0]}:{body[1]}")
        elif kind == "c":
            out.append("c" + ",".join(f"{n}:{b}" for n, b in body))
        elif kind == "h":
            out.append("h")
        else:
            out.append(kind[0] + (",".join(f"{k}:{v}" for k, v in body) or "-") + ("~" + kind[1:] if kind[1:] else ""))
    return " ".join(out)


def model_events(evs):
    """the events the statement speaks about: announcements (without what happened to the frame object before), the
    unsupported set, failed requests; client subscribers are no events of the model"""
    return [(k[0], body) for k, body in evs if k[0] not in "ch"]


def lean_events(evs):
    return [(w[0] if w[0] in "eq" else "a") + w[1:] for w in case_text(model_events(evs)).split()]


class DebugLogging:
    """DEBUG logging of the `pyplumio` loggers, every record formatted (as a real handler would)"""

    class Sink(logging.Handler):
        def emit(self, record):
            record.getMessage()

    def __enter__(self):
        self.lg = logging.getLogger("pyplumio")
        self.old = (self.lg.level, self.lg.propagate)
        self.h = self.Sink()
        self.lg.addHandler(self.h)
        self.lg.setLevel(logging.DEBUG)
        self.lg.propagate = False
        logging.disable(logging.NOTSET)

    def __exit__(self, *a):
        logging.disable(logging.CRITICAL)
        self.lg.removeHandler(self.h)
        self.lg.setLevel(self.old[0])
        self.lg.propagate = self.old[1]


class NoLogging:
    def __enter__(self):
        pass

    def __exit__(self, *a):
        pass


class Runner:
    """one virtual loop for all cases; every event is followed by loop.settle()"""

    def __init__(self):
        self.loop = vloop.new_loop()
        self.errors = []
        self.n_req = 0
        self.client_calls = 0
        self.loop.set_exception_handler(lambda loop, ctx: self.errors.append(ctx))

    def close(self):
        asyncio.set_event_loop(None)
        self.loop.close()

    def run_case(self, evs):
        aio_events._set_running_loop(self.loop)
        try:
            queue = asyncio.Queue()
            dev = EcoMAX(queue, NetworkInfo())
            obs, anomalies = [], []
            hung_next, hung_end, stats = [], [], dict(called=0)
            unsupported, recorded, foreign_seen = set(), {}, False

            def client(name, beh):
                async def cb(value):
                    stats["called"] += 1
                    if beh in "xo":
                        raise RuntimeError("client subscriber fails")
                    if beh == "p":
                        for _ in range(3):
                            await asyncio.sleep(0)
                    elif beh in "hH":
                        fut = self.loop.create_future()
                        (hung_next if beh == "h" else hung_end).append(fut)
                        await fut
                    elif beh == "u":
                        dev.unsubscribe(name, cb)

                return cb

            for kind, body in evs:
                if kind == "h":
                    self.loop.hold = True
                    continue
                if kind == "c":
                    for name, beh in body:
                        (dev.subscribe_once if beh == "o" else dev.subscribe)(name, client(name, beh))
                    continue
                release = list(hung_next)
                del hung_next[:]
                with (DebugLogging() if "g" in kind[1:] else NoLogging()):
                    self.one_event(dev, queue, kind, body, anomalies)
                    for fut in release:
                        if not fut.done():
                            fut.set_result(None)
                    self.settle()
                kinds = []
                while not queue.empty():
                    f = queue.get_nowait()
                    kinds.append(int(f.frame_type))
                    if not isinstance(f, Request) or int(f.recipient) != int(DeviceType.ECOMAX):
                        anomalies.append(f"queued {type(f).__name__} to {int(f.recipient)}")
                if dev.tasks and not any(not f.done() for f in hung_next + hung_end):
                    anomalies.append(f"{len(dev.tasks)} device tasks still pending after the event")
                obs.append(kinds)
                # "... and the new version is recorded": the public readers of the record
                if kind == "e":
                    unsupported = set(body)
                    for k in list(KNOWN) + UNKNOWN[:3]:
                        if dev.supports_frame_type(k) != (k not in unsupported):
                            anomalies.append(f"supports_frame_type({k}) is {dev.supports_frame_type(k)} after frame_errors {sorted(unsupported)}")
                elif kind[0] in "sr" and not any(k in FOREIGN for k, _ in body) and not foreign_seen:
                    for k, v in dict(body).items():
                        if k in REQUESTS and k not in unsupported:
                            recorded[k] = v
                    for k, v in dict(body).items():
                        want = recorded.get(k)
                        if dev.has_frame_version(k, v) != (want == v) or dev.has_frame_version(k) != (want is not None) \
                                or dev.has_frame_version(k, (v + 1) % 65536) != (want == (v + 1) % 65536):
                            anomalies.append(f"after announcing {k}:{v} has_frame_version({k}, {v}) = {dev.has_frame_version(k, v)}, "
                                             f"has_frame_version({k}) = {dev.has_frame_version(k)}; the record should hold {want}")
                elif kind[0] in "sr":
                    foreign_seen = True
            for fut in hung_next + hung_end:
                if not fut.done():
                    fut.set_result(None)
            self.settle()
            while not queue.empty():
                anomalies.append(f"frame of kind {int(queue.get_nowait().frame_type)} queued after the last event, when suspended client subscribers resumed")
            self.client_calls += stats["called"]
            return obs, anomalies
        finally:
            self.loop.hold = False
            while self.loop.held:
                self.loop.release(0)
            aio_events._set_running_loop(None)

    def settle(self):
        """run to quiescence, executor jobs included (a held job completes once the loop has gone idle)"""
        self.loop.settle()
        while self.loop.held:
            self.loop.release(0)
            self.loop.settle()

    def arrive(self, cls, payload, how, anomalies):
        """the frame object the device is going to handle, after whatever the route / the client did with it before"""
        frame = cls(message=bytearray(payload), sender=DeviceType.ECOMAX, recipient=DeviceType.ECONET)
        if "w" in how or "g" in how:
            sr = asyncio.StreamReader()
            sr.feed_data(bytes(frame.bytes))
            t = self.loop.create_task(FrameReader(sr).read())
            self.settle()
            frame = t.result() if t.done() else None
            if not isinstance(frame, cls):
                anomalies.append(f"the frame reader delivered {type(frame).__name__}")
                return None
        for ch in how:
            if ch == "r":
                repr(frame)
            elif ch == "d":
                frame.data
            elif ch == "m":
                frame.message
            elif ch == "l":
                len(frame)
            elif ch == "b":
                frame.bytes
            elif ch == "e":
                frame == cls(message=bytearray(payload), sender=DeviceType.ECOMAX, recipient=DeviceType.ECONET)
        return frame

    def one_event(self, dev, queue, kind, body, anomalies):
        if True:
            if True:
                if kind == "e":
                    dev.dispatch_nowait("frame_errors", [FrameType(k) if is_known_frame_type(k) else k for k in body])
                elif kind == "q":
                    # the public request() helper for a value that never arrives: it gives up after its attempts
                    self.n_req += 1

                    async def req(k=body[0], n=body[1], name=f"never_{self.n_req}"):
                        try:
                            await dev.request(name, FrameType(k), retries=n, timeout=0.5)
                        except ValueError:
                            pass
                        except Exception as e:  # noqa: BLE001
                            anomalies.append(f"request() raised {type(e).__name__}")

                    self.loop.create_task(req())
                    self.settle()
                    self.loop.settle(until=self.loop.time() + 0.5 * body[1] + 0.25)
                else:
                    payload = sensor_payload(body) if kind[0] == "s" else regdata_payload(body)
                    cls = SensorDataMessage if kind[0] == "s" else RegulatorDataMessage
                    try:
                        frame = self.arrive(cls, payload, kind[1:], anomalies)
                        if frame is not None:
                            dev.handle_frame(frame)
                    except Exception as e:  # noqa: BLE001
                        anomalies.append(f"handle_frame raised {type(e).__name__}")
                self.settle()


# ---------------------------------------------------------------- generators
def gen_version(rng, prev):
    r = rng.random()
    if prev is not None and r < 0.35:
        return prev                       # unchanged
    if prev is not None and r < 0.55:
        return min(65535, prev + 1)       # increased
    if prev is not None and r < 0.7:
        return max(0, prev - 1)           # decreased
    return rng.choice([0, 1, 2, 37, 255, 256, 12852, 65535, rng.randrange(65536)])


def gen_announcement(rng, last, pool, foreign_p):
    n = rng.choice([0, 1, 1, 2, 3, 4, 6, 8])
    entries = []
    for _ in range(n):
        r = rng.random()
        if r < foreign_p:
            k = rng.choice(FOREIGN)
        elif r < foreign_p + 0.15:
            k = rng.choice(UNKNOWN)
        elif r < foreign_p + 0.25 and entries:
            k = rng.choice(entries)[0]    # the same code twice in one announcement
        else:
            k = rng.choice(pool)
        v = gen_version(rng, last.get(k))
        last[k] = v
        entries.append((k, v))
    return entries


def gen_case(rng, unsupported=None, foreign_p=0.0):
    pool = rng.sample(REQUESTS, rng.randint(1, 6)) + rng.sample(SETUP, 2)
    if unsupported is None:
        unsupported = rng.sample(SETUP, rng.choice([0, 0, 1, 2, 3])) if rng.random() < 0.8 else rng.sample(REQUESTS + UNKNOWN[:3] + FOREIGN[:2], 3)
    evs = []
    errors_at = rng.choice([0, 0, 0, 1, 2, None])
    last = {}
    for i in range(rng.randint(1, 10)):
        if errors_at == i:
            evs.append(("e", list(unsupported)))
        evs.append((rng.choice("sr"), gen_announcement(rng, last, pool, foreign_p)))
    if rng.random() < 0.05:
        evs.append(("e", rng.sample(SETUP, 2)))
        evs.append((rng.choice("sr"), gen_announcement(rng, last, pool, foreign_p)))
    return evs


CLIENT_NAMES = ["state", "fan", "thermostat", "mixers_connected", "frame_versions", "frame_versions", "sensors", "regdata"]


def gen_clients(rng):
    return ("c", [(rng.choice(CLIENT_NAMES), rng.choice("xxxpphHuo")) for _ in range(rng.choice([1, 1, 2, 3]))])


def gen_how(rng):
    r = rng.random()
    how = "".join(rng.sample("rdmleb", rng.choice([1, 1, 2, 3]))) if r < 0.6 else ""
    r = rng.random()
    return ("g" if r < 0.3 else "w" if r < 0.5 else "") + how


def decorate(rng, evs):
    """what surrounds the announcements without being an event of the statement: the route the frame object took and what
    was done to it before the device handles it; client subscribers that fail, suspend or unsubscribe themselves"""
    out = []
    r = rng.random()
    p_how = 0.0 if r < 0.35 else 0.5 if r < 0.8 else 1.0
    r = rng.random()
    n_cl = 0 if r < 0.45 else 1 if r < 0.85 else 2
    at = sorted(rng.randrange(len(evs) + 0) if rng.random() < 0.4 else 0 for _ in range(n_cl)) if evs else []
    if rng.random() < 0.5:
        out.append(("h", None))
    for i, (k, body) in enumerate(evs):
        while at and at[0] == i:
            out.append(gen_clients(rng))
            at.pop(0)
        if k in ("s", "r") and rng.random() < p_how:
            k = k + gen_how(rng)
        out.append((k, body))
    return out


def gen_cases(rng, tier):
    for evs, label in gen_cases_plain(rng, tier):
        if label != "each-code" or rng.random() < 0.5:
            evs = decorate(rng, evs)
        yield evs, label
    quick = tier == "quick"
    # several outdated kinds per announcement, both carriers, every client behaviour on every name, every pre-handling
    for _ in range(400 if quick else 8000):
        kinds = rng.sample(REQUESTS, rng.randint(2, 8))
        evs = [("h", None)] if rng.random() < 0.7 else []
        if rng.random() < 0.4:
            evs.append(("e", rng.sample(SETUP, rng.choice([0, 0, 1]))))
        evs.append(gen_clients(rng))
        v = rng.randrange(1, 4)
        for step_ in range(rng.randint(2, 5)):
            r = rng.random()
            v = v if r < 0.3 else v + 1 if r < 0.7 else max(0, v - 1)
            evs.append((rng.choice("sr") + gen_how(rng), [(k, v) for k in kinds]))
            if rng.random() < 0.2:
                evs.append(gen_clients(rng))
        yield evs, "clients"


def gen_cases_plain(rng, tier):
    quick = tier == "quick"
    # every set of unsupported set-up kinds (the kinds async_setup can report), exhaustively
    reps = 1 if quick else 20
    for r in range(len(SETUP) + 1):
        for sub in itertools.combinations(SETUP, r):
            for _ in range(reps):
                evs = [("e", list(sub))]
                last = {}
                # every set-up kind announced, then repeated, then changed
                evs.append((rng.choice("sr"), [(k, gen_version(rng, None)) for k in rng.sample(SETUP, len(SETUP))]))
                for k, v in evs[-1][1]:
                    last[k] = v
                for _ in range(rng.randint(1, 4)):
                    evs.append((rng.choice("sr"), gen_announcement(rng, last, SETUP + REQUESTS[:3], 0.0)))
                yield evs, "subset"
    # the two carriers alternate, each repeating a byte-identical frame: sensor data says k -> v1, regulator data
    # says k -> v2, the same sensor frame again must refresh again (and so on); all other sensor fields are constant
    for _ in range(150 if quick else 4000):
        kinds = rng.sample(REQUESTS, rng.randint(1, 3))
        wa = [(k, rng.choice([1, 2, 3, 65535])) for k in kinds]
        wb = [(k, v if rng.random() < 0.3 else v % 65535 + 1) for k, v in wa]
        if rng.random() < 0.3:
            wb = wb + [(rng.choice(UNKNOWN), 1)]
        evs = [("e", rng.sample(SETUP, rng.choice([0, 0, 1])))] if rng.random() < 0.5 else []
        pat = rng.choice(["srsr", "srssrr", "rsrs", "ssrrss", "srsrsr"])
        for ch in pat * rng.randint(1, 2):
            evs.append((ch, list(wa if ch == "s" else wb)))
        yield evs, "alternate"
    # after set-up: a public request() that is never answered, then a changed version for that kind
    for _ in range(120 if quick else 3000):
        kinds = rng.sample(REQUESTS, rng.randint(1, 3))
        unsup = rng.sample(SETUP, rng.choice([0, 0, 1, 2]))
        evs = [("e", unsup)] if rng.random() < 0.8 else []
        evs.append((rng.choice("sr"), [(k, 1) for k in kinds]))
        for step_ in range(rng.randint(1, 3)):
            evs.append(("q", (rng.choice(kinds + REQUESTS[:2]), rng.choice([1, 1, 2, 3]))))
            evs.append((rng.choice("sr"), [(k, 2 + step_) if rng.random() < 0.8 else (k, 1 + step_) for k in kinds]))
        yield evs, "failed-request"
    for _ in range(1000 if quick else 40000):
        ev = gen_case(rng)
        if rng.random() < 0.15:
            ev.insert(rng.randrange(1, len(ev) + 1), ("q", (rng.choice(REQUESTS), rng.choice([1, 2]))))
        yield ev, "random"
    for _ in range(200 if quick else 5000):
        yield gen_case(rng, foreign_p=0.12), "foreign"
    # every known / unknown code on its own, twice with the same and once with another version
    for k in range(256):
        yield [("s", [(k, 1)]), ("r", [(k, 1)]), ("s", [(k, 2)]), ("s", [(49, 7), (k, 2), (50, 7)])], "each-code"


def check_cases(res, cases):
    runner = Runner()
    try:
        impl = [runner.run_case(evs) for evs, _ in cases]
    finally:
        runner.close()
    answers = driver_batch(" ".join(["c15"] + lean_events(evs)) for evs, _ in cases)
    verdicts = driver_batch(
        " ".join(["c15judge"] + lean_events(evs) + ["|"] + [",".join(map(str, o)) or "-" for o in obs])
        for (evs, _), (obs, _) in zip(cases, impl))
    for (evs, label), (obs, anomalies), ans, verdict in zip(cases, impl, answers, verdicts):
        text = case_text(evs)
        inp = dict(case=text, label=label)
        model = [] if ans == "." else [a.split("/") for a in ans.split(";")]
        model_q = [[] if q == "-" else [int(x) for x in q.split(",")] for q, _ in model]
        raised = any(r == "1" for _, r in model)
        full_evs, evs = evs, model_events(evs)
        n_ann = sum(1 for k, _ in evs if k in "sr")
        nontrivial = n_ann >= 2 and any(obs) and any(not o for (k, _), o in zip(evs, obs) if k in "sr")
        res.case(text, nontrivial)
        res.count("label:" + label)
        res.count("announcements:%s" % ("1" if n_ann <= 1 else "2-4" if n_ann <= 4 else "5-11"))
        res.count("executor jobs (Request.create): " + ("complete when the loop is idle" if any(k == "h" for k, _ in full_evs) else "complete at once"))
        for k, body in full_evs:
            if k == "h":
                continue
            if k == "c":
                for name, beh in body:
                    res.count("client subscriber on " + ("a sensor name" if name not in ("frame_versions", "sensors", "regdata") else name) + ": "
                              + dict(x="raises", p="suspends briefly", h="suspends over the next event", H="suspends to the end",
                                     u="unsubscribes itself", o="once, raises")[beh])
            elif k[0] in "sr":
                res.count("frame before handling: " + ("untouched" if not k[1:] else "via FrameReader + DEBUG logging" if "g" in k else
                                                       "via FrameReader" if "w" in k else "inspected (repr/data/message/len/==/bytes)"))
                if ("g" in k or "w" in k) and set(k[1:]) - set("gw"):
                    res.count("frame before handling: via FrameReader, then inspected")
        for (k, body), o in zip(evs, obs):
            if k == "e":
                res.count("unsupported-set-size:%d" % len(body))
            elif k == "q":
                res.count("failed request() calls")
            else:
                res.count("carrier:" + ("sensor-data" if k == "s" else "regulator-data"))
                res.count("queued-per-announcement:%s" % (len(o) if len(o) < 4 else "4+"))
                for code, _ in body:
                    res.count("code:" + ("request" if code in REQUESTS else "foreign" if code in FOREIGN else "unknown"))
        if raised:
            res.count("model: callback raised (foreign code)")
        if anomalies:
            res.fail("spec", inp, "request frames addressed to the device, nothing left running", anomalies, "queued frame shape")
        if verdict != "pass":
            res.fail("spec", inp, dict(model=model_q), dict(queued=obs, judge=verdict),
                     "C15.spec fails on the frames the implementation queued")
        elif obs != model_q:
            res.fail("corr", inp, model_q, obs, "announcement model and update_frame_versions differ")
        if len(res.samples) < 5 and nontrivial and not any(s["label"] == label for s in res.samples):
            res.sample(dict(label=label, case=text, queued=obs))


# ---------------------------------------------------------------- announcements DURING the real set-up (async_setup)
ANSWERABLE = {57: ("product", "product-info"), 85: ("regdata_schema", []), 61: ("total_alerts", 3), 58: ("password", "0000")}


def gen_setup_case(rng):
    """B start `async_setup()` (its requests go out); A<k> the controller answers set-up kind k (the value `provides` names is
    dispatched); T the clock moves 3 s (one request time-out: unanswered kinds are asked again, after the third the set-up ends and
    dispatches `frame_errors` ITSELF); announcements in between, before `frame_errors` is known, and after"""
    answered = rng.sample(sorted(ANSWERABLE), rng.randint(0, 4))
    pool = SETUP + rng.sample(REQUESTS, 2)
    last = {}
    evs = []

    def ann(n):
        for _ in range(n):
            kinds = rng.sample(pool, rng.randint(1, 4))
            body = []
            for k in kinds:
                v = gen_version(rng, last.get(k)) if rng.random() < 0.8 else 0
                last[k] = v
                body.append((k, v))
            evs.append((rng.choice("sr"), body))

    ann(rng.choice([0, 0, 1]))
    evs.append(("B", None))
    todo = list(answered)
    rng.shuffle(todo)
    for step_ in range(3):
        ann(rng.choice([0, 1, 1, 2]))
        for k in [k for k in todo if rng.random() < 0.5]:
            evs.append(("A", k))
            todo.remove(k)
            ann(rng.choice([0, 0, 1]))
        evs.append(("T", None))
    ann(rng.randint(1, 3))
    return evs


def setup_text(evs):
    return " ".join(k if b is None else f"A{b}" if k == "A" else k + (",".join(f"{a}:{v}" for a, v in b) or "-") for k, b in evs)


def parse_setup(text):
    evs = []
    for w in text.split():
        if w in ("B", "T"):
            evs.append((w, None))
        elif w[0] == "A":
            evs.append(("A", int(w[1:])))
        else:
            evs.append((w[0], [] if w[1:] == "-" else [tuple(int(x) for x in e.split(":")) for e in w[1:].split(",")]))
    return evs


def run_setup_case(runner, evs):
    """-> (model words, observation per model word, anomalies)"""
    loop = runner.loop
    aio_events._set_running_loop(loop)
    try:
        queue = asyncio.Queue()
        dev = EcoMAX(queue, NetworkInfo())
        words, obs, anomalies = [], [], []
        answered, n_t, task = set(), 0, None
        t0 = None

        def drain():
            kinds = []
            while not queue.empty():
                f = queue.get_nowait()
                kinds.append(int(f.frame_type))
                if not isinstance(f, Request) or int(f.recipient) != int(DeviceType.ECOMAX):
                    anomalies.append(f"queued {type(f).__name__} to {int(f.recipient)}")
            return kinds

        for kind, body in evs:
            if kind == "B":
                task = loop.create_task(dev.async_setup())
                runner.settle()
                if queue.empty():
                    # EcoMAX.async_setup first waits for sensor data: a sensor-data message without version entries starts it
                    dev.handle_frame(SensorDataMessage(message=bytearray(sensor_payload([])), sender=DeviceType.ECOMAX, recipient=DeviceType.ECONET))
                    runner.settle()
                    words.append("a-")
                    obs.append([])
                t0 = loop.time()
                got = drain()
                if got != SETUP:
                    anomalies.append(f"set-up asked for {got}, the set-up kinds are {SETUP}")
                for k in got:
                    words.append(f"q{k}:1")
                    obs.append([k])
            elif kind == "A":
                name, value = ANSWERABLE[body]
                dev.dispatch_nowait(name, value)
                runner.settle()
                answered.add(body)
                extra = drain()
                if extra:
                    anomalies.append(f"answering {name} queued {extra}")
            elif kind == "T":
                n_t += 1
                loop.settle(until=t0 + 3.0 * n_t + 0.001)
                runner.settle()
                got = drain()
                pending = [k for k in SETUP if k not in answered]
                if n_t < 3:
                    if sorted(got) != sorted(pending):      # (the order of simultaneous time-outs is the timer heap's)
                        anomalies.append(f"after time-out #{n_t} the set-up asked again for {got}, unanswered are {pending}")
                    for k in got:
                        words.append(f"q{k}:1")
                        obs.append([k])
                else:
                    if got:
                        anomalies.append(f"the end of the set-up queued {got}")
                    errors = dev.get_nowait("frame_errors", None)
                    if errors is None or sorted(int(k) for k in errors) != sorted(pending) or not task.done():
                        anomalies.append(f"set-up ended with frame_errors {errors}, unanswered are {pending}")
                    words.append("e" + (",".join(map(str, pending)) or "-"))
                    obs.append([])
            else:
                payload = sensor_payload(body) if kind == "s" else regdata_payload(body)
                cls = SensorDataMessage if kind == "s" else RegulatorDataMessage
                dev.handle_frame(cls(message=bytearray(payload), sender=DeviceType.ECOMAX, recipient=DeviceType.ECONET))
                runner.settle()
                words.append("a" + (",".join(f"{a}:{v}" for a, v in body) or "-"))
                obs.append(drain())
        if task is not None and not task.done():
            task.cancel()
        dev.cancel_tasks()
        runner.settle()
        return words, obs, anomalies
    finally:
        aio_events._set_running_loop(None)


def check_setup(res, cases):
    runner = Runner()
    try:
        runs = [run_setup_case(runner, evs) for evs in cases]
    finally:
        runner.close()
    answers = driver_batch(" ".join(["c15"] + words) for words, _, _ in runs)
    verdicts = driver_batch(" ".join(["c15judge"] + words + ["|"] + [",".join(map(str, o)) or "-" for o in obs]) for words, obs, _ in runs)
    for evs, (words, obs, anomalies), ans, verdict in zip(cases, runs, answers, verdicts):
        text = "setup " + setup_text(evs)
        inp = dict(case=text, label="setup")
        model_q = [] if ans == "." else [[] if a.split("/")[0] == "-" else [int(x) for x in a.split("/")[0].split(",")] for a in ans.split(";")]
        during = sum(1 for i, (k, _) in enumerate(evs) if k in "sr" and any(e[0] == "B" for e in evs[:i]) and sum(1 for e in evs[:i] if e[0] == "T") < 3)
        res.case(text, during >= 1 and any(o for w, o in zip(words, obs) if w[0] == "a"))
        res.count("label:setup")
        res.count("announcements while async_setup() is running (frame_errors not known yet): " + ("0" if not during else "1-2" if during < 3 else "3+"))
        if any(v == 0 for k, b in evs if k in "sr" for _, v in b):
            res.count("version 0 announced (first time / unchanged / after another version)")
        res.count("set-up kinds answered: %d of 4 answerable" % sum(1 for k, _ in evs if k == "A"))
        if anomalies:
            res.fail("spec", inp, "set-up requests, re-attempts and frame_errors as the set-up kinds prescribe", anomalies, "set-up bookkeeping")
        if verdict != "pass":
            res.fail("spec", inp, dict(model=model_q), dict(queued=obs, judge=verdict, events=words), "C15.spec fails on the frames the implementation queued around a real set-up")
        elif obs != model_q:
            res.fail("corr", inp, model_q, obs, "announcement model and the device differ around a real set-up")


# ---------------------------------------------------------------- overlapping announcements (held executor)
class OverlapRunner:
    """`Request.create` imports the handler class through run_in_executor; with the executor HELD the harness decides
    when each suspended `update_frame_versions` resumes, so several announcements can be in flight at once."""

    def __init__(self):
        self.loop = vloop.new_loop(hold_executor=True)
        self.loop.set_exception_handler(lambda loop, ctx: None)

    def close(self):
        asyncio.set_event_loop(None)
        self.loop.close()

    def run_case(self, ops):
        """ops: ("s"|"r", entries) announce; ("e", kinds); ("x", task) resume task.  -> (model events, observations)"""
        aio_events._set_running_loop(self.loop)
        try:
            queue = asyncio.Queue()
            dev = EcoMAX(queue, NetworkInfo())
            owners = []           # task index per entry of loop.held
            n_tasks = 0
            cum = []
            seen = {}             # kind -> versions announced so far
            events, obs = [], []
            assert not self.loop.held
            for kind, body in ops:
                moved = None
                if kind == "e":
                    dev.dispatch_nowait("frame_errors", [FrameType(k) if is_known_frame_type(k) else k for k in body])
                    events.append(["e" + (",".join(map(str, body)) or "-")])
                elif kind == "k":
                    # device.shutdown() (what AsyncProtocol.shutdown / a lost connection does to every device): run to its end while the
                    # executor jobs stay held; afterwards the jobs of the cancelled handlers are let go (their futures are cancelled)
                    t = self.loop.create_task(dev.shutdown())
                    self.loop.settle()
                    if not t.done():
                        raise ValueError("device.shutdown() did not return with executor jobs held")
                    t.result()
                    while self.loop.held:
                        self.loop.release(0)
                        self.loop.settle()
                    owners.clear()
                    events.append(["k"])
                elif kind in "sr":
                    payload = sensor_payload(body) if kind == "s" else regdata_payload(body)
                    cls = SensorDataMessage if kind == "s" else RegulatorDataMessage
                    dev.handle_frame(cls(message=bytearray(payload), sender=DeviceType.ECOMAX, recipient=DeviceType.ECONET))
                    moved = n_tasks
                    n_tasks += 1
                    for k, v in body:
                        seen.setdefault(k, set()).add(v)
                    events.append(["a" + (",".join(f"{k}:{v}" for k, v in body) or "-"), f"m{moved}"])
                else:
                    if body in owners:
                        idx = owners.index(body)
                        owners.pop(idx)
                        self.loop.release(idx)
                    # (a handler that is NOT suspended where the machine suspends it: nothing to release; the history goes on and
                    # is judged by the statement — the machine will differ)
                    moved = body
                    events.append([f"m{moved}"])
                self.loop.settle()
                while len(owners) < len(self.loop.held):
                    owners.append(moved)
                while not queue.empty():
                    cum.append(int(queue.get_nowait().frame_type))
                rec = []
                for k in sorted(seen):
                    for v in sorted(seen[k]):
                        if dev.has_frame_version(k, v):
                            rec.append(f"{k}:{v}")
                phases = ",".join("w" if a in owners else "f" for a in range(n_tasks)) or "-"
                obs.append((",".join(map(str, cum)) or "-") + "/" + (",".join(rec) or "-") + "/" + phases)
            pending = sorted(set(owners))
            # leave nothing suspended behind
            while self.loop.held:
                self.loop.release(0)
                self.loop.settle()
            return events, obs, pending
        finally:
            aio_events._set_running_loop(None)


def run_overlap(res, rng, n_cases):
    runner = OverlapRunner()
    cases = []
    try:
        fixed = [
            [("s", [(49, 1)]), ("r", [(49, 1)]), ("x", 0), ("x", 1)],                       # the doubled request
            [("s", [(54, 1)]), ("r", [(54, 2)]), ("x", 1), ("x", 0)],                       # last writer wins
            [("r", [(49, 1), (50, 1)]), ("s", [(50, 1), (49, 1)]), ("x", 0), ("x", 1), ("x", 0)],
            [("s", [(49, 1)]), ("x", 0), ("r", [(49, 1)])],                                 # no overlap: one request
            # overlapping announcements with DIFFERENT versions for one kind, then released in either order
            [("r", [(49, 2)]), ("r", [(49, 3)]), ("x", 0), ("x", 1)],
            [("s", [(54, 5)]), ("r", [(54, 6)]), ("x", 0), ("x", 1)],
            [("s", [(54, 5)]), ("r", [(54, 6)]), ("s", [(54, 7)]), ("x", 2), ("x", 1), ("x", 0)],
            [("s", [(49, 0)]), ("x", 0), ("r", [(49, 1), (54, 1)]), ("s", [(49, 2), (54, 1)]), ("x", 1), ("x", 2), ("x", 1), ("x", 2)],
        ]
        for ops in fixed:
            ev, obs, _ = runner.run_case(ops)
            cases.append((ops, ev, obs, "overlap-fixed"))
        # one device object shut down (tasks cancelled) and used again: a reconnect keeps the devices
        fixed_k = [ln for _, ln in load_corpus("C15") if ln.startswith("cancel ")]
        for ln in fixed_k:
            ops = parse_overlap(ln[len("cancel "):])
            ev, obs, _ = runner.run_case(ops)
            cases.append((ops, ev, obs, "shutdown-corpus"))
        for _ in range(max(40, n_cases // 2)):
            ops = []
            n = 0
            kinds = rng.sample(REQUESTS, rng.randint(1, 3))
            vers = {k: rng.choice([1, 2, 7]) for k in kinds}
            if rng.random() < 0.3:
                ops.append(("e", rng.sample(SETUP, rng.choice([0, 1, 2]))))
            shutdowns = 0
            for _ in range(rng.randint(3, 11)):
                _, _, pending = runner.run_case(ops)
                u = rng.random()
                if pending and u < 0.3 and shutdowns < 2 or (not pending and u < 0.08 and shutdowns < 2):
                    ops.append(("k", None))
                    shutdowns += 1
                elif pending and u < 0.55:
                    ops.append(("x", rng.choice(pending)))
                elif n < 6:
                    # mostly the SAME versions again (the controller keeps announcing what it has), sometimes a step
                    if rng.random() < 0.25:
                        k = rng.choice(kinds)
                        vers[k] += 1
                    body = [(k, vers[k]) for k in rng.sample(kinds, rng.randint(1, len(kinds)))]
                    ops.append((rng.choice("sr"), body))
                    n += 1
            if shutdowns == 0:
                ops.append(("k", None))
                ops.append((rng.choice("sr"), [(k, vers[k]) for k in kinds]))
            for _ in range(12):
                _, _, pending = runner.run_case(ops)
                if not pending:
                    break
                ops.append(("x", pending[0] if rng.random() < 0.5 else pending[-1]))
            ev, obs, _ = runner.run_case(ops)
            cases.append((ops, ev, obs, "shutdown-random"))
        for _ in range(n_cases):
            # generate online: after every op ask the implementation which tasks are suspended
            ops = []
            n = 0
            kinds = rng.sample(REQUESTS, rng.randint(1, 3))
            if rng.random() < 0.3:
                ops.append(("e", rng.sample(SETUP, rng.choice([0, 1, 2]))))
            for _ in range(rng.randint(2, 10)):
                _, _, pending = runner.run_case(ops)
                if pending and rng.random() < 0.5:
                    ops.append(("x", rng.choice(pending)))
                elif n < 5:
                    vmode = rng.random()
                    body = [(k, rng.choice([1, 1, 2]) if vmode < 0.5 else n + rng.choice([0, 0, 1]) if vmode < 0.85 else rng.choice([0, 1, 65535]))
                            for k in rng.sample(kinds, rng.randint(1, len(kinds)))]
                    if rng.random() < 0.1:
                        body.insert(rng.randrange(len(body) + 1), (rng.choice(FOREIGN + UNKNOWN[:3]), 1))
                    ops.append((rng.choice("sr"), body))
                    n += 1
            for _ in range(12):
                _, _, pending = runner.run_case(ops)
                if not pending:
                    break
                ops.append(("x", pending[0] if rng.random() < 0.5 else pending[-1]))
            ev, obs, _ = runner.run_case(ops)
            cases.append((ops, ev, obs, "overlap-random"))
    finally:
        runner.close()
    check_overlap(res, cases)


def cancelled_tasks(ops, obs):
    """task indices whose handler was suspended when the device was shut down"""
    out = set()
    for i, (kind, _) in enumerate(ops):
        if kind == "k" and i > 0:
            ph = obs[i - 1].split("/")[2]
            out |= {a for a, x in enumerate(ph.split(",")) if x == "w"} if ph != "-" else set()
    return out


def cancel_statement(ops, obs):
    """Histories with shutdowns, from the observations alone.  "One refresh request is queued and the new version is recorded" belong
    together: whenever no handler is suspended (all finished or cancelled), every version on record for a kind has a request of that
    kind among the frames queued so far (theorem C15.Overlap.recorded_has_request: in the code a cancelled refresh records nothing)."""
    out = []
    for i, o in enumerate(obs):
        q, rec, ph = o.split("/")
        if "w" in ph.split(",") or rec == "-":
            continue
        qs = [] if q == "-" else q.split(",")
        for e in rec.split(","):
            k, v = e.split(":")
            if k not in qs:
                out.append(f"after op #{i} (no handler suspended): version {v} is on record for kind {k}, but no request of kind {k} was ever queued")
        if out:
            break
    return out


def overlap_statement(ops, obs, skip=()):
    """The statement on an overlap history, from the observations alone (sound for ANY interleaving): take an announcement made
    of supported request kinds only.  Its handler runs at once up to the FIRST entry (k, v) whose version differs from the record
    as observed just before the announcement ("a version different from the one the library last recorded"), and suspends there
    in Request.create.  Once that handler has finished: (a) the record of k has shown v at some observation after the
    announcement ("the new version is recorded"), and (b) at least one request of kind k was queued at or after it."""
    out = []
    unsup = set()
    n_task = -1
    for i, (kind, body) in enumerate(ops):
        if kind == "e":
            unsup = set(body)
            continue
        if kind not in "sr":
            continue
        n_task += 1
        if n_task in skip:
            continue
        if any(k not in REQUESTS for k, _ in body):
            continue
        before = obs[i - 1].split("/") if i > 0 else ["-", "-", "-"]
        rec = dict(tuple(int(x) for x in e.split(":")) for e in before[1].split(",")) if before[1] != "-" else {}
        first = next(((k, v) for k, v in dict(body).items() if k not in unsup and rec.get(k) != v), None)
        if first is None:
            continue
        phases = obs[-1].split("/")[2].split(",")
        if n_task >= len(phases) or phases[n_task] != "f":
            continue                       # its handler is still suspended at the end of the history
        k, v = first
        shown = any(f"{k}:{v}" in o.split("/")[1].split(",") for o in obs[i:])
        q_before = [] if before[0] == "-" else before[0].split(",")
        q_end = [] if obs[-1].split("/")[0] == "-" else obs[-1].split("/")[0].split(",")
        if not shown:
            out.append(f"op #{i}: kind {k} announced with version {v} (recorded before: {rec.get(k)}), handler finished, but version {v} was never on record")
        elif q_end.count(str(k)) - q_before.count(str(k)) < 1:
            out.append(f"op #{i}: kind {k} announced with version {v} (recorded before: {rec.get(k)}), no request of kind {k} queued at or after it")
    return out


def parse_overlap(text):
    ops = []
    for w in text.split():
        if w[0] == "x":
            ops.append(("x", int(w[1:])))
        elif w == "k":
            ops.append(("k", None))
        else:
            ops.extend(parse_case(w))
    return ops


def check_overlap(res, cases):
    answers = driver_batch(" ".join(["c15h" if any(k == "k" for k, _ in ops) else "c15o"] + [e for grp in ev for e in grp]) for ops, ev, _, _ in cases)
    doubled = 0
    for (ops, ev, obs, label), ans in zip(cases, answers):
        text = " ".join((k + (",".join(f"{a}:{b}" for a, b in body) or "-")) if k in "sr" else
                        ("e" + (",".join(map(str, body)) or "-")) if k == "e" else "k" if k == "k" else f"x{body}" for k, body in ops)
        res.case("overlap " + text, len(ops) >= 3)
        res.count("label:" + label)
        with_shutdown = any(k == "k" for k, _ in ops)
        if with_shutdown:
            res.count("overlap: device shut down " + ("while a handler is suspended in Request.create" if cancelled_tasks(ops, obs) else "with no handler suspended")
                      + (", announcements afterwards" if any(k in "sr" for k, _ in ops[max(i for i, (k, _) in enumerate(ops) if k == "k"):]) else ""))
        model_all = [] if ans == "." else ans.split(";")
        # the model prints a state after every event; an op is one or two events
        model, pos = [], 0
        for grp in ev:
            pos += len(grp)
            st = model_all[pos - 1] if pos - 1 < len(model_all) else "?"
            q, r, t = st.split("/")
            t = ",".join("w" if x.startswith("w") else "c" if x == "c" else "f" for x in t.split(",")) if t != "-" else "-"
            model.append(f"{q}/{r}/{t}")
        for msg in (cancel_statement(ops, obs) if with_shutdown else []):
            res.fail("spec", dict(case="overlap " + text, label=label), "a version is on record only together with a queued refresh request of that kind",
                     dict(observed=obs, what=msg), "a version was recorded for a kind although no refresh request of that kind was queued (the refresh was cancelled by a shutdown)")
        for msg in overlap_statement(ops, obs, skip=cancelled_tasks(ops, obs)):
            res.fail("spec", dict(case="overlap " + text, label=label), "every announcement whose version differs from the record is refreshed and recorded",
                     dict(observed=obs, what=msg), "an announcement with a version different from the recorded one queued no refresh / was never recorded")
        if any(len(set(v for kk, b in ops if kk in "sr" for a, v in b if a == k0)) > 1 for k0 in set(a for kk, b in ops if kk in "sr" for a, _ in b)):
            res.count("overlap: one kind announced with DIFFERENT versions in one history")
        if model != obs:
            k = next((i for i, (a, b) in enumerate(zip(model, obs)) if a != b), 0)
            res.fail("corr", dict(case="overlap " + text, label=label), model[k:k + 1], obs[k:k + 1],
                     f"overlap machine and update_frame_versions differ after op #{k}")
        final_q = obs[-1].split("/")[0] if obs else "-"
        ks = [] if final_q == "-" else final_q.split(",")
        n_ann = sum(1 for k, _ in ops if k in "sr")
        if any(ks.count(k) > 1 for k in set(ks)) and n_ann >= 2:
            versions = {}
            dbl = False
            for kk, body in ops:
                if kk in "sr":
                    for a, b in body:
                        versions.setdefault(a, []).append(b)
            for k in set(ks):
                if ks.count(k) > len(set(versions.get(int(k), []))):
                    dbl = True
            if dbl:
                doubled += 1
                if "overlap_example" not in res.extra:
                    res.extra["overlap_example"] = dict(case=text, observed=obs)
    res.extra["overlap_cases"] = len(cases)
    res.extra["overlap_cases_with_a_doubled_request"] = doubled
    res.notes.append("overlap (outside the statement's quantifier, recorded as an observation, not a violation): with the executor held, "
                     f"{doubled} of {len(cases)} overlap histories queued more requests of a kind than distinct versions were announced "
                     "(two announcements pass the version check before either records); the overlap machine predicts every one of them")


# ---------------------------------------------------------------- several devices on one write queue ("queued TO THAT DEVICE")
ADDRS = [int(DeviceType.ECOMAX), int(DeviceType.ECOSTER)]


def parse_devices(text):
    """`devices [h] <addr>@<event> ...`  (events s / r / e / q as above, no decorations; s only for the ecoMAX)"""
    w = text.split()[1:]
    hold = bool(w) and w[0] == "h"
    evs = []
    for x in w[1:] if hold else w:
        a, e = x.split("@")
        evs.append((int(a), parse_case(e)[0]))
    return hold, evs


def devices_text(hold, evs):
    return " ".join(["devices"] + (["h"] if hold else []) + [f"{a}@{case_text([e])}" for a, e in evs])


def run_devices_case(runner, hold, evs):
    """-> per event the (kind, recipient) of the frames found on the SHARED queue, anomalies"""
    aio_events._set_running_loop(runner.loop)
    try:
        queue = asyncio.Queue()
        devs = {int(DeviceType.ECOMAX): EcoMAX(queue, NetworkInfo()), int(DeviceType.ECOSTER): EcoSTER(queue, NetworkInfo())}
        runner.loop.hold = hold
        obs, anomalies = [], []
        for a, (kind, body) in evs:
            dev = devs[a]
            if kind == "e":
                dev.dispatch_nowait("frame_errors", [FrameType(k) if is_known_frame_type(k) else k for k in body])
            elif kind == "q":
                runner.n_req += 1

                async def req(dev=dev, k=body[0], n=body[1], name=f"never_{runner.n_req}"):
                    try:
                        await dev.request(name, FrameType(k), retries=n, timeout=0.5)
                    except ValueError:
                        pass

                runner.loop.create_task(req())
                runner.settle()
                runner.loop.settle(until=runner.loop.time() + 0.5 * body[1] + 0.25)
            else:
                payload = sensor_payload(body) if kind[0] == "s" else regdata_payload(body)
                cls = SensorDataMessage if kind[0] == "s" else RegulatorDataMessage
                try:
                    dev.handle_frame(cls(message=bytearray(payload), sender=DeviceType(a), recipient=DeviceType.ECONET))
                except Exception as e:  # noqa: BLE001
                    anomalies.append(f"handle_frame raised {type(e).__name__}")
            runner.settle()
            frames = []
            while not queue.empty():
                f = queue.get_nowait()
                frames.append((int(f.frame_type), int(f.recipient)))
                if not isinstance(f, Request):
                    anomalies.append(f"queued {type(f).__name__}")
            obs.append(frames)
        return obs, anomalies
    finally:
        runner.loop.hold = False
        while runner.loop.held:
            runner.loop.release(0)
        aio_events._set_running_loop(None)


def gen_devices(rng):
    kinds = rng.sample(REQUESTS, rng.randint(1, 4))
    last = {a: {} for a in ADDRS}
    evs = []
    if rng.random() < 0.4:
        evs.append((rng.choice(ADDRS), ("e", rng.sample(SETUP, rng.choice([0, 1, 2])))))
    for _ in range(rng.randint(2, 9)):
        a = rng.choice(ADDRS)
        r = rng.random()
        if r < 0.08:
            evs.append((a, ("e", rng.sample(SETUP + kinds, rng.choice([0, 1, 2])))))
        elif r < 0.16:
            evs.append((a, ("q", (rng.choice(kinds), rng.choice([1, 2])))))
        else:
            body = []
            for k in rng.sample(kinds, rng.randint(1, len(kinds))):
                v = gen_version(rng, last[a].get(k)) if rng.random() < 0.6 else rng.choice([1, 2])
                last[a][k] = v
                body.append((k, v))
            if rng.random() < 0.1:
                body.append((rng.choice(UNKNOWN), 1))
            evs.append((a, ("s" if a == ADDRS[0] and rng.random() < 0.5 else "r", body)))
    return rng.random() < 0.5, evs


def check_devices(res, cases):
    runner = Runner()
    try:
        impl = [run_devices_case(runner, hold, evs) for hold, evs in cases]
    finally:
        runner.close()

    def lean_ev(a, e):
        return f"{a}@{lean_events([e])[0]}"

    answers = driver_batch(" ".join(["c15sys"] + [lean_ev(a, e) for a, e in evs]) for _, evs in cases)
    verdicts = driver_batch(
        " ".join(["c15sysjudge"] + [lean_ev(a, e) for a, e in evs] + ["|"] + [",".join(f"{k}>{r}" for k, r in o) or "-" for o in obs])
        for (_, evs), (obs, _) in zip(cases, impl))
    for (hold, evs), (obs, anomalies), ans, verdict in zip(cases, impl, answers, verdicts):
        text = devices_text(hold, evs)
        inp = dict(case=text, label="devices")
        model = [] if ans == "." else [[] if x == "-" else [tuple(int(y) for y in f.split(">")) for f in x.split(",")] for x in ans.split(";")]
        both = {a for a, (k, _) in evs if k[0] in "sr"}
        res.case(text, len(both) == 2 and sum(1 for o in obs if o) >= 2)
        res.count("label:devices")
        for (a, _), o in zip(evs, obs):
            for k, r in o:
                res.count("request addressed to: " + ("the announcing device" if r == a else "ANOTHER device"))
        if anomalies:
            res.fail("spec", inp, "request frames only", anomalies, "queued frame shape")
        if verdict != "pass":
            wrong = [(i, a, o) for i, ((a, _), o) in enumerate(zip(evs, obs)) if any(r != a for _, r in o)]
            res.fail("spec", inp, dict(model=model), dict(queued=obs, judge=verdict, wrong_recipient=wrong[:3]),
                     "C15.specSys fails on the shared queue: " + ("a refresh is not addressed to the device that announced the version"
                                                                  if wrong else "the refreshes of a device are not those its own history prescribes"))
        elif obs != model:
            res.fail("corr", inp, model, obs, "device-system model and the devices differ")


def run(ctx):
    rng = random.Random(ctx["seed"] * 7919 + 15)
    res = Result("C15")
    res.rule = ("histories of 1..11 announcements (0..8 entries each; versions repeated / +1 / -1 / fresh incl. 0 and 65535; a code twice "
                "in one announcement) carried by sensor-data or regulator-data frames into a fresh EcoMAX; `frame_errors` dispatched first, "
                "late, twice or never; every subset of the 8 set-up kinds as the unsupported set (exhaustive); every code 0..255 on its own; "
                "a separate class with known response/message codes; the two carriers alternating with byte-identical repeated frames; "
                "around the announcements (no events of the statement): the frame object inspected before the device handles it (repr / data / message / "
                "len / == / bytes), arriving as bytes through a real FrameReader, with DEBUG logging of the pyplumio loggers; client subscribers on sensor "
                "names / frame_versions / sensors / regdata that raise, suspend (briefly, over the next event, to the end), unsubscribe themselves or are "
                "once-subscribers that raise; executor jobs (the class import of every Request.create) completing at once or only when the loop is idle; "
                "a section with TWO devices (EcoMAX 0x45, EcoSTER 0x51) on one write queue, the same kinds announced to both in turn, recipients observed. distinct = distinct history text; non-trivial = >= 2 announcements, "
                "at least one that queued a request and one that queued nothing")
    cases = [(parse_case(ln), "corpus") for _, ln in load_corpus("C15") if not ln.startswith("devices") and not ln.startswith("setup") and not ln.startswith("cancel ")]
    cases.extend(gen_cases(rng, ctx["tier"]))
    if ctx.get("max_cases"):
        cases = cases[: ctx["max_cases"]]
    check_cases(res, cases)
    if not ctx.get("max_cases"):
        dcases = [parse_devices(ln) for _, ln in load_corpus("C15") if ln.startswith("devices")]
        dcases += [gen_devices(rng) for _ in range(400 if ctx["tier"] == "quick" else 8000)]
        check_devices(res, dcases)
        scases = [parse_setup(ln[len("setup "):]) for _, ln in load_corpus("C15") if ln.startswith("setup ")]
        scases += [gen_setup_case(rng) for _ in range(300 if ctx["tier"] == "quick" else 6000)]
        check_setup(res, scases)
        try:
            run_overlap(res, rng, 150 if ctx["tier"] == "quick" else 3000)
        except ValueError as e:
            # a handler that is expected to be suspended inside Request.create (executor job held) is not: the schedule
            # of the overlap machine cannot be replayed on this tree
            res.fail("corr", dict(case="overlap section", label="overlap"), "update_frame_versions suspends in Request.create for every refresh",
                     f"{type(e).__name__}: {e}", "overlap machine: an announcement handler did not suspend where the machine does")
    res.extra["unsupported_subsets_enumerated"] = 2 ** len(SETUP)
    res.notes.append("observed per event: kinds of the frames found on the device queue after loop quiescence (all must be Request "
                     "frames addressed to the ecoMAX); the TypeError raised for a known response/message code is seen only through "
                     "what is (not) queued afterwards")
    return res


def replay(ctx):
    r = ctx["replay"]
    f = r.get("failure") or r.get("first_difference")
    res = Result("C15")
    res.rule = "replay of one recorded history"
    if f["input"]["case"].startswith("devices"):
        check_devices(res, [parse_devices(f["input"]["case"])])
        return res
    if f["input"]["case"].startswith("setup "):
        check_setup(res, [parse_setup(f["input"]["case"][len("setup "):])])
        return res
    if f["input"]["case"].startswith("overlap "):
        ops = parse_overlap(f["input"]["case"][len("overlap "):])
        runner = OverlapRunner()
        try:
            ev, obs, _ = runner.run_case(ops)
        finally:
            runner.close()
        check_overlap(res, [(ops, ev, obs, "replay")])
        return res
    check_cases(res, [(parse_case(f["input"]["case"]), f["input"].get("label", "replay"))])
    return res

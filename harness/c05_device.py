"""C05 (extension): device-level consequences of sensor data / regulator data / schema /
thermostat-parameters frames.  Sequences of frames go into ONE real EcoMAX through
`handle_frame` under the virtual loop; after every frame `device.data`, every mixer's and every
thermostat's data are compared with the Lean device model (`c05d-run`, Model/DeviceData.lean).

All payloads are encoded by the Lean driver (`c05s-encode`, `c05r-encode`, `p2enc thermostat`).
Scenarios: sensor data with k thermostats then thermostat parameters laid out for T = k
(the count is plumbed through `frame.handler`), k changing, the section absent (count persists),
T != k (corr only); schema, data, a NEW schema, data, an empty schema (old one stays), data;
truncated frames in between (state unchanged).  Dicts are compared unordered at the device level.
Not compared: `fuel_burned` (clock dependent), the request queue (C15).
"""
import asyncio
import json
import random
import struct

from common import driver_batch, hexs, use_repo

use_repo()

from pyplumio.devices.ecomax import EcoMAX  # noqa: E402
from pyplumio.frames.messages import RegulatorDataMessage, SensorDataMessage  # noqa: E402
from pyplumio.frames.responses import RegulatorDataSchemaResponse, ThermostatParametersResponse  # noqa: E402
from pyplumio.helpers.parameter import Parameter  # noqa: E402
from pyplumio.structures.network_info import NetworkInfo  # noqa: E402
from pyplumio.structures.thermostat_parameters import THERMOSTAT_PARAMETERS  # noqa: E402

import c05_canon as canon  # noqa: E402
import c05_regdata as rd  # noqa: E402
import c05_sensors as sn  # noqa: E402
import vloop  # noqa: E402

ERR_CLASSES = (IndexError, struct.error, OSError, ValueError)
FRAME_CLASS = {"S": SensorDataMessage, "T": ThermostatParametersResponse, "K": RegulatorDataSchemaResponse,
               "R": RegulatorDataMessage}
SKIP = ("mixers", "thermostats", "fuel_burned")
SIZES = [d.size for d in THERMOSTAT_PARAMETERS]


# ------------------------------------------------------------------ generators
def gen_thermo(rng, T):
    """abstract thermostat-parameters message for T >= 1 thermostats -> `p2enc thermostat` words"""
    if T == 1 and rng.random() < 0.5:
        start = rng.randrange(0, 6)
        per = rng.randrange(0, len(SIZES) - start + 1)
        count = per
    else:
        start = 0
        per = rng.choice([0, 1, 2, 3, 5, len(SIZES)])
        count = per * T + rng.randrange(T)
    if count > 255:
        per, count = 1, T

    def slot(idx):
        if rng.random() < 0.2:
            return "-"
        hi = 256 ** SIZES[idx] - 1
        v = [rng.choice([0, 1, hi, hi - 1, rng.randint(0, hi)]) for _ in range(3)]
        if all(x == hi for x in v):
            v[0] = 0
        return "/".join(map(str, v))

    prof = "-" if rng.random() < 0.3 else "/".join(str(rng.choice([0, 1, 254, rng.randrange(255)])) for _ in range(3))
    words = ["p2enc", "thermostat", str(rng.randrange(256)), str(start), str(count), prof]
    for _ in range(T):
        words.append("|")
        words += [slot(start + k) for k in range(per)]
    return " ".join(words)


def sensor_msg(rng, k, mixers=None):
    """k: number of thermostat slots, None = section absent"""
    m = sn.gen_msg(rng, rng.getrandbits(7) | (0x80 if k is not None else 0))
    if k is not None:
        items = []
        for _ in range(k):
            r = rng.random()
            cur = sn.NAN_Q if r < 0.15 else sn.f32(rng.uniform(15, 25))
            tgt = rng.choice([0, sn.f32(-2.0)]) if 0.15 <= r < 0.25 else sn.f32(rng.uniform(18, 24))
            items.append((sn.rbyte(rng), cur, tgt))
        m["thermostats"] = (sn.rbyte(rng, True), items)
    if mixers is not None:
        m["mixers"] = [(sn.NAN_Q if rng.random() < 0.25 else sn.f32(rng.uniform(20, 60)), sn.rbyte(rng), 0, sn.rbyte(rng), 0)
                       for _ in range(mixers)]
    m["versions"] = m["versions"][:3]
    m["temps"] = m["temps"][:6]
    m["alerts"] = m["alerts"][:3]
    return m


def gen_sequences(rng, tier):
    """yield (label, wellformed, [step]); step = ("S", sensor msg) | ("T", p2enc line) | ("KR", regdata msg, which)
    | ("K0",) empty schema | ("cut", step, fraction)"""
    n = 60 if tier == "quick" else 2500
    for _ in range(n):
        # thermostat count plumbing
        seq = []
        ks = [rng.choice([1, 2, 3, 4]), rng.choice([0, 1, 2, 3, 5]), None, rng.choice([1, 2])]
        if rng.random() < 0.3:
            seq.append(("T", gen_thermo(rng, rng.choice([1, 2]))))  # before any sensor frame: unavailable
        cur = 0
        for k in ks[: rng.choice([2, 3, 4])]:
            seq.append(("S", sensor_msg(rng, k, rng.choice([None, 0, 1, 2, 3]))))
            if k is not None:
                cur = k
            if cur >= 1:
                seq.append(("T", gen_thermo(rng, cur)))
            else:
                seq.append(("T", gen_thermo(rng, rng.choice([1, 2]))))
        yield "thermostat-count", True, seq
    for _ in range(n // 3):
        # thermostat parameters laid out for another count than the device's (model <-> code only)
        k = rng.choice([1, 2, 3, 4])
        T = rng.choice([t for t in (1, 2, 3, 4, 5) if t != k])
        yield "thermostat-mismatch", False, [("S", sensor_msg(rng, k, 1)), ("T", gen_thermo(rng, T)), ("S", sensor_msg(rng, None, 2))]
    for _ in range(n):
        a, b = rd.gen_msg(rng), rd.gen_msg(rng)
        while not a["items"]:
            a = rd.gen_msg(rng)
        while not b["items"]:
            b = rd.gen_msg(rng)
        a2 = dict(a, hdr=[1, 2])
        seq = [("R", a), ("K", a), ("R", a), ("K", b), ("R", b), ("K0",), ("R", b), ("K", a2), ("R", a2)]
        if rng.random() < 0.5:
            seq.insert(rng.randrange(1, len(seq)), ("S", sensor_msg(rng, rng.choice([None, 1, 2]), rng.choice([0, 1, 2]))))
        yield "schema-then-data", True, seq
    for _ in range(n // 2):
        a, b = rd.gen_msg(rng), rd.gen_msg(rng)
        while not a["items"]:
            a = rd.gen_msg(rng)
        seq = [("K", a), ("R", b), ("S", sensor_msg(rng, 2, 2)), ("cut", ("S", sensor_msg(rng, 3, 1)), rng.random()),
               ("cut", ("R", a), rng.random()), ("R", a), ("cut", ("K", b), rng.random()), ("R", a),
               ("cut", ("T", gen_thermo(rng, 2)), rng.random()), ("T", gen_thermo(rng, 2))]
        yield "mixed-malformed", False, seq


# ------------------------------------------------------------------ encoding through the driver
def encode_sequences(seqs):
    """-> per sequence a list of (kind, payload bytes)"""
    reqs, slots = [], []

    def need(step):
        if step[0] == "S":
            reqs.append("c05s-encode " + " ".join(map(str, sn.flat(step[1]))))
        elif step[0] == "T":
            reqs.append(step[1])
        elif step[0] in ("K", "R"):
            reqs.append("c05r-encode " + " ".join(map(str, rd.flat(step[1]))))
        elif step[0] == "K0":
            return
        elif step[0] == "cut":
            need(step[1])

    for _, _, seq in seqs:
        for st in seq:
            need(st)
    answers = iter(driver_batch(reqs))

    def build(step):
        if step[0] == "K0":
            return "K", bytes([0, 0])
        if step[0] == "cut":
            kind, p = build(step[1])
            return kind, p[: int(len(p) * step[2])]
        ans = next(answers)
        if ans == "bad-op":
            raise RuntimeError(f"driver rejected generated frame: {step[0]} {str(step[1])[:200]}")
        w = ans.split(" ")
        if step[0] == "S":
            return "S", bytes.fromhex(w[0])
        if step[0] == "T":
            if w[1] != "1":
                raise RuntimeError(f"generated thermostat message is not well formed: {step[1]}")
            return "T", bytes.fromhex(w[0])
        if step[0] == "K":
            return "K", bytes.fromhex(w[0])
        return "R", bytes.fromhex(w[1])

    return [[build(st) for st in seq] for _, _, seq in seqs]


# ------------------------------------------------------------------ implementation side
def plainval(v):
    if isinstance(v, Parameter):
        vals = v.values
        return {"value": vals.value, "min": vals.min_value, "max": vals.max_value}
    if isinstance(v, rd.DataType):  # schema entries held by the device are re-used by every decode
        return type(v).__name__
    if isinstance(v, dict):
        return {k: plainval(x) for k, x in v.items()}
    if isinstance(v, (list, tuple)):
        return [plainval(x) for x in v]
    return v


def snapshot(dev):
    data = {k: plainval(v) for k, v in sorted(dev.data.items()) if k not in SKIP}
    subs = {}
    for key in ("mixers", "thermostats"):
        subs[key] = {i: {k: plainval(v) for k, v in sorted(s.data.items())} for i, s in sorted(dev.data.get(key, {}).items())}
    return {"data": data, "mixers": subs["mixers"], "thermostats": subs["thermostats"]}


def sort_model(j):
    """sort the model's device state the same way (record fields by key, sub-devices by index)"""
    top = dict(j["r"])
    data = {"r": sorted(top["data"]["r"], key=lambda kv: kv[0])}
    out = [["data", data]]
    for key in ("mixers", "thermostats"):
        subs = sorted(top[key], key=lambda e: e[0])
        out.append([key, [[i, {"r": sorted(fs["r"], key=lambda kv: kv[0])}] for i, fs in subs]])
    return {"r": out}


INSPECT_MODES = (None, "repr", "data", "len", "eq", "message")


def inspect_frame(frame, mode, kind, payload):
    """what a client (or DEBUG logging in the reader: `Received frame: %s`) may do with a received frame BEFORE
    the device handles it; whatever it raises is the client's business (a payload that cannot be decoded
    without its device), the device-level result must not depend on it"""
    try:
        if mode == "repr":
            repr(frame)
        elif mode == "data":
            frame.data  # noqa: B018
        elif mode == "len":
            len(frame), frame.bytes  # noqa: B018
        elif mode == "eq":
            frame == FRAME_CLASS[kind](message=bytearray(payload))  # noqa: B015
        elif mode == "message":
            frame.message, frame.hex()  # noqa: B018
    except Exception:  # noqa: BLE001
        pass


async def run_impl(frames, inspect=None):
    """-> list of (handled?, snapshot | error) after each frame"""
    dev = EcoMAX(asyncio.Queue(), NetworkInfo())
    out = []
    for kind, payload in frames:
        frame = FRAME_CLASS[kind](message=bytearray(payload))
        inspect_frame(frame, inspect, kind, payload)
        try:
            dev.handle_frame(frame)
            ok = "1"
        except ERR_CLASSES:
            ok = "0"
        except Exception as e:  # noqa: BLE001
            ok = "X:" + type(e).__name__ + ": " + str(e)[:80]
        await rd.settle()
        out.append((ok, snapshot(dev)))
    dev.cancel_tasks()
    for key in ("mixers", "thermostats"):
        for s in dev.data.get(key, {}).values():
            s.cancel_tasks()
    await rd.settle()
    return out


def check_sequence(res, label, wellformed, frames, answer, impl, inspect=None):
    inp = dict(kind="device-seq", label=label, wellformed=wellformed, frames=[[k, p.hex()] for k, p in frames])
    if inspect:
        inp["inspect"] = inspect
    toks = [] if answer == "." else answer.split(" ")
    if len(toks) != len(frames):
        raise RuntimeError("driver answered a different number of device states")
    kind = "spec" if wellformed else "corr"
    for i, (tok, (ok, snap)) in enumerate(zip(toks, impl)):
        res.count("device-frame:" + frames[i][0] + (":handled" if tok[0] == "1" else ":rejected"))
        if ok != tok[0]:
            res.fail(kind, dict(inp, at=i), "handled" if tok[0] == "1" else "payload rejected, state unchanged",
                     ok, f"device level, frame {i} ({frames[i][0]}): model and implementation differ on whether the frame is handled")
            return
        diff = canon.agree(sort_model(json.loads(tok[1:])), snap, "bypath")
        if diff:
            res.fail(kind, dict(inp, at=i), tok[1:700], canon.show(snap)[:700],
                     f"device level, after frame {i} ({frames[i][0]}): device state differs from the model: " + diff)
            return


async def _run(ctx, res, seqs=None, payloads=None):
    if seqs is None:
        rng = random.Random(ctx["seed"] * 32452843 + 17)
        seqs = list(gen_sequences(rng, ctx["tier"]))
        if ctx.get("max_cases"):
            seqs = seqs[: ctx["max_cases"]]
        payloads = encode_sequences(seqs)
    answers = driver_batch("c05d-run " + " ".join(f"{k}:{hexs(p)}" for k, p in frames) for frames in payloads)
    for n, ((label, wf, _), frames, ans) in enumerate(zip(seqs, payloads, answers)):
        impl = await run_impl(frames)
        res.case(("dev", tuple(frames)), True)
        res.count("device-seq:" + label)
        check_sequence(res, label, wf, frames, ans, impl)
        # the same sequence with every frame inspected by the client before the device handles it
        mode = ctx.get("inspect") or INSPECT_MODES[1 + n % (len(INSPECT_MODES) - 1)]
        impl2 = await run_impl(frames, mode)
        res.case(("dev", mode, tuple(frames)), True)
        res.count("device-seq-inspected:" + mode)
        check_sequence(res, label, wf, frames, ans, impl2, mode)
        if not any(s.get("label") == "device:" + label for s in res.samples):
            res.sample(dict(label="device:" + label, frames=[[k, p.hex()[:80]] for k, p in frames], model=ans[:300]), limit=14)


def run_device(ctx, res):
    vloop.run(_run(ctx, res))


def replay_one(inp, res):
    frames = [(k, bytes.fromhex(h)) for k, h in inp["frames"]]
    res.case(tuple(frames))
    vloop.run(_run(dict(inspect=inp.get("inspect")), res, [(inp.get("label", "replay"), inp.get("wellformed", False), None)], [frames]))

"""C16 correspondence: the real EcoMAX.async_setup (request / timeout / retry path, gather, error
list, 'loaded') under the virtual loop vs the Lean machine `Setup`, and the Lean judge `C16.spec`
evaluated on what the implementation did.

A pattern = for each of the 8 set-up kinds the attempt (1..3) on which its response is handled, or
0 = never.  It is compiled into an event history: sensors, then per attempt window the answers
125 ms apart (never tying with a timeout), then the timer.
"""
import multiprocessing
import os
import random

from common import Result, driver_batch, load_corpus
import setupm
import c16proto

N = setupm.N
PRODUCT = setupm.NAMES.index("product")
ECOMAX_PARAMS = setupm.NAMES.index("ecomax_parameters")
MIXER_PARAMS = setupm.NAMES.index("mixer_parameters")
# order of the answers inside one attempt window: ecomax parameters BEFORE product, mixer parameters AFTER
WINDOW_ORDER = [1, 2, 0, 3, 4, 5, 6, 7]


def pattern_events(pat, lead=0, order=WINDOW_ORDER):
    ev = []
    if lead:
        ev.append(f"w:{lead}")
    ev.append("s")
    for attempt in (1, 2, 3):
        for k in order:
            if pat[k] == attempt:
                ev.append("w:125")
                ev.append(f"a:{k}")
        ev.append("t")
    return ev


SCHEMA_KIND = 1     # an EMPTY regulator-data schema provides nothing: for set-up it is not an answer


def mk_case(events_, mixers=True, thermostats=True, label="", pattern=None, minimal=()):
    """minimal: kinds answered with their smallest well-formed answer (empty alert log, no parameters, no
    schedules, empty password, empty schema)"""
    return dict(events=list(events_), mixers=bool(mixers), thermostats=bool(thermostats), label=label,
                pattern=list(pattern) if pattern is not None else None, minimal=sorted(minimal))


def model_events(c, ignored=()):
    """what the machine is told: an empty-schema answer is no answer; a clock advance that would reach the pending
    deadline is not an event of the machine (the rig did not perform it; the driver rejects it)"""
    ev = ["w:0" if i in ignored else e for i, e in enumerate(c["events"])]
    if SCHEMA_KIND in c.get("minimal", ()):
        return ["w:0" if e == f"a:{SCHEMA_KIND}" else e for e in ev]
    return ev


def rand_versions(rng):
    ks = [k for k in range(N) if rng.random() < 0.4]
    return "v:" + (".".join(map(str, ks)) if ks else "-")


def versions_first(mask, pat, lead=0):
    """a frame-versions table naming the kinds of `mask` is handled BEFORE the sensor data that starts set-up"""
    ks = [k for k in range(N) if (mask >> k) & 1]
    ev = ["v:" + (".".join(map(str, ks)) if ks else "-")]
    if lead:
        ev.append(f"w:{lead}")
    return ev + pattern_events(pat)


def random_history(rng):
    ev = []
    for _ in range(rng.choice([0, 0, 0, 1, 3])):     # things that happen before the sensor data
        ev.append(rng.choice([f"a:{rng.randrange(N)}", "w:500", "t", "w:125", rand_versions(rng)]))
    ev.append("s")
    for _ in range(rng.randint(0, 25)):
        x = rng.random()
        if x < 0.45:
            ev.append(f"a:{rng.choice([0, 0, 2, 5, rng.randrange(N), rng.randrange(N)])}")
        elif x < 0.7:
            ev.append(f"w:{rng.choice([125, 250, 500, 1000, 2875, 3000, 5000])}")
        elif x < 0.9:
            ev.append("t")
        elif x < 0.96:
            ev.append(rand_versions(rng))
        else:
            ev.append("s")
    return ev


def gen_cases(rng, tier):
    for fn, ln in load_corpus("C16"):
        w = ln.split()
        mn, ev = [], w[2:]
        if ev and ev[0].startswith("m="):      # kinds answered minimally
            mn, ev = [int(x) for x in ev[0][2:].split(".")], ev[1:]
        yield mk_case(ev, w[0] == "1", w[1] == "1", "corpus", None, mn)
    # the 256 subsets: every answered kind answered on the first attempt
    for m in range(256):
        pat = [1 if (m >> k) & 1 else 0 for k in range(N)]
        yield mk_case(pattern_events(pat), True, True, "subset", pat)
    if tier == "quick":
        for _ in range(500):
            pat = [rng.randrange(4) for _ in range(N)]
            order = WINDOW_ORDER if rng.random() < 0.5 else rng.sample(range(N), N)
            yield mk_case(pattern_events(pat, rng.choice([0, 0, 1500]), order), True, True, "pattern", pat)
        nvar, nrand = 64, 400
    else:
        for m in range(4 ** N):
            pat = [(m >> (2 * k)) & 3 for k in range(N)]
            yield mk_case(pattern_events(pat), True, True, "pattern-all", pat)
        for _ in range(3000):
            pat = [rng.randrange(4) for _ in range(N)]
            yield mk_case(pattern_events(pat, rng.choice([0, 1500, 7250]), rng.sample(range(N), N)), True, True, "pattern", pat)
        nvar, nrand = 256, 6000
    # frame-versions table before the sensor data: every subset of the eight kinds (thorough) x nothing answered /
    # everything answered / named kinds unanswered, the others answered / a random pattern
    masks = range(256) if tier != "quick" else sorted({0, 255, 1, 4, 32, 0b00111101} | {rng.randrange(256) for _ in range(40)})
    for m in masks:
        named = [(m >> k) & 1 for k in range(N)]
        for pat in ([0] * N, [1] * N, [0 if named[k] else 1 for k in range(N)], [rng.randrange(4) for _ in range(N)]):
            yield mk_case(versions_first(m, pat, rng.choice([0, 500])), True, True, "versions-first", pat)
    # variants: mixer-parameters response without mixers (no product dependency), no thermostats
    for i in range(nvar):
        m = i if nvar == 256 else rng.randrange(256)
        pat = [rng.choice([1, 2, 3]) if (m >> k) & 1 else 0 for k in range(N)]
        mixers, thermostats = [(False, True), (True, False), (False, False)][i % 3]
        yield mk_case(pattern_events(pat), mixers, thermostats, "variant", pat)
    # minimal answers: every kind on its own, all together, and random subsets -- everything answered, so set-up
    # must load early with an empty error list (but for the empty schema, which provides nothing)
    MINIMAL_KINDS = [1, 2, 3, 4, 7]
    subsets = [[k] for k in MINIMAL_KINDS] + [MINIMAL_KINDS] + [[k for k in MINIMAL_KINDS if rng.random() < 0.5] for _ in range(nvar // 4)]
    for mn in subsets:
        for pat in ([1] * N, [rng.choice([1, 2, 3]) for _ in range(N)], [rng.randrange(4) for _ in range(N)]):
            yield mk_case(pattern_events(pat), 5 not in mn or rng.random() < 0.5, rng.random() < 0.7, "minimal-answers", pat, mn)
    for _ in range(nrand):
        mn = [k for k in MINIMAL_KINDS if rng.random() < 0.15]
        yield mk_case(random_history(rng), rng.random() < 0.8, rng.random() < 0.8, "random", None, mn)


def run_impl(c):
    groups, summ = setupm.run_history(c["events"], c["mixers"], c["thermostats"], c.get("minimal", ()))
    # the harness' own bookkeeping for the judge: when was what answered (first time), when did sensors arrive
    return groups, summ


def _work(c):
    groups, summ = run_impl(c)
    t0 = None
    answers = [None] * N
    timers_after = 0
    for e, t in zip(c["events"], summ["times"]):      # the clock after each event, as the rig saw it
        if e == "s" and t0 is None:
            t0 = t
        elif e.startswith("a:"):
            k = int(e[2:])
            if k < N and answers[k] is None and not (k == SCHEMA_KIND and SCHEMA_KIND in c.get("minimal", ())):
                answers[k] = t
        elif e == "t" and t0 is not None:
            timers_after += 1
    return c, groups, summ, t0, answers, timers_after


def impl_string(groups, summ):
    ld = (f"{summ['loaded_at']};{'.'.join(summ['errors']) if summ['errors'] else '-'}" if summ["loaded_at"] is not None else "-;-")
    return ("|".join(",".join(g) if g else "-" for g in groups)
            + f";{summ['now']};{summ['present']};{','.join(map(str, summ['tx']))};{ld};{','.join(map(str, summ['vtx']))}")


def check(res, results):
    model = driver_batch(f"c16 {int(c['mixers'])} " + " ".join(model_events(c, set(summ.get("ignored", ())))) for c, _, summ, *_ in results)
    jl, jidx = [], []
    for i, (c, groups, summ, t0, answers, timers_after) in enumerate(results):
        if t0 is None:
            continue
        complete = summ["loaded_at"] is not None or timers_after >= 3
        errs = summ["errors"] or []
        if any(e.startswith("X") for e in errs):
            continue
        jl.append("c16judge %d %d %d %s %s %s %s %s" % (
            c["mixers"], t0, complete, summ["loaded_at"] if summ["loaded_at"] is not None else "-",
            ".".join(errs) if errs else "-", ",".join("-" if a is None else str(a) for a in answers),
            ",".join(map(str, summ["tx"])), summ["present"]))
        jidx.append(i)
    verdict = dict(zip(jidx, driver_batch(jl)))
    for i, ((c, groups, summ, t0, answers, timers_after), m) in enumerate(zip(results, model)):
        impl = impl_string(groups, summ)
        inp = dict(events=c["events"], mixers=c["mixers"], thermostats=c["thermostats"], label=c["label"], pattern=c["pattern"],
                   minimal=c.get("minimal", []))
        for k in c.get("minimal", []):
            res.count("minimal answer for kind %d" % k)
        nerr = len(summ["errors"] or [])
        res.case((tuple(c["events"]), c["mixers"], c["thermostats"]), nontrivial=t0 is not None)
        res.count("label:" + c["label"])
        res.count("failed kinds:%s" % (nerr if summ["loaded_at"] is not None else "not loaded"))
        if summ["loaded_at"] is not None and t0 is not None:
            res.count("loaded after (ms):%d" % (3000 * ((summ["loaded_at"] - t0 + 2999) // 3000)) if summ["loaded_at"] > t0 else "loaded after (ms):0")
        if c["pattern"] is not None:
            res.count("product answered on attempt:%d" % c["pattern"][0])
        if any(e.startswith("v:") for e in c["events"]):
            res.count("frame-versions table handled: " + ("before the sensor data" if c["events"][0].startswith("v:") else "later / elsewhere"))
            res.count("requests by the versions handler:%d" % sum(summ["vtx"]))
        bad = []
        if any(e.startswith("X") for e in (summ["errors"] or [])):
            bad.append(f"frame_errors holds something that is not a set-up frame type: {summ['errors']}")
        if summ["extra"]:
            bad.append(f"unexpected frames on the write queue / event loop: {summ['extra'][:3]}")
        if summ["task_exc"]:
            bad.append(f"async_setup raised {summ['task_exc']}")
        if summ["loaded_at"] is not None and not summ["task_done"]:
            bad.append("'loaded' dispatched but async_setup has not returned")
        v = verdict.get(i, "pass")
        if v.startswith("full-only"):
            # only the clause "the data of every answered request is available", read without proviso, fails.  Open finding
            # F11 at INPUT level: product information unanswered on every attempt AND ecoMAX parameters (or mixer parameters
            # listing a mixer) answered -- judged on the harness's own record of what it answered when
            deadline = t0 + 9000
            ans = lambda k: answers[k] is not None and answers[k] < deadline   # noqa: E731
            f10 = (not ans(PRODUCT)) and (ans(ECOMAX_PARAMS) or (c["mixers"] and ans(MIXER_PARAMS)))
            res.count("literal data clause fails:" + ("F11 input (product unanswered, dependent parameters answered)" if f10 else "other input"))
            res.fail("spec", inp, "the data of every answered request is available (C16.specFull)", impl,
                     "the data of an answered request is not available: its handler waits for product information that was never answered",
                     **(dict(finding="F11") if f10 and v.endswith("F11-input") else {}))
        elif v != "pass":
            bad.append("C16.spec violated by the implementation's observation")
        for b in bad:
            res.fail("spec", inp, m, impl, b)
        if impl != m:
            res.fail("corr", inp, m, impl, "Setup model and EcoMAX.async_setup differ")
        if c["label"] in ("pattern", "pattern-all") and 1 <= nerr <= 6:
            res.sample(dict(input=inp, observed=impl), limit=5)


def run(ctx):
    rng = random.Random(ctx["seed"] * 15485863 + 16)
    tier = ctx["tier"]
    res = Result("C16")
    res.rule = ("pattern = per set-up kind the attempt (1..3) on which its response is handled, or never; compiled to "
                "sensors + per attempt window the answers 125 ms apart + timer.  corpus; the 256 subsets (answered on attempt 1); "
                "quick: 500 random patterns with random answer order, thorough: all 4^8 patterns; a frame-versions table (regulator-data message) "
                "naming a subset of the kinds handled BEFORE the sensor data (thorough: all 2^8 subsets x 4 answer patterns); variants (mixer response without "
                "mixers, no thermostats); random free-form histories (answers before the sensor data, duplicate and late answers, "
                "clock advances, repeated sensor data, frame-versions tables at any time).  distinct = distinct (history, variant); non-trivial = sensor data was delivered")
    cases = list(gen_cases(rng, tier))
    if ctx.get("max_cases"):
        cases = cases[:ctx["max_cases"]]
    workers = min(8, os.cpu_count() or 1) if tier == "thorough" else min(4, os.cpu_count() or 1)
    if workers > 1:
        with multiprocessing.get_context("fork").Pool(workers) as pool:
            results = pool.map(_work, cases, chunksize=256)
    else:
        results = [_work(c) for c in cases]
    check(res, results)
    c16proto.run_section(res, rng, 150 if tier == "quick" else 4000)
    res.failures.sort(key=lambda f: (f["kind"] != "spec", len(f["input"].get("events", ()))))
    res.exhaustive = tier == "thorough"
    res.extra["patterns"] = "all 4^8 = 65536 (subset x attempt) patterns" if tier == "thorough" else "256 subsets + 500 random patterns"
    return res


def replay(ctx):
    rp = ctx["replay"]
    f = rp.get("failure") or rp.get("first_difference")
    if f["input"].get("via") == "protocol":
        res = Result("C16")
        res.rule = "replay of one recorded set-up run over the wire"
        c16proto.replay_case(res, {k: v for k, v in f["input"].items() if k != "via"})
        return res
    c = mk_case(f["input"]["events"], f["input"]["mixers"], f["input"]["thermostats"], f["input"].get("label", "replay"),
                f["input"].get("pattern"), f["input"].get("minimal", ()))
    res = Result("C16")
    res.rule = "replay of one recorded history"
    r = _work(c)
    check(res, [r])
    res.sample(dict(input=f["input"], observed=impl_string(r[1], r[2])))
    return res

"""Run one history of the connection machine (C11 / C12) on the REAL implementation.

A history is (cfg, rc, script, events); events are the tokens of the Lean driver's `conn`
request (see lean/PlumVerif/Model/ConnDriver.lean) plus a harness-only variant tag after `~`
(e.g. `X~eofmid`, `F:b~len`) that selects among implementation inputs the model treats alike.
Discipline: one external event, then the virtual loop runs to quiescence, then the outputs
and a state summary are recorded in exactly the driver's answer format.

Only public entry points are used: Connection.connect / close, the `_open_connection`
extension point (connfake.ScriptedConnection), StreamReader.feed_data / feed_eof /
set_exception, Device.queue, Device.set_nowait, EventManager.subscribe, the public `tasks`
properties.  The write queue of a device-less protocol is found by type (pyplumio.protocol.Queues).
"""
import asyncio
import os

import connfake
import vloop
from connfake import fg

from pyplumio.exceptions import ConnectionFailedError  # noqa: E402
from pyplumio.frames.requests import ProgramVersionRequest  # noqa: E402
from pyplumio.protocol import AsyncProtocol, Queues  # noqa: E402

ADDR_NAME = {69: "ecomax", 81: "ecoster"}
SETUP_KINDS = {57, 85, 49, 61, 54, 50, 92, 58}
VER_KINDS = [64, 48]  # Conn.verKinds: program version, check device (pinned by C12.verKinds_eq)
RANK = {"ann": 0, "wclose": 1, "open": 2, "tx": 3, "newdev": 4, "deliver": 5, "cfail": 6, "closed": 7}
MODE = {"o": "ok", "r": "raise", "h": "hang"}


def script_entry(tok):
    """driver token -> (result, drain mode, close mode)"""
    if tok == "e":
        return ("err", "ok", "ok")
    if tok == "h":
        return ("hang", "ok", "ok")
    return ("ok", MODE[tok[1]], MODE[tok[2]])


async def open_with_modes(conn):
    """scripted open whose successful result carries the transport behaviour of the script entry"""
    k = conn.nopen
    conn.nopen += 1
    n0 = len(conn.writers)
    res = await connfake.scripted_open(conn)
    if len(conn.writers) > n0 and k < len(conn.entries):
        conn.writers[-1].drain_mode = conn.entries[k][1]
        conn.writers[-1].close_mode = conn.entries[k][2]
    return res


class ScriptedConn(connfake.ScriptedConnection):
    """the public extension point: a Connection subclass with its own `_open_connection`
    (decorated with the real @timeout(CONNECT_TIMEOUT), as the library's subclasses are)"""

    def __init__(self, entries, **kw):
        super().__init__(script=[e[0] for e in entries], **kw)
        self.entries = list(entries)
        self.nopen = 0

    @connfake.timeout(connfake.CONNECT_TIMEOUT)
    async def _open_connection(self):
        return await open_with_modes(self)


def make_connection(kind, entries, protocol, rc):
    """kind 'x': ScriptedConn; 't' / 's': the library's own TcpConnection / SerialConnection on a scripted *network*
    (asyncio.open_connection / serial_asyncio.open_serial_connection replaced by the scripted open), so that their own
    `_open_connection` - including its CONNECT_TIMEOUT - is what runs.  Returns (connection, undo)."""
    if kind == "x":
        return ScriptedConn(entries, protocol=protocol, reconnect_on_failure=bool(rc)), (lambda: None)
    from pyplumio.connection import SerialConnection, TcpConnection

    if kind == "t":
        conn = TcpConnection("192.0.2.1", 8899, protocol=protocol, reconnect_on_failure=bool(rc))
    else:
        conn = SerialConnection("/dev/ttyFAKE0", 115200, protocol=protocol, reconnect_on_failure=bool(rc))
    conn.script = [e[0] for e in entries]
    conn.default = "ok"
    conn.opens, conn.readers, conn.writers, conn.log = [], [], [], []
    conn.entries, conn.nopen = list(entries), 0

    async def net_open(*a, **kw):
        return await open_with_modes(conn)

    undo = []
    if kind == "t":
        orig = asyncio.open_connection
        asyncio.open_connection = net_open
        undo.append(lambda: setattr(asyncio, "open_connection", orig))
    else:
        import sys

        for name in ("serial_asyncio_fast", "serial_asyncio"):
            mod = sys.modules.get(name)
            if mod is not None and hasattr(mod, "open_serial_connection"):
                o = mod.open_serial_connection
                mod.open_serial_connection = net_open
                undo.append(lambda mod=mod, o=o: setattr(mod, "open_serial_connection", o))
    return conn, (lambda: [u() for u in undo])


def coro_chain(task):
    """names of the coroutines a suspended task is nested in, outermost first"""
    names = []
    c = task.get_coro()
    seen = 0
    while c is not None and seen < 30:
        code = getattr(c, "cr_code", None) or getattr(c, "gi_code", None)
        if code is None:
            break
        names.append(code.co_name)
        c = getattr(c, "cr_await", None) or getattr(c, "gi_yieldfrom", None)
        seen += 1
    return names


class _Log(list):
    """adapter: entries logged by the fake transports go straight into the runner's output
    list, so that list is in true emission order"""

    def __init__(self, sink):
        super().__init__()
        self.sink = sink

    def append(self, e):
        if e[0] == "open":
            self.sink.append((int(round(e[1] * 1000)), "open", {"ok": 0, "err": 1, "hang": 2}[e[2]]))
        elif e[0] == "tx":
            self.sink.append((e[3], "tx", e[1], canon_kind(e[2])))
        elif e[0] == "close":
            self.sink.append((e[2], "wclose", e[1]))


class Runner:
    def __init__(self, cfg, rc, script, kind="x"):
        self.loop = vloop.new_loop()
        self.now_ms = 0
        self.protocol = AsyncProtocol(consumers_count=cfg)
        self.conn, self.undo_net = make_connection(kind, [script_entry(t) for t in script], self.protocol, rc)
        self.cfg = cfg
        self.out = []  # (t_ms, name, args...)
        self.connect_task = None
        self.close_task = None
        self.close_t0 = None
        self.close_t1 = None
        self.stalled = None  # reader that holds a partial frame (no further input is fed to it)
        self.gates = {}  # addr -> asyncio.Event the protocol-level new-device callback waits for (harness-only G / R events)
        self.gate_waiting = set()  # addrs whose callback is blocked right now
        self.fed = []  # (event index, addr, kind) of every complete frame for us handed to a reading producer
        self.nev = -1
        self.sessions = 0  # times the connection object was used again after a close() that returned
        self.devices = {}  # addr -> device object first seen
        self.dev_ids = {}
        self.own = set()
        self.conn.log = _Log(self.out)
        for addr, name in ADDR_NAME.items():
            self.protocol.subscribe(name, self._on_device(addr))

    # -- observation hooks (subscriptions are public API) --------------------------------
    def t(self):
        return int(round(self.loop.time() * 1000))

    def _on_device(self, addr):
        async def cb(device):
            self.out.append((self.t(), "newdev", addr))
            if addr not in self.devices:
                self.devices[addr] = device

            async def on_connected(v):
                if v:
                    self.out.append((self.t(), "ann", addr, 1))
                else:
                    self.out.append((self.t(), "ann", addr, 0, int(self.protocol.connected.is_set())))

            async def on_password(v):
                self.out.append((self.t(), "deliver", addr, 186))

            async def on_sensors(v):
                self.out.append((self.t(), "deliver", addr, 53))

            device.subscribe("connected", on_connected)
            device.subscribe("password", on_password)
            device.subscribe("sensors", on_sensors)
            gate = self.gates.get(addr)
            if gate is not None and not gate.is_set():
                # a slow user callback on the protocol's device-name event: the frame consumer that created the
                # device stays inside get_device_entry (holding the entry lock) until the harness releases it
                self.gate_waiting.add(addr)
                try:
                    await gate.wait()
                finally:
                    self.gate_waiting.discard(addr)

        return cb

    def settle(self, until=None):
        connfake.settle(self.loop, until, max_iter=6000)

    # -- helpers --------------------------------------------------------------------------
    def write_queue(self):
        for d in self.devices.values():
            return d.queue
        for v in vars(self.protocol).values():
            if isinstance(v, Queues):
                return v.write
        raise RuntimeError("write queue not found")

    def read_queue(self):
        for v in vars(self.protocol).values():
            if isinstance(v, Queues):
                return v.read
        return None

    def producer_reading(self):
        for t in self.protocol.tasks:
            if not t.done() and t.get_coro().cr_code.co_name == "frame_producer":
                ch = coro_chain(t)
                return "read" in ch
        return False

    def ecomax(self):
        return self.protocol.data.get("ecomax")

    # -- events -----------------------------------------------------------------------------
    def apply(self, tok):
        """apply one history token; returns the segment string in the driver's format"""
        ev, _, variant = tok.partition("~")
        parts = ev.split(":")
        loop = self.loop
        k = parts[0]
        self.nev += 1
        if self.close_task is not None and self.close_task.done():
            if k in ("C", "Z"):
                # the connection object is used again (second connect() / `async with`, or a second close()): the machine's `reopen`
                self.sessions += 1
                self.close_task = None
                self.close_t0 = self.close_t1 = None
            elif k not in ("A", "K"):
                return self.segment()  # nothing is done to a closed connection but letting time pass (the machine ignores it too)
        if k == "G":  # harness only: the next new-device callback for this address blocks until R
            a = int(parts[1])
            if a not in self.gates and a not in self.devices:
                self.gates[a] = asyncio.Event()
            return self.segment()
        if k == "R":  # harness only: release every gate
            for g in self.gates.values():
                g.set()
            self.gates.clear()
            self.settle()
            return self.segment()
        if k == "K":  # harness only: which Connection class is under test (see make_connection)
            return self.segment()
        if k == "S":  # the peer sends the first k bytes of a frame, then stalls
            if self.conn.readers and self.producer_reading() and not self.conn.readers[-1].at_eof():
                r = self.conn.readers[-1]
                data = connfake.password_frame()[:int(parts[1])]
                if data:
                    r.feed_data(data)
                self.stalled = r
            self.settle()
            return self.segment()
        if k == "C":
            c, _ = self.classify()
            idle = (self.connect_task is None or self.connect_task.done()) and self.close_task is None
            if idle and not self.protocol.connected.is_set() and c["p"] + c["l"] + c["r"] == 0:
                # `~ctx`: through the context manager (`async with connection:` enters with __aenter__)
                coro = self.conn.__aenter__() if variant == "ctx" else self.conn.connect()
                self.connect_task = loop.create_task(coro, name="harness-connect")
                self.own.add(self.connect_task)
                self.connect_task.add_done_callback(self._connect_done)
            self.settle()
        elif k == "F":
            if self.conn.readers and self.producer_reading():
                r = self.conn.readers[-1]
                if parts[1] == "p":
                    data = connfake.password_frame(int(parts[2]))
                    self.fed.append((self.nev, int(parts[2]), 186))
                elif parts[1] == "s":
                    data = connfake.sensor_frame(int(parts[2]), int(parts[3]))
                    self.fed.append((self.nev, 69, 53))
                elif parts[1] == "v":  # sensor data announcing version <ver> for the first n kinds of VER_KINDS
                    data = connfake.sensor_frame(0, 0, versions=[(kd, int(parts[3])) for kd in VER_KINDS[:int(parts[2])]])
                    self.fed.append((self.nev, 69, 53))
                elif parts[1] == "o":  # frame for us from a known address that has no device class
                    data = fg.mk(186, b"\x040000", 86, int(parts[2]))
                elif parts[1] == "u":  # wire-valid sensor data whose payload cannot be decoded
                    data = fg.mk(53, connfake.sensor_payload()[:5], 86, 69)
                elif parts[1] == "f":
                    data = connfake.foreign_frame()
                else:
                    data = bad_frame(variant)
                if variant == "split":
                    h = len(data) // 2
                    r.feed_data(data[:h])
                    self.settle()
                    r.feed_data(data[h:])
                else:
                    r.feed_data(data)
            self.settle()
        elif k == "X":
            if self.conn.readers and self.producer_reading() and not self.conn.readers[-1].at_eof():
                r = self.conn.readers[-1]
                if variant == "exc":
                    r.set_exception(ConnectionResetError("scripted read fault"))
                else:
                    r.feed_eof()
            self.settle()
        elif k == "XM":  # EOF inside a frame: the read ends in a ReadError, the next one in OSError
            if self.conn.readers and self.producer_reading() and not self.conn.readers[-1].at_eof():
                r = self.conn.readers[-1]
                cut = {"hdr": 4, "body": 9}.get(variant, 9)
                r.feed_data(connfake.password_frame()[:cut])
                r.feed_eof()
            self.settle()
        elif k == "D":
            if self.protocol.writer is not None:
                self.conn.writers[-1].drain_mode = MODE[parts[1]]
        elif k == "W":
            if self.protocol.writer is not None:
                self.conn.writers[-1].close_mode = MODE[parts[1]]
        elif k == "Q":
            q = self.write_queue()
            for _ in range(int(parts[1])):
                q.put_nowait(ProgramVersionRequest(recipient=69))
            self.settle()
        elif k == "P":
            target = None
            if parts[1] == "d":
                target = self.protocol.data.get(ADDR_NAME.get(int(parts[2]), "?"))
            else:
                e = self.ecomax()
                if e is not None:
                    target = e.data.get("mixers" if parts[1] == "m" else "thermostats", {}).get(int(parts[2]))
            if target is not None:
                from asyncio import events

                events._set_running_loop(loop)
                try:
                    target.set_nowait("no_such_parameter", 1)
                finally:
                    events._set_running_loop(None)
            self.settle()
        elif k == "A":
            self.now_ms += int(parts[1])
            self.settle(self.now_ms / 1000.0)
        elif k == "Z":
            if self.close_task is None and (self.connect_task is None or self.connect_task.done()):
                self.close_t0 = self.t()
                coro = self.conn.__aexit__(None, None, None) if variant == "ctx" else self.conn.close()
                self.close_task = loop.create_task(coro, name="harness-close")
                self.own.add(self.close_task)
                self.close_task.add_done_callback(self._close_done)
            self.settle()
        else:
            raise ValueError(tok)
        return self.segment()

    def _connect_done(self, task):
        if not task.cancelled() and isinstance(task.exception(), ConnectionFailedError):
            self.out.append((self.t(), "cfail"))
        elif not task.cancelled() and task.exception() is not None:
            self.out.append((self.t(), "connect-raised", type(task.exception()).__name__))

    def _close_done(self, task):
        self.close_t1 = self.t()
        if task.cancelled() or task.exception() is not None:
            self.out.append((self.t(), "close-raised", "cancelled" if task.cancelled() else type(task.exception()).__name__))
        else:
            self.out.append((self.t(), "closed"))

    # -- observations -------------------------------------------------------------------------
    def classify(self):
        """live tasks by role; everything the library created must fall in a known class"""
        c = dict(p=0, k=0, l=0, r=0, s=0, d=0, b=0, rq=0, jn=0, po=0, other=0)
        dev_sets, sub_sets = [], []
        for dev in self.protocol.data.values():
            dev_sets.append(dev.tasks)
            for key in ("mixers", "thermostats"):
                for sub in (dev.data.get(key) or {}).values():
                    sub_sets.append(sub.tasks)
        names = []
        for t in asyncio.all_tasks(self.loop):
            if t.done() or t in self.own:
                continue
            co = t.get_coro()
            name = getattr(getattr(co, "cr_code", None), "co_name", "?")
            names.append(name)
            if t in self.conn.tasks:
                c["r"] += 1
            elif t in self.protocol.tasks:
                if name == "frame_producer":
                    c["p"] += 1
                elif name == "frame_consumer":
                    c["k"] += 1
                elif name == "connection_lost":
                    c["l"] += 1
                elif name == "async_setup":
                    c["s"] += 1
                else:
                    c["po"] += 1
            elif any(t in s for s in dev_sets):
                c["d"] += 1
            elif any(t in s for s in sub_sets):
                c["b"] += 1
            elif getattr(getattr(co, "cr_code", None), "co_filename", "").endswith(os.sep + "connection.py"):
                c["l"] += 1  # the reconnect callback wrapped in a task by gather() inside connection_lost
            elif name == "request":
                c["rq"] += 1
            elif name == "join":
                c["jn"] += 1
            else:
                c["other"] += 1
        return c, sorted(names)

    def segment(self):
        self.last_raw = list(self.out)  # emission order
        outs = sorted(self.out, key=lambda o: (o[0], RANK.get(o[1], 9)) + tuple(o[2:]))
        self.last_outs = outs
        del self.out[:]
        c, names = self.classify()
        self.last_classes = c
        self.last_names = names
        open_tids = [w.tid for w in self.conn.writers if not w.closed]
        self.open_tids = open_tids
        w = "-" if not open_tids else ",".join(map(str, open_tids))
        wa = 1 if self.protocol.writer is not None else 0
        if self.close_task is None:
            z, zt = "n", 0
        elif self.close_task.done():
            z, zt = "d", self.close_t1 - self.close_t0
        else:
            ch = coro_chain(self.close_task)
            z = "j" if "join" in ch else "w"
            zt = self.t() - self.close_t0
        q = self.write_queue().qsize()
        st = (f"c={int(self.protocol.connected.is_set())},w={w},wa={wa},p={c['p']},k={c['k']},l={c['l']},r={c['r']},"
              f"s={c['s']},rq={c['rq']},d={c['d']},b={c['b']},q={q},rs={self.read_queue().qsize()},t={self.t()},z={z},zt={zt},tie=0,n={name_counts(names)}")
        o = ";".join("/".join(str(x) for x in e) for e in outs)
        return (o if o else "-") + "#" + st

    def finish(self):
        """cancel whatever is left so the loop can be closed"""
        loop = self.loop
        from asyncio import events

        self.undo_net()
        events._set_running_loop(loop)
        try:
            pending = [t for t in asyncio.all_tasks(loop) if not t.done()]
            for t in pending:
                t.cancel()
            for _ in range(50):
                if not loop._ready:
                    break
                loop._run_once()
            for t in pending:
                if t.done() and not t.cancelled():
                    t.exception()
        finally:
            events._set_running_loop(None)
            asyncio.set_event_loop(None)
            loop.close()


def name_counts(names):
    """live library tasks by the name of their coroutine function, in the format of the driver's `n=` field"""
    cnt = {}
    for nm in names:
        cnt[nm] = cnt.get(nm, 0) + 1
    return "+".join(f"{nm}*{cnt[nm]}" for nm in sorted(cnt)) if cnt else "-"


def bad_frame(variant):
    """frames whose read() ends in a ProtocolError (a completed read, nothing delivered)"""
    if variant == "len":  # declared length below the minimum: ReadError after the header
        return bytes([0x68, 5, 0, 86, 69, 48, 5])
    if variant == "sender":  # unknown sender
        return fg.mk(186, b"\x040000", 86, 7)
    if variant == "kind":  # unknown frame type
        return fg.mk(7, b"", 86, 69)
    return connfake.bad_frame()


def canon_kind(k):
    """set-up request kinds are compared as one symbol: the order in which the simultaneous
    timeouts of one retry round re-queue their requests is the timer heap's (asyncio, trusted)"""
    return 1000 if k in SETUP_KINDS else k


def canon_model(segment):
    """model segment -> same canonical ordering as the implementation side"""
    outs, _, st = segment.partition("#")
    if outs == "-":
        return segment
    evs = []
    for o in outs.split(";"):
        p = o.split("/")
        e = (int(p[0]), p[1]) + tuple(int(x) for x in p[2:])
        if e[1] == "tx":
            e = e[:3] + (canon_kind(e[3]),)
        evs.append(e)
    evs.sort(key=lambda o: (o[0], RANK.get(o[1], 9)) + tuple(o[2:]))
    return ";".join("/".join(str(x) for x in e) for e in evs) + "#" + st


def model_request(cfg, rc, script, events):
    toks = [e.partition("~")[0] for e in events]
    return f"conn {cfg} {int(bool(rc))} {','.join(script) if script else '-'} " + " ".join(toks)


def parse_state(segment):
    st = segment.partition("#")[2]
    d = {}
    for kv in st.split(","):
        k, _, v = kv.partition("=")
        d[k] = v
    return d


def parse_outs(segment):
    outs = segment.partition("#")[0]
    if outs == "-":
        return []
    res = []
    for o in outs.split(";"):
        p = o.split("/")
        res.append((int(p[0]), p[1]) + tuple(int(x) if x.lstrip("-").isdigit() else x for x in p[2:]))
    return res

"""C07 correspondence: which slot a named parameter was read from / which slot its set request
addresses.  A real EcoMAX (with its mixers and thermostats) is fed UID + parameter responses built
from payload bytes, then `set` is called on named parameters; `device.data` and the queued set
requests are compared with the Lean dataset model (`c07run`), and the statement's own predicate
is evaluated on what the implementation did:

  S1  after a response, the value decoded from a described position p is held under the name
      table[p].name with index p (name <-> position bijection, per device);
  S2  a position without description creates, overwrites and re-indexes nothing;
  S3  the set request of a named parameter addresses the position its value was decoded from
      (ecoMAX [p,v]; mixer [m,p,v]; thermostat [p+1+t*per]+LE(v,size); control [v]; profile [0,v];
      schedule [1, schedule index, switch, parameter] + bitmap).

Failures on thermostat >= 1 whose creating block had an undefined hole are the open finding F3.
"""
import random
import warnings

from common import Result, driver_batch, load_corpus
import paramdev as pd
from paramdev import World

warnings.filterwarnings("ignore", category=RuntimeWarning)   # "coroutine ... was never awaited" of an aborted schedule response

# every public way a client comes to hold "the parameter obtained from a device by name"
FILTER_ROUTES = ["subscribe(on_change)", "subscribe(debounce(1))", "subscribe(debounce(2))", "subscribe(throttle)", "subscribe(custom)",
                 "subscribe(on_change(debounce(1)))", "subscribe(debounce(1)(on_change))", "subscribe(throttle(custom))"]
COPY_ROUTES = ["copy.copy(data[])", "copy.deepcopy(data[])"]
CAPTURE_ROUTES = (["data[]", "get_nowait", "getattr", "await get", "wait_for then data[]", "subscribe", "subscribe_once"]
                  + FILTER_ROUTES + COPY_ROUTES)


def wrap_filter(route, cb):
    from pyplumio.filters import custom, debounce, on_change, throttle
    return {
        "subscribe(on_change)": lambda: on_change(cb),
        "subscribe(debounce(1))": lambda: debounce(cb, 1),
        "subscribe(debounce(2))": lambda: debounce(cb, 2),
        "subscribe(throttle)": lambda: throttle(cb, 0),
        "subscribe(custom)": lambda: custom(cb, lambda value: True),
        "subscribe(on_change(debounce(1)))": lambda: on_change(debounce(cb, 1)),
        "subscribe(debounce(1)(on_change))": lambda: debounce(on_change(cb), 1),
        "subscribe(throttle(custom))": lambda: throttle(custom(cb, lambda value: True), 0),
    }[route]()

KINDS = {"EcomaxNumber": "ecomax", "EcomaxSwitch": "ecomax", "MixerNumber": "mixer", "MixerSwitch": "mixer",
         "ThermostatNumber": "thermostat", "ThermostatSwitch": "thermostat", "ScheduleNumber": "schedule",
         "ScheduleSwitch": "schedule"}


# ------------------------------------------------------------------ structured events
def rand_triple(rng, size=1, hole_p=0.25):
    if rng.random() < hole_p:
        return None
    n = 256 ** size
    r = rng.random()
    if r < 0.6:
        lo, hi = sorted((rng.randrange(n), rng.randrange(n)))
        t = (rng.randint(lo, hi), lo, hi)
    elif r < 0.7:
        t = (0, 0, n - 1)
    elif r < 0.8:
        v = rng.randrange(n - 1)
        t = (v, v, v)
    else:
        t = (rng.randrange(n), rng.randrange(n), rng.randrange(n))
    # all bytes 0xFF IS the undefined hole
    return None if all(b == 255 for x in t for b in x.to_bytes(size, "little")) else t


def ev_ecomax(start, triples, truncate=None, count=None):
    payload = pd.ecomax_payload(start, triples, count=count)
    ref = [(start + k, t) for k, t in enumerate(triples) if t is not None]
    if truncate is not None:
        payload, ref = payload[:truncate], None
    return dict(kind="E", payload=payload.hex(), ref=ref if count is None else None, desc=f"ecomax start={start} n={len(triples)}")


def ev_mixer(start, per_mixer, truncate=None):
    payload = pd.mixer_payload(start, per_mixer)
    ref = {m: [(start + k, t) for k, t in enumerate(tr) if t is not None] for m, tr in enumerate(per_mixer)}
    ref = {m: it for m, it in ref.items() if it}
    if truncate is not None:
        payload, ref = payload[:truncate], None
    return dict(kind="M", payload=payload.hex(), ref=ref, desc=f"mixers={len(per_mixer)} start={start}")


def ev_thermostat(start, T, per, profile, per_thermostat, sizes, truncate=None, count_field=None, controller_per=None):
    cf = (per + start) * T + (1 if T > 1 else 0) - start if count_field is None else count_field
    # the decoder reads positions start .. (start+count)//T - 1 per thermostat
    payload = pd.thermostat_payload(start, cf % 256, profile, per_thermostat, sizes)
    ok = cf < 256 and (start + cf) // T - start == per
    ref = dict(profile=profile, per=per, T=T, N=controller_per if controller_per is not None else per,
               blocks={t: [(start + k, tr) for k, tr in enumerate(sl) if tr is not None] for t, sl in enumerate(per_thermostat)},
               holes={t: any(tr is None for tr in sl) for t, sl in enumerate(per_thermostat)})
    ref["blocks"] = {t: it for t, it in ref["blocks"].items() if it}
    if truncate is not None:
        payload, ok = payload[:truncate], False
    return dict(kind="T", payload=payload.hex(), ref=ref if ok else None, tstart=start, desc=f"thermostats T={T} start={start} per={per}")


def ev_schedules(entries, truncate=None):
    payload = pd.schedules_payload(entries)
    ref = [(i, sw, par, pd.schedule_bits_bytes(bits).hex()) for i, sw, par, bits in entries]
    if truncate is not None:
        payload, ref = payload[:truncate], None
    return dict(kind="S", payload=payload.hex(), ref=ref, desc=f"schedules n={len(entries)}")


def ev_uid():
    return dict(kind="U", ref=True, desc="UID response (product info)")


def ev_avail(n):
    return dict(kind="A", n=n, desc=f"thermostats_available={n}")


def ev_state(st):
    return dict(kind="Z", st=st, desc=f"state={st}")


def ev_keep(k=None):
    return dict(kind="KEEP", k=k, desc="the client obtains (data[], get_nowait, attribute, await get, subscription callback) and keeps parameter objects")


def ev_setkept():
    return dict(kind="SETK", desc="the client writes through every kept object (set, set_nowait, turn_on/off forms)")


def ev_sets(k=None):
    return dict(kind="SETS", k=k, desc="set every (or k sampled) named parameter to another value inside its bounds")


def rand_bits(rng):
    return [[rng.random() < 0.5 for _ in range(48)] for _ in range(7)]


# ------------------------------------------------------------------ history generators
def gen_histories(rng, tier, tables):
    order = random.Random(rng.random())
    for label, product, evs in gen_histories_uid_first(rng, tier, tables):
        if label == "random" and order.random() < 0.3:
            k = order.randrange(0, len(evs) + 1)      # the UID response arrives late (or never)
            yield "random-late-uid", product, evs[:k] + [ev_uid()] + evs[k:]
        else:
            yield label, product, [ev_uid()] + evs
    yield from gen_arrival_order(rng, tier, tables)
    yield from gen_kept_objects(rng, tier, tables)
    # F8 (candidate finding, same root cause as F3): the FIRST thermostat response is a legal partial one (fewer parameters
    # per thermostat than the controller has), a full one follows: parameters created by the partial response keep
    # offset = t x (length of the partial response) for ever
    t = tables["tables"]
    sizes = [r["size"] for r in t["thermostat"]]
    N = len(sizes)
    for k in ((5,) if tier == "quick" else (1, 5, 9)):
        yield "thermostats-partial-first", pd.PRODUCT_P, [
            ev_uid(), ev_avail(2),
            ev_thermostat(0, 2, k, (1, 0, 5), [[rand_triple(rng, sizes[i], 0.0) for i in range(k)] for _ in range(2)], sizes, controller_per=N),
            ev_keep(None),
            ev_thermostat(0, 2, N, (1, 0, 5), [[rand_triple(rng, sizes[i], 0.0) for i in range(N)] for _ in range(2)], sizes),
            ev_setkept(), ev_sets()]


def gen_kept_objects(rng, tier, tables):
    """the client KEEPS parameter objects; the controller then reports the same blocks with another start / count /
    hole pattern / number of mixers / number of thermostats (the kept name may sit elsewhere in the payload, or not be
    reported at all), the profile disappears and comes back, the state changes; then the client writes through the
    kept objects, by every public write route"""
    quick = tier == "quick"
    t = tables["tables"]
    sizes = [r["size"] for r in t["thermostat"]]
    N = len(sizes)
    nsched = len(tables["schedules"])
    for rep in range(3 if quick else 40):
        for product, pname in ((pd.PRODUCT_P, "P"), (pd.PRODUCT_I, "I")):
            L, LM = len(t["ecomax" + pname]), len(t["mixer" + pname])
            def everything(state):
                return [ev_ecomax(0, [rand_triple(rng, 1, 0.0) for _ in range(min(L, 200))]),
                        ev_mixer(0, [[rand_triple(rng, 1, 0.0) for _ in range(LM)] for _ in range(3)]),
                        ev_avail(2), ev_thermostat(0, 2, N, (2, 0, 5), [[rand_triple(rng, sizes[k], 0.0) for k in range(N)] for _ in range(2)], sizes),
                        ev_schedules([(i, rng.randrange(2), rand_triple(rng, 1, 0.0), rand_bits(rng)) for i in range(nsched)]),
                        ev_state(state)]

            full = [ev_uid()] + everything(2)

            def other_reports():
                evs = []
                start = rng.randrange(1, max(2, L - 5))
                evs.append(ev_ecomax(start, [rand_triple(rng, 1, 0.4) for _ in range(rng.randrange(1, min(30, L - start + 3)))]))
                mstart = rng.randrange(0, LM)
                mcnt = rng.randrange(1, LM - mstart + 2)
                evs.append(ev_mixer(mstart, [[rand_triple(rng, 1, 0.4) for _ in range(mcnt)] for _ in range(rng.randrange(1, 5))]))
                T = rng.choice([1, 2, 3])
                evs.append(ev_avail(T))
                evs.append(ev_thermostat(0, T, N, rng.choice([None, (3, 0, 5)]),
                                         [[rand_triple(rng, sizes[k], 0.4) for k in range(N)] for _ in range(T)], sizes))
                evs.append(ev_schedules([(i, rng.randrange(2), rand_triple(rng, 1, 0.3), rand_bits(rng))
                                         for i in rng.sample(range(nsched), rng.randrange(1, 6))]))
                evs.append(ev_state(rng.choice([0, 3, 5])))
                rng.shuffle(evs)
                # thermostats_available has to precede its response
                ai = next(i for i, e in enumerate(evs) if e["kind"] == "A")
                ti = next(i for i, e in enumerate(evs) if e["kind"] == "T")
                if ai > ti:
                    evs[ai], evs[ti] = evs[ti], evs[ai]
                return evs

            evs = full + [ev_keep(40 if quick else 120)] + other_reports() + [ev_setkept()] + other_reports() + [ev_setkept(), ev_sets(20)]
            yield "kept", product, evs
            # every subscription is served: the controller reports everything again (other values) after the client subscribed,
            # the client writes through what it was handed; and once more after a third full report
            yield "kept-served", product, (full + [ev_keep(70 if quick else 200)] + everything(0) + [ev_setkept()] + everything(3)
                                           + [ev_setkept()])


def gen_arrival_order(rng, tier, tables):
    """parameter responses of every kind handled BEFORE the UID response (several of them), then the UID, sets, then repeats"""
    quick = tier == "quick"
    t = tables["tables"]
    sizes = [r["size"] for r in t["thermostat"]]
    nsched = len(tables["schedules"])
    for rep in range(6 if quick else 60):
        for product, pname in ((pd.PRODUCT_P, "P"), (pd.PRODUCT_I, "I")):
            L, LM = len(t["ecomax" + pname]), len(t["mixer" + pname])
            nm = rng.randrange(1, 4)

            def eco():
                start = rng.choice([0, 0, rng.randrange(0, L), max(0, L - 3)])
                return ev_ecomax(start, [rand_triple(rng, 1, 0.15) for _ in range(rng.randrange(1, min(40, 255 - start)))])

            def mix():
                start = rng.choice([0, 0, rng.randrange(0, LM)])
                cnt = rng.randrange(1, LM + 3 - start)
                return ev_mixer(start, [[rand_triple(rng, 1, 0.15) for _ in range(cnt)] for _ in range(nm)])

            def thermo():
                return ev_thermostat(0, 2, 5, rand_triple(rng, 1, 0.3), [[rand_triple(rng, sizes[k], 0.0) for k in range(5)] for _ in range(2)], sizes)

            def sched():
                idxs = rng.sample(range(nsched), 3)
                return ev_schedules([(i, rng.randrange(2), rand_triple(rng, 1, 0.2), rand_bits(rng)) for i in idxs])

            before = [f() for f in rng.sample([eco, mix, eco, mix, thermo, sched], rng.randrange(2, 6))]
            if rep == 0:
                # the canonical case: full mixer and ecoMAX blocks first, UID late, everything repeated afterwards
                before = [ev_mixer(0, [[rand_triple(rng, 1, 0.0) for _ in range(LM)] for _ in range(2)]),
                          ev_ecomax(0, [rand_triple(rng, 1, 0.0) for _ in range(min(L, 200))])]
            evs = [ev_avail(2)] + before + [ev_sets(6), ev_uid(), ev_sets(25)]
            after = [ev_mixer(0, [[rand_triple(rng, 1, 0.0) for _ in range(LM)] for _ in range(2)]) if rep == 0 else mix(), eco(), ev_uid()]
            rng.shuffle(after)
            evs += after + [ev_sets(25)]
            yield "arrival", product, evs


def gen_histories_uid_first(rng, tier, tables):
    quick = tier == "quick"
    t = tables["tables"]
    sizes = [r["size"] for r in t["thermostat"]]
    nsched = len(tables["schedules"])
    for product, pname in ((pd.PRODUCT_P, "P"), (pd.PRODUCT_I, "I")):
        eco = t["ecomax" + pname]
        mix = t["mixer" + pname]
        L = len(eco)
        # (a) every position + 3 beyond the table; create, update, set everything
        for hole_p in (0.0, 0.3):
            n = min(L + 3, 255)
            yield "full", product, [
                ev_ecomax(0, [rand_triple(rng, 1, hole_p) for _ in range(n)]),
                ev_sets(40 if quick else None),
                ev_ecomax(0, [rand_triple(rng, 1, hole_p) for _ in range(n)]),
                ev_sets(40 if quick else None)]
        # (b) windows across the end of the table and single positions beyond it
        for start in range(max(0, L - 3), min(L + 4, 256)):
            for cnt in (1, 2, 5):
                yield "edge", product, [ev_ecomax(max(0, L - 6), [rand_triple(rng, 1, 0.0) for _ in range(5)]),
                                        ev_ecomax(start, [rand_triple(rng, 1, 0.1) for _ in range(cnt)]),
                                        ev_sets(8)]
        # unknown position first (UnboundLocalError before a46bd66), unknown between known ones is impossible (increasing)
        yield "edge", product, [ev_ecomax(L, [(1, 0, 9), (2, 0, 9)]), ev_sets()]
        yield "edge", product, [ev_ecomax(250, [(1, 0, 9)] * 5, count=255), ev_sets()]
        # (c) mixers 0..4, every position +3 beyond
        for M in range(0, 5):
            n = len(mix) + 3
            yield "mixers", product, [
                ev_mixer(0, [[rand_triple(rng, 1, 0.2) for _ in range(n)] for _ in range(M)]),
                ev_sets(30 if quick else None),
                ev_mixer(0, [[rand_triple(rng, 1, 0.2) for _ in range(n)] for _ in range(M)]),
                ev_sets(30 if quick else None)]
        for start in range(max(0, len(mix) - 2), len(mix) + 3):
            yield "mixers", product, [ev_mixer(start, [[rand_triple(rng, 1, 0.1) for _ in range(3)] for _ in range(2)]), ev_sets()]
        # all-hole mixer in the middle
        yield "mixers", product, [ev_mixer(0, [[(1, 0, 5)] * 4, [None] * 4, [(2, 0, 5)] * 4]), ev_sets()]
    # (d) thermostats 0..3, no holes / holes (F3), then update, sets
    for T in (0, 1, 2, 3):
        for holes in (0.0, 0.3):
            for per in ((len(sizes), 12, 3) if not quick else (len(sizes), 12)):
                if T == 0:
                    evs = [ev_avail(0), ev_thermostat(0, 1, per, (1, 0, 5), [[rand_triple(rng, sizes[k], holes) for k in range(per)]], sizes), ev_sets()]
                else:
                    evs = [ev_avail(T)]
                    for _ in range(2):
                        evs.append(ev_thermostat(0, T, per, rand_triple(rng, 1, 0.2),
                                                 [[rand_triple(rng, sizes[k], holes) for k in range(per)] for _ in range(T)], sizes))
                        evs.append(ev_sets())
                yield "thermostats", pd.PRODUCT_P, evs
    # position beyond the thermostat table: the decoder raises
    yield "thermostats", pd.PRODUCT_P, [ev_avail(1), ev_thermostat(0, 1, 15, (1, 0, 5), [[(1, 0, 5)] * 15], sizes),
                                        ev_thermostat(0, 1, 16, (2, 0, 5), [[(2, 0, 6)] * 16], sizes + [1], count_field=16), ev_sets()]
    yield "thermostats", pd.PRODUCT_P, [ev_avail(2), ev_thermostat(3, 2, 4, None, [[(1, 0, 5)] * 4] * 2, sizes), ev_sets()]
    # (e) schedules: all, partial, holes, duplicates, unknown index
    bits = rand_bits(rng)
    yield "schedules", pd.PRODUCT_P, [
        ev_schedules([(i, rng.randrange(2), rand_triple(rng, 1, 0.0), rand_bits(rng)) for i in range(nsched)]), ev_sets(30 if quick else None),
        ev_schedules([(i, rng.randrange(2), rand_triple(rng, 1, 0.3), rand_bits(rng)) for i in range(0, nsched, 3)]), ev_sets(30 if quick else None)]
    yield "schedules", pd.PRODUCT_I, [ev_schedules([(2, 1, (5, 0, 9), bits), (2, 0, (6, 0, 9), bits), (7, 1, None, bits)]), ev_sets()]
    yield "schedules", pd.PRODUCT_P, [ev_schedules([(1, 1, (5, 0, 9), bits), (3, 0, (4, 0, 9), bits)]),
                                      ev_schedules([(1, 0, (6, 1, 9), bits), (nsched, 1, (7, 0, 9), bits), (3, 1, (8, 0, 9), bits), (5, 1, (1, 0, 9), bits)]),
                                      ev_sets()]
    yield "schedules", pd.PRODUCT_P, [ev_schedules([(nsched + 3, 1, (7, 0, 9), bits), (0, 1, (1, 0, 9), bits)]), ev_sets()]
    yield "schedules", pd.PRODUCT_P, [ev_schedules([(0, 1, (1, 0, 9), bits)]), ev_schedules([], truncate=2), ev_sets()]
    # (f) control / profile
    yield "control", pd.PRODUCT_P, [ev_state(0), ev_sets(), ev_state(3), ev_sets(), ev_state(0), ev_sets()]
    yield "control", pd.PRODUCT_I, [ev_state(2), ev_avail(1), ev_thermostat(0, 1, 2, (3, 0, 5), [[(1, 0, 5), (2, 0, 5)]], sizes), ev_sets(),
                                    ev_thermostat(0, 1, 2, None, [[(1, 0, 5), (2, 0, 5)]], sizes), ev_sets()]
    # (g) truncated / malformed payloads (correspondence only)
    for _ in range(60 if quick else 600):
        product = rng.choice([pd.PRODUCT_P, pd.PRODUCT_I])
        full = ev_ecomax(rng.randrange(0, 8), [rand_triple(rng, 1, 0.2) for _ in range(rng.randrange(1, 6))])
        n = len(bytes.fromhex(full["payload"]))
        yield "malformed", product, [ev_ecomax(0, [(1, 0, 9)] * 4),
                                     dict(full, payload=full["payload"][:2 * rng.randrange(0, n)], ref=None), ev_sets()]
        m = ev_mixer(rng.randrange(0, 4), [[rand_triple(rng, 1, 0.2) for _ in range(3)] for _ in range(rng.randrange(1, 3))])
        n = len(bytes.fromhex(m["payload"]))
        yield "malformed", product, [dict(m, payload=m["payload"][:2 * rng.randrange(0, n)], ref=None), ev_sets()]
        T = rng.randrange(1, 3)
        th = ev_thermostat(0, T, 5, rand_triple(rng, 1, 0.3), [[rand_triple(rng, sizes[k], 0.2) for k in range(5)] for _ in range(T)], sizes)
        n = len(bytes.fromhex(th["payload"]))
        yield "malformed", product, [ev_avail(T), dict(th, payload=th["payload"][:2 * rng.randrange(0, n)], ref=None), ev_sets()]
        sc = ev_schedules([(rng.randrange(nsched), 1, rand_triple(rng, 1, 0.3), bits) for _ in range(2)])
        n = len(bytes.fromhex(sc["payload"]))
        yield "malformed", product, [dict(sc, payload=sc["payload"][:2 * rng.randrange(0, n)], ref=None), ev_sets()]
    # (h) random response sequences
    for _ in range(400 if quick else 4000):
        product = rng.choice([pd.PRODUCT_P, pd.PRODUCT_I])
        pname = "P" if product == pd.PRODUCT_P else "I"
        L, LM = len(t["ecomax" + pname]), len(t["mixer" + pname])
        T = rng.choice([0, 1, 1, 2, 3])
        per = rng.choice([len(sizes), 12, 5, 1])
        tstart = rng.choice([0, 0, 0, 2])
        if tstart + per > len(sizes):
            per = len(sizes) - tstart
        hole_t = rng.choice([0.0, 0.0, 0.3])
        evs = [ev_avail(T)] if T else []
        for _ in range(rng.randrange(2, 8)):
            r = rng.random()
            if r < 0.3:
                start = rng.choice([0, rng.randrange(0, L), max(0, L - rng.randrange(0, 5))])
                evs.append(ev_ecomax(start, [rand_triple(rng) for _ in range(rng.randrange(0, 12))]))
            elif r < 0.5:
                start = rng.choice([0, rng.randrange(0, LM), max(0, LM - rng.randrange(0, 3))])
                cnt = rng.randrange(1, 6)
                evs.append(ev_mixer(start, [[rand_triple(rng) for _ in range(cnt)] for _ in range(rng.randrange(0, 5))]))
            elif r < 0.7 and T:
                evs.append(ev_thermostat(tstart, T, per, rand_triple(rng, 1, 0.3),
                                         [[rand_triple(rng, sizes[tstart + k], hole_t) for k in range(per)] for _ in range(T)], sizes))
            elif r < 0.85:
                evs.append(ev_schedules([(rng.randrange(nsched), rng.randrange(2), rand_triple(rng, 1, 0.3), rand_bits(rng))
                                         for _ in range(rng.randrange(0, 4))]))
            elif r < 0.92:
                evs.append(ev_state(rng.choice([0, 1, 2, 3, 5])))
            else:
                evs.append(ev_sets(rng.randrange(1, 6)))
        evs.append(ev_sets(12))
        yield "random", product, evs


# ------------------------------------------------------------------ running one history on the implementation
def display_for(p, v):
    """value to pass to set() so that raw v is requested (C17: set(display(v)) requests v)"""
    d = p.description
    cls = type(p).__name__
    if cls.endswith("Switch"):
        return v
    if hasattr(d, "multiplier"):
        return round((v - getattr(d, "offset", 0)) * d.multiplier, d.precision)
    return v


def pick_value(rng, triple, size):
    value, lo, hi = triple
    hi = min(hi, 256 ** size - 1)
    cands = [x for x in {lo, hi, (lo + hi) // 2, lo + 1, hi - 1} if lo <= x <= hi and x != value]
    return rng.choice(sorted(cands)) if cands else None


def frame_out(r, frames):
    if r[0] == "exc" and r[1] != "ValueError":
        return "reqerror"
    if r[0] == "exc":
        return "rejected"
    if not frames:
        return "noframe"
    if frames[0][0] == "unencodable":
        return "reqerror"
    cls, ftype, rcpt, msg = frames[0]
    b = bytes.fromhex(msg) if msg != "-" else b""
    return cls + ":" + ".".join(str(x) for x in b)


async def run_history(product, evs, seed):
    """returns (model event words, outs, snapshot after each response, set records)"""
    rng = random.Random(seed)
    w = World()
    words, outs, sets, snaps, concrete = [], [], [], [], []
    tavail = 0
    sched_state = {}      # schedule index -> bitmap hex as last reported (None: unknown after a malformed response)
    nsched = len(pd.load_tables()["schedules"])

    kept = []             # objects the client keeps: dict(label, name, route, obj | holder)

    def kept_obj(i):
        kk = kept[i]
        return kk["obj"] if "obj" in kk else kk["holder"].get("obj")

    def routes_for(label, name, cls, v, by_name_ok):
        rs = ["parameter.set", "parameter.set_nowait"]
        if by_name_ok:
            rs += ["device.set", "device.set_nowait"]
        if cls.endswith("Switch") and v in (0, 1):
            rs += ["switch.turn", "switch.turn_nowait"]
            if by_name_ok and label == "ecomax" and name == "ecomax_control":
                rs += ["ecomax.turn", "ecomax.turn_nowait"]
        return rs

    async def do_set(label, name, v, route=None, kept_i=None):
        import asyncio
        dev = dict(w.devices()).get(label)
        cur = dev.data.get(name) if dev is not None else None
        p = kept_obj(kept_i) if kept_i is not None else cur
        live = kept_i is None or (cur is p)
        dw = "e" if label == "ecomax" else ("m" + label[5:] if label.startswith("mixer") else "t" + label[10:])
        if p is None or not isinstance(p, pd.Parameter):
            if kept_i is None:
                words.append(f"W:{dw}:{name}:{v}")
                concrete.append(dict(kind="SET", label=label, name=name, v=v, desc=f"set {label}.{name}={v}"))
                outs.append("noparam")
            return
        cls = type(p).__name__
        if route is None:
            route = rng.choice(routes_for(label, name, cls, v, by_name_ok=live))
        disp = display_for(p, v)
        on = v == 1

        async def nowait(call, wait):
            call()
            await asyncio.sleep(wait)

        setter = {
            "parameter.set": lambda: p.set(disp, retries=1, timeout=0.01),
            "parameter.set_nowait": lambda: nowait(lambda: p.set_nowait(disp, retries=1, timeout=0.01), 1.0),
            "device.set": lambda: dev.set(name, disp, retries=1),
            "device.set_nowait": lambda: nowait(lambda: dev.set_nowait(name, disp, retries=1), 10.0),
            "switch.turn": lambda: (p.turn_on() if on else p.turn_off()),
            "switch.turn_nowait": lambda: nowait((p.turn_on_nowait if on else p.turn_off_nowait), 40.0),
            "ecomax.turn": lambda: (w.ecomax.turn_on() if on else w.ecomax.turn_off()),
            "ecomax.turn_nowait": lambda: nowait((w.ecomax.turn_on_nowait if on else w.ecomax.turn_off_nowait), 40.0),
        }[route]
        index, triple = p._index, (p.values.value, p.values.min_value, p.values.max_value)
        offset, size = getattr(p, "offset", None), getattr(p.description, "size", 1)
        concrete.append(dict(kind="SET", label=label, name=name, v=v, route=route, kept=kept_i,
                             desc=f"set {label}.{name}={v} via {route}" + ("" if kept_i is None else " on a kept object")))
        r, frames = await pd.run_set(w, setter)
        o = frame_out(r, frames)
        if o == "noframe" and route.endswith("nowait"):
            o = "reqerror"     # the *_nowait forms run set() in a background task: an exception there is only visible as "nothing queued"
        if live:
            words.append(f"W:{dw}:{name}:{v}")
            outs.append(o)
        rec = dict(label=label, name=name, v=v, out=o, triple=list(triple), cls=cls, index=index,
                   offset=offset, size=size, after=p.values.value, route=route, kept=kept_i is not None, stale=not live,
                   capture=None if kept_i is None else kept[kept_i]["route"])
        for suffix in ("_schedule_switch", "_schedule_parameter"):
            if cls.startswith("Schedule") and name.endswith(suffix):
                prefix = name[: -len(suffix)]
                eco = w.snapshot()["ecomax"]
                rec["sched"] = dict(prefix=prefix, bits=None if sched_state is None else dict(sched_state),
                                    switch=eco.get(prefix + "_schedule_switch", [None, None, [None]])[2][0],
                                    parameter=eco.get(prefix + "_schedule_parameter", [None, None, [None]])[2][0])
        sets.append(rec)

    async def keep(items):
        """the client obtains parameter objects and keeps them: (label, name, capture route)"""
        concrete.append(dict(kind="KEEPX", items=[list(x) for x in items], desc=f"client keeps {len(items)} parameter objects"))
        for label, name, route in items:
            dev = dict(w.devices()).get(label)
            if dev is None:
                kept.append(dict(label=label, name=name, route=route, obj=None))
                continue
            if route in ("subscribe", "subscribe_once") or route in FILTER_ROUTES:
                holder = {}

                async def cb(value, holder=holder):
                    holder["obj"] = value

                if route == "subscribe":
                    dev.subscribe(name, cb)
                elif route == "subscribe_once":
                    dev.subscribe_once(name, cb)
                else:
                    dev.subscribe(name, wrap_filter(route, cb))
                kept.append(dict(label=label, name=name, route=route, holder=holder))
                continue
            if route in COPY_ROUTES:
                import copy
                obj = dev.data.get(name)
                try:
                    obj = None if obj is None else (copy.copy(obj) if route == COPY_ROUTES[0] else copy.deepcopy(obj))
                except Exception:  # noqa: BLE001  an object that cannot be copied is not a parameter the client holds
                    obj = None
                kept.append(dict(label=label, name=name, route=route, obj=obj))
                continue
            if route == "wait_for then data[]":
                try:
                    await dev.wait_for(name, timeout=1)
                    obj = dev.data.get(name)
                except Exception:  # noqa: BLE001
                    obj = None
                kept.append(dict(label=label, name=name, route=route, obj=obj))
                continue
            if route == "data[]":
                obj = dev.data.get(name)
            elif route == "get_nowait":
                obj = dev.get_nowait(name)
            elif route == "getattr":
                obj = getattr(dev, name, None)
            else:
                obj = await dev.get(name, timeout=1)
            kept.append(dict(label=label, name=name, route=route, obj=obj))

    for ev in evs:
        k = ev["kind"]
        if k not in ("SETS", "SET", "KEEP", "KEEPX", "SETK"):
            concrete.append(ev)
        if k == "U":
            before = w.snapshot()
            await w.uid(product)
            words.append("U")
            snaps.append((ev, before, w.snapshot(), None, tavail))
        elif k == "SET":
            await do_set(ev["label"], ev["name"], ev["v"], route=ev.get("route"), kept_i=ev.get("kept"))
        elif k == "KEEPX":
            await keep([tuple(x) for x in ev["items"]])
        elif k == "KEEP":
            snap = w.snapshot()
            targets = [(label, name) for label in sorted(snap) for name in sorted(snap[label])]
            if ev["k"] is not None and len(targets) > ev["k"]:
                must = [x for x in targets if x[1] in ("thermostat_profile", "ecomax_control")]
                targets = sorted(set(rng.sample(targets, ev["k"])) | set(must))
            await keep([(label, name, rng.choice(CAPTURE_ROUTES)) for label, name in targets])
        elif k == "SETK":
            # the client writes through the objects it kept (whatever the controller reported meanwhile)
            for i in range(len(kept)):
                obj = kept_obj(i)
                if obj is None or not isinstance(obj, pd.Parameter):
                    continue
                triple = (obj.values.value, obj.values.min_value, obj.values.max_value)
                v = pick_value(rng, triple, getattr(obj.description, "size", 1))
                if v is None:
                    continue
                await do_set(kept[i]["label"], kept[i]["name"], v, kept_i=i)
        elif k in "EMTS":
            payload = bytes.fromhex(ev["payload"])
            feed = {"E": w.ecomax_params, "M": w.mixer_params, "T": w.thermostat_params, "S": w.schedules}[k]
            before = w.snapshot()
            err = await feed(payload)
            words.append(f"{k}:{payload.hex() or '-'}")
            if err is not None:
                outs.append("decodeerror" if err == "IndexError" else f"exception:{err}")
            snaps.append((ev, before, w.snapshot(), err, tavail))
            if k == "S":
                if ev.get("ref") is None:
                    sched_state = None
                elif all(i < nsched for i, _, _, _ in ev["ref"]):
                    sched_state = {i: bits for i, _, _, bits in ev["ref"]}
        elif k == "A":
            await w.thermostats_available(ev["n"])
            tavail = ev["n"]
            words.append(f"A:{ev['n']}")
        elif k == "Z":
            prev = w.ecomax.data.get("state")
            if prev is not None and int(prev) == ev["st"]:
                concrete.pop()
                continue  # on_change swallows an unchanged state; the model has no filter
            await w.state(ev["st"])
            words.append(f"Z:{int(ev['st'] != 0)}")
        elif k == "SETS":
            snap = w.snapshot()
            targets = [(label, name) for label in sorted(snap) for name in sorted(snap[label])]
            if ev["k"] is not None and len(targets) > ev["k"]:
                targets = sorted(rng.sample(targets, ev["k"]))
            for label, name in targets:
                cls, index, triple, offset, devindex, size = w.snapshot()[label][name]
                v = pick_value(rng, triple, size)
                if v is None:
                    continue
                await do_set(label, name, v)
    final = w.snapshot()
    await w.shutdown()
    return words, outs, snaps, sets, final, concrete


def canon_snapshot(snap):
    parts = []
    for label in sorted(snap, key=lambda s: (s.rstrip("0123456789"), int(s[len(s.rstrip("0123456789")):] or 0))):
        ents = []
        for name in sorted(snap[label]):
            cls, index, (v, lo, hi), offset, devindex, size = snap[label][name]
            kind = KINDS[cls]
            if name == "ecomax_control" and cls == "EcomaxSwitch":
                kind = "control"
            if name == "thermostat_profile" and cls == "EcomaxNumber":
                kind = "profile"
            ents.append(f"{name}={kind}/{int(cls.endswith('Switch'))}/{index}/{v}/{lo}/{hi}/{devindex or 0}/{offset or 0}/{size}")
        parts.append(label + "{" + ",".join(ents) + "}")
    return " ".join(parts)


# ------------------------------------------------------------------ the statement's predicate on observations
def judge(product, evs, snaps, sets, tables):
    """returns list of (clause, detail, finding|None).  Only events with a reference decoding
    (well-formed payloads built by the generator) are judged."""
    pname = "P" if product == pd.PRODUCT_P else "I"
    t = tables["tables"]
    tbl = {"ecomax": t["ecomax" + pname], "mixer": t["mixer" + pname], "thermostat": t["thermostat"], "schedule": t["scheduleParams"]}
    bad = []
    origin = {}     # (label, name) -> dict(kind, pos, dev, per, hole)
    sched_bits = {}
    sched_vals = {}
    valid = True
    known = False       # product info (UID response) has arrived
    parked = []         # items of ecoMAX / mixer responses handled before the UID: applied, in arrival order, when it arrives
    for ev, before, after, err, tavail in snaps:
        if ev["kind"] != "U" and (ev["ref"] is None or (ev["kind"] == "T" and tavail not in (0, ev["ref"]["T"]))):
            valid = False   # a malformed payload: what was decoded from where is not defined by the layout; stop judging
            break
        items = []          # (label, kind, pos, triple, extra)
        if ev["kind"] == "U":
            if known:
                continue
            known = True
            items, parked = parked, []
            ev = dict(ev, desc="UID after %d parked items" % len(items))
        elif ev["kind"] == "E":
            items = [("ecomax", "ecomax", p, tr, {}) for p, tr in ev["ref"]]
        elif ev["kind"] == "M":
            items = [(f"mixer{m}", "mixer", p, tr, dict(dev=m)) for m, its in ev["ref"].items() for p, tr in its]
        elif ev["kind"] == "T":
            ref = ev["ref"]
            items = [(f"thermostat{th}", "thermostat", p, tr, dict(dev=th, per=ref.get("N", ref["per"]), hole=ref["holes"][th],
                                                                    partial=ref.get("N", ref["per"]) != ref["per"]))
                     for th, its in ref["blocks"].items() for p, tr in its]
            if tavail == 0:
                items = []
        elif ev["kind"] == "S":
            for i, sw, par, bits in ev["ref"]:
                items.append(("ecomax", "schedule", 2 * i, (sw, 0, 1), {}))
                if par is not None:
                    items.append(("ecomax", "schedule", 2 * i + 1, par, {}))
        if ev["kind"] in "EM" and not known:
            # S4 (arrival order): the handlers that wait for product info create nothing before it arrives
            parked += items
            for label in set(before) | set(after):
                for name in set(before.get(label, {})) | set(after.get(label, {})):
                    if before.get(label, {}).get(name) != after.get(label, {}).get(name):
                        bad.append(("S4 a parameter was created / changed by a response handled before the UID response (product type unknown)",
                                    dict(event=ev["desc"], device=label, name=name, before=before.get(label, {}).get(name),
                                         after=after.get(label, {}).get(name)), None))
            continue
        touched = set()
        last = {}
        for label, kind, pos, tr, extra in items:
            if pos < len(tbl[kind]):
                last[(label, tbl[kind][pos]["name"])] = (kind, pos, tr, extra)
        unknown = [it for it in items if it[2] >= len(tbl[it[1]])]
        sched_abort = ev["kind"] == "S" and unknown
        thermo_abort = ev["kind"] == "T" and bool(unknown or any(p >= len(tbl["thermostat"]) for p in range(0, 0)))
        if ev["kind"] == "T" and tavail != 0:
            st = ev["ref"]
            # the decoder looks up every position start .. start+per-1, defined or not
            first = min([p for its in st["blocks"].values() for p, _ in its], default=0)
            thermo_abort = thermo_abort or ev.get("tstart", 0) + st["per"] > len(tbl["thermostat"])
        if not sched_abort and not thermo_abort:
            for (label, name), (kind, pos, tr, extra) in last.items():
                touched.add((label, name))
                got = after.get(label, {}).get(name)
                if got is None or got[1] != pos or tuple(got[2]) != tuple(tr):
                    bad.append(("S1 value decoded from a described position is held under its name with that index",
                                dict(event=ev["desc"], device=label, name=name, position=pos, triple=list(tr), held=got), None))
                prev = origin.get((label, name))
                if prev is None or before.get(label, {}).get(name) is None or KINDS.get(before[label][name][0]) != kind:
                    origin[(label, name)] = dict(kind=kind, pos=pos, **extra)
        if ev["kind"] == "S" and not sched_abort:
            sched_bits = {}
            for i, sw, par, bits in ev["ref"]:
                sched_bits[i] = bits
        # S2: nothing else is created, overwritten or re-indexed (values of untouched names unchanged, too)
        for label in set(before) | set(after):
            for name in set(before.get(label, {})) | set(after.get(label, {})):
                if (label, name) in touched:
                    continue
                if ev["kind"] == "T" and name == "thermostat_profile" and label == "ecomax" and tavail != 0 and not thermo_abort:
                    continue
                b, a = before.get(label, {}).get(name), after.get(label, {}).get(name)
                if sched_abort and b is not None and a is not None and (b[0], b[1], b[3], b[4]) == (a[0], a[1], a[3], a[4]):
                    continue    # in-place value update of an existing schedule parameter before the unknown index
                if a != b:
                    bad.append(("S2 a position without description (or an untouched name) was created / overwritten / re-indexed",
                                dict(event=ev["desc"], device=label, name=name, before=b, after=a,
                                     unknown_positions=[it[2] for it in unknown][:5]), None))
    if not valid:
        return bad, False
    # S3: requests
    for s in sets:
        o = origin.get((s["label"], s["name"]))
        label, name, v = s["label"], s["name"], s["v"]
        is_copy = s.get("capture") in COPY_ROUTES
        if is_copy and (s["cls"].startswith("Schedule") or not s["out"].split(":")[0].endswith("Request")):
            continue    # a copy that cannot transmit (or whose request is collected from the device: schedules) says nothing about slots
        if name == "ecomax_control":
            want = f"EcomaxControlRequest:{v}"
            finding = None
        elif name == "thermostat_profile":
            want = f"SetThermostatParameterRequest:0.{v}"
            finding = None
        elif o is None:
            continue
        elif o["kind"] == "ecomax":
            want, finding = f"SetEcomaxParameterRequest:{o['pos']}.{v}", None
        elif o["kind"] == "mixer":
            want, finding = f"SetMixerParameterRequest:{o['dev']}.{o['pos']}.{v}", None
        elif o["kind"] == "thermostat":
            slot = o["pos"] + 1 + o["dev"] * o["per"]
            want = "SetThermostatParameterRequest:" + ".".join(str(x) for x in [slot] + list(v.to_bytes(s["size"], "little")))
            finding = "F3" if (o["dev"] >= 1 and o["hole"]) else ("F8" if (o["dev"] >= 1 and o.get("partial")) else None)
        elif o["kind"] == "schedule" and "sched" in s:
            idx = o["pos"] // 2
            sc = s["sched"]
            finding = None
            if sc["bits"] is None:
                continue
            bits = sc["bits"].get(idx, sc["bits"].get(str(idx)))
            if tables["schedules"][idx] != sc["prefix"] or bits is None or sc["switch"] is None or sc["parameter"] is None:
                want = "reqerror"
            else:
                want = "SetScheduleRequest:" + ".".join(str(x) for x in [1, idx, sc["switch"], sc["parameter"]] + list(bytes.fromhex(bits)))
        else:
            continue
        if s["out"] != want:
            bad.append(("S3 the set request does not address the position the value was decoded from",
                        dict(device=label, name=name, value=v, expected=want, observed=s["out"], origin=o,
                             obtained_by=s.get("capture") or "device.data at the time of the call", write_route=s.get("route")), finding))
    return bad, True


def run_cases(cases, res, tables, seed):
    impl = []
    lines = []
    for ci, (label, product, evs) in enumerate(cases):
        words, outs, snaps, sets, final, concrete = pd.run(run_history(product, evs, seed * 1000003 + ci))
        impl.append((words, outs, snaps, sets, final, concrete))
        lines.append("c07run " + ("P" if product == pd.PRODUCT_P else "I") + " " + " ".join(words))
    answers = driver_batch(lines)
    for (label, product, evs), (words, outs, snaps, sets, final, concrete), ans, line in zip(cases, impl, answers, lines):
        obs = (",".join(outs) if outs else "-") + " | " + canon_snapshot(final)
        nparams = sum(len(v) for v in final.values())
        res.case((product, tuple(words)), nontrivial=nparams > 0)
        res.count("history:" + label)
        res.count("sets", len(sets))
        for ev in concrete:
            res.count("event:" + ev["kind"])
        for s in sets:
            res.count("request:" + s["out"].split(":")[0])
            res.count("write route:" + s.get("route", "parameter.set"))
            if s.get("kept"):
                res.count("write through a kept object" + (" (stale: no longer the object in device.data)" if s.get("stale") else ""))
                res.count("write through an object obtained by:" + str(s.get("capture")))
        for ev in concrete:
            if ev["kind"] == "KEEPX":
                for _, _, cr in ev["items"]:
                    res.count("capture route:" + cr)
        inp = dict(product="P" if product == pd.PRODUCT_P else "I", events=[{k: v for k, v in ev.items() if k != "desc"} for ev in concrete],
                   label=label, model_line=line)
        bad, judged = judge(product, evs, snaps, sets, tables)
        res.count("judged:" + str(judged))
        f3_seen = set()
        for clause, detail, finding in bad:
            kw = dict(finding=finding) if finding else {}
            if finding in ("F3", "F8"):
                res.count(finding + " failures")
                key = finding.lower() + "_recorded"
                if finding in f3_seen or res.extra.get(key, 0) >= (5 if finding == "F3" else 2):
                    continue    # one recorded failure of a known finding per history, a few per run, is enough
                f3_seen.add(finding)
                res.extra[key] = res.extra.get(key, 0) + 1
            res.fail("spec", inp, "statement of C07", detail, clause, **kw)
        f3_expected = any(f == "F3" for _, _, f in bad)
        if ans != obs:
            res.fail("corr", inp, ans, obs, "dataset / request of the implementation differ from the Lean dataset model")
        if len(res.samples) < 6 and label not in [s.get("label") for s in res.samples] and sets:
            res.sample(dict(label=label, product=inp["product"], events=[ev["desc"] for ev in evs],
                            first_sets=[dict(device=s["label"], name=s["name"], value=s["v"], request=s["out"]) for s in sets[:3]]))
        if f3_expected:
            res.count("F3 inputs")


def run(ctx):
    rng = random.Random(ctx["seed"] * 15485863 + 7)
    res = Result("C07")
    res.rule = ("histories = UID(product P|I) + parameter responses built from payload bytes (ecoMAX: every position and 3 beyond the "
                "table, windows across the table end, unknown-first; mixers 0..4 x every position + 3 beyond; thermostats 0..3 with and "
                "without undefined holes, position beyond the table; schedules all/partial/duplicate/unknown index/holes; control, profile; "
                "truncated payloads; random sequences), each response followed by another (create then update), then set() on the named "
                "parameters with a different in-range value. distinct = (product, event words); non-trivial = at least one named parameter exists at the end")
    tables = pd.load_tables()
    cases = []
    for fn, ln in load_corpus("C07"):
        prod, *ws = ln.split()
        evs = []
        for wd in ws:
            k, _, rest = wd.partition(":")
            if k == "E":
                b = bytes.fromhex(rest)
                ref = None
                if len(b) >= 3 and len(b) == 3 + 3 * b[2]:
                    ref = [(b[1] + i, tuple(b[3 + 3 * i:6 + 3 * i])) for i in range(b[2]) if b[3 + 3 * i:6 + 3 * i] != b"\xff\xff\xff"]
                evs.append(dict(kind=k, payload=rest, ref=ref, desc="corpus " + wd[:20]))
            elif k in "MTS":
                evs.append(dict(kind=k, payload=rest, ref=None, desc="corpus " + wd[:20]))
            elif k == "A":
                evs.append(ev_avail(int(rest)))
            elif k == "Z":
                evs.append(ev_state(int(rest)))
        evs = [ev_uid()] + evs
        evs.append(ev_sets())
        cases.append(("corpus:" + fn, pd.PRODUCT_P if prod == "P" else pd.PRODUCT_I, evs))
    cases.extend(gen_histories(rng, ctx["tier"], tables))
    if ctx.get("max_cases"):
        cases = cases[: ctx["max_cases"]]
    run_cases(cases, res, tables, ctx["seed"])
    return res


def replay(ctx):
    f = ctx["replay"].get("failure") or ctx["replay"].get("first_difference")
    res = Result("C07")
    res.rule = "replay of one recorded history"
    inp = f["input"]
    evs = [dict(ev, desc=ev.get("desc", ev["kind"])) for ev in inp["events"]]
    for ev in evs:      # JSON turned the integer keys (mixer / thermostat numbers) of the reference decodings into strings
        ref = ev.get("ref")
        if ev["kind"] == "M" and isinstance(ref, dict):
            ev["ref"] = {int(m): [(p, tuple(tr)) for p, tr in its] for m, its in ref.items()}
        elif ev["kind"] == "T" and isinstance(ref, dict):
            ev["ref"] = dict(ref, blocks={int(t): [(p, tuple(tr)) for p, tr in its] for t, its in ref["blocks"].items()},
                             holes={int(t): h for t, h in ref["holes"].items()})
    run_cases([(inp.get("label", "replay"), pd.PRODUCT_P if inp["product"] == "P" else pd.PRODUCT_I, evs)], res,
              pd.load_tables(), ctx["seed"])
    return res

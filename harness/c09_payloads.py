"""Valid payloads (hex) per decodable frame kind, copied from the captures in the repository's
tests/testdata at the pinned commit; the harness truncates / corrupts them.  kind -> [(label, hex)]"""

PAYLOADS = {
    8: [
        ('EM350P2_regulator_data',
         '62640001075500005400006167013d9ed236010064010040000007010050f53142edd52140c851e441b3474442847e5e4220be43c30000000000000000000000000000000000000000000000000000000000000000000000000000000037000014332400'),
        ('unknown_regulator_data_version',
         '62640002'),
        ('incomplete_boolean',
         '62640001075500005400006167013d9ed23601006401004000000702'),
    ],
    53: [
        ('full_sensor_data',
         '0755f7b15420be5698fa3601003802003901003d18310000000000ff0300000900d012b34101ffffffff02ffffffff03ffffffff04ffffffff05ffffffff060000000007ffffffff08ffffffff29002d800020000000000010000000000000000001120b3a4b01ffffffff120a480102280005020300002e42000048420200000e420000000005ffffffff28000800ffffffff28000800ffffffff28000800ffffffff280008000000a04128000800'),
        ('ecoMAX860P6_O_full_sensor_data',
         '0755f7b15420be5698fa3601003802003901003d18310000000000ff0300000900d012b34101ffffffff02ffffffff03ffffffff04ffffffff05ffffffff060000000007ffffffff08ffffffff29002d800065000000000010000000000000000001120b3a4b01ffffffff120a480402280005020300002e42000048420200000e420000000005ffffffff28000800ffffffff28000800ffffffff28000800ffffffff280008000000a04128000800'),
        ('short_sensor_data_without_thermostats',
         '0755f7b15420be5698fa3601003802003901003d18310c00000000ff0300000900d012b34101ffffffff02ffffffff03ffffffff04ffffffff05ffffffff060000000007ffffffff08ffffffff29002d8000ff00ffffffffffffffffffffffffff01120b3a4b01ffffffff120a48ffff05ffffffff28000800ffffffff28000800ffffffff28000800ffffffff280008000000a04128000800'),
    ],
    176: [
        ('EN300_device_available',
         '01c0a80102ffffff00c0a8010101c0a80202ffffff00c0a802010101640100000000057465737473'),
    ],
    177: [
        ('EM350P2_parameters',
         '00008b3d3d643c293c28143bffffffffffffffffffffffffffffffffffffffffffffffffffffffffffffffffff1401fa03011e01011e05011e01000100003c3c0064ffffffffffff140a64ffffffffffffffffffffffffffffffffffffffffffffffffffffffffffffffffff1e146404011e0000640801fa3228550a0a1e1e1432ffffffffffff0a0af0ffffffffffff0f0a14ffffffffffff322896ffffffffffff02010f03010a28143cffffffffffffffffffffffff3c01fa1e1432ffffffffffffffffffffffffffffffffffffffffffffffffffffffffffffffffffffffffffffffffffffffffffffffffffffffffffffffffffffffffffffffffffffffffff7d01faffffff0201642e01fa0a0a1effffffffffffffffffffffffffffffffffffffffffffffff413250321e50503c5a321e50000063ffffffffffff05030f0000010d0128140028ffffffffffff00000105001effffff5a555f3c285affffffffffffffffff3328462814374628500200020a011e00000100000210051e0a010f030063ffffffffffffffffffffffffffffffffffffffffffffffffffffffffffff'),
    ],
    178: [
        ('1_mixer_detected',
         '00000601281e3c141e2850465a140a1e0100010d0a1e'),
        ('no_mixers_detected',
         '00000201'),
    ],
    182: [
        ('EM_heating_and_water_heater_schedule',
         '100102000005001e0000fffffffe0000fffffffe0000fffffffe0000fffffffe0000fffffffe0000fffffffe0000fffffffe010005001e0000fffffffe0000fffffffe0000fffffffe0000fffffffe0000fffffffe0000fffffffe0000fffffffe'),
        ('no_schedules_available',
         ''),
    ],
    185: [
        ('EM350P2_uid',
         '005a000b001600110d3833383655395a0000000a454d33353050322d5a46'),
        ('ecoMAX_850P2_C_uid',
         '0004000b001600110d383338365539040000000d65636f4d415838353050322d43'),
        ('ecoMAX_850i_uid',
         '0100000b001600110d383338365539000001000b65636f4d41582038353069'),
        ('ecoMAXX_800R3_uid',
         '0024000b001600110d383338365539240000000c65636f4d4158583830305233'),
        ('UNKNOWN_model_uid',
         '0000000b001600110d3833383655390000000007554e4b4e4f574e'),
    ],
    186: [
        ('EM_service_password_0000',
         '0430303030'),
        ('EM_service_password_1234',
         '0431323334'),
    ],
    189: [
        ('alerts',
         '6400021a5493382b9b94382b009c97372bffffffff'),
        ('empty_alerts',
         '000000'),
    ],
    192: [
        ('EN300_program_version',
         'ffff057a0000000001000000000056'),
    ],
    213: [
        ('EM350P2_data_schema',
         '28000400070a00060a02060a06060a05060a05000a03000a07060a08060a09060a0a060a0b060a0c060a0d060a02000a06000a0600070004070304070204070604070104071d00070404070804070704070504071900071b00071d00071d00071d00071d00040005040305040205040705040105040805040008'),
        ('empty_data_schema',
         '0000'),
        ('incomplete_boolean',
         '04000a02060a00060a0106040007'),
    ],
    220: [
        ('3_thermostats_connected',
         '000025000005000007dc0064005e01960064005e01643c8c02003c01003c01003c0a003c090032de0064005e01d40064005e015a0032002c01ffffffffffffffffffffffffffffffffffffffffffffffffffffffffffffffffffffffffffffffffffffffffffffffffffffffffffffffffffffffffffffffffffffffffffffffffffffffffffffffffffffffffffffffffffffffffffffffffffffffffffff'),
        ('no_thermostats_connected',
         '000003ffffffffffffffffffff'),
    ],
}

"""C05 (first half): regulator data schema + schema-driven regulator data vs the Lean layout model.
See c05_sensors.py for the overall scheme.  The owning device is a real EcoMAX that received the
schema through `handle_frame(RegulatorDataSchemaResponse)` under the virtual loop."""
import asyncio
import json
import random
import struct

from common import driver_batch, hexs, load_corpus, use_repo

use_repo()

from pyplumio.devices.ecomax import EcoMAX  # noqa: E402
from pyplumio.frames.messages import RegulatorDataMessage  # noqa: E402
from pyplumio.frames.responses import RegulatorDataSchemaResponse  # noqa: E402
from pyplumio.helpers.data_types import DataType  # noqa: E402
from pyplumio.structures.network_info import NetworkInfo  # noqa: E402

import c05_canon as canon  # noqa: E402
import vloop  # noqa: E402

ERR_CLASSES = (IndexError, struct.error, OSError, ValueError)
SIGNED = {1: 1, 2: 2, 3: 4, 4: 8}
UNSIGNED = {5: 1, 6: 2, 7: 4, 8: 8}
F32S = [0x7FC00000, 0xFFC00001, 0x7F800000, 0xFF800000, 0, 0x80000000, 1, 0x3F800000, 0xC2F00000]
F64S = [0x7FF8000000000000, 0xFFF0000000000001, 0x7FF0000000000000, 0xFFF0000000000000, 0, 1 << 63, 1,
        0x3FF0000000000000, 0xC05E000000000000]


def gen_sval(rng):
    t = rng.choice([0, 1, 2, 3, 4, 5, 6, 7, 8, 9, 10, 11, 11, 12, 13])
    if t == 0:
        return [0, rng.randrange(2)]
    if t in SIGNED:
        k = SIGNED[t]
        lo, hi = -(1 << (8 * k - 1)), (1 << (8 * k - 1)) - 1
        v = rng.choice([lo, hi, -1, 0, 1, rng.randint(lo, hi), max(lo, min(hi, rng.randint(-200, 200)))])
        return [t, 1 if v < 0 else 0, abs(v)]
    if t in UNSIGNED:
        k = UNSIGNED[t]
        hi = (1 << (8 * k)) - 1
        return [t, rng.choice([0, 1, hi, hi - 1, rng.randint(0, hi), rng.randint(0, 300) & hi])]
    if t == 9:
        return [9, rng.choice([rng.choice(F32S), rng.getrandbits(32), struct.unpack("<I", struct.pack("<f", rng.uniform(-100, 100)))[0]])]
    if t == 10:
        return [10, rng.choice([rng.choice(F64S), rng.getrandbits(64), struct.unpack("<Q", struct.pack("<d", rng.uniform(-100, 100)))[0]])]
    if t == 11:
        n = rng.choice([0, 1, 2, 5, 12, rng.randrange(0, 30)])
        r = rng.random()
        if r < 0.7:  # ASCII (the property's domain)
            bs = [rng.randrange(1, 128) for _ in range(n)]
        elif r < 0.9:  # well-formed multi-byte UTF-8: size is bytes, not characters
            bs = list("".join(rng.choice(["\u00e9", "\u0142", "\u20ac", "\U0001f600", "a", "Z", "0"]) for _ in range(n)).encode())
        else:  # any non-NUL bytes (decoded with errors='replace')
            bs = [rng.randrange(1, 256) for _ in range(n)]
        return [11, rng.randrange(2), len(bs)] + bs
    if t == 12:
        return [12] + [rng.choice([0, 255, 10, rng.randrange(256)]) for _ in range(4)]
    r = rng.random()
    if r < 0.3:
        bs = [rng.randrange(256) for _ in range(16)]
    elif r < 0.6:
        bs = [rng.choice([0, 0, 0, rng.randrange(256)]) for _ in range(16)]
    elif r < 0.8:
        bs = [0] * 10 + [0xFF, 0xFF] + [rng.randrange(256) for _ in range(4)]
    else:
        bs = [0] * 12 + [rng.randrange(256) for _ in range(4)]
    return [13] + bs


def gen_msg(rng, n_items=None, bits_only=False):
    ids_pool = [rng.randrange(65536) for _ in range(6)]

    def pid():
        return rng.choice(ids_pool) if rng.random() < 0.08 else rng.randrange(65536)

    m = dict(hdr=[rng.randrange(256), rng.randrange(256)])
    m["versions"] = [(rng.randrange(256), rng.randrange(65536)) for _ in range(rng.choice([0, 0, 1, 2, 3, 5]))]
    n = rng.choice([0, 1, 1, 2, 3, 4, 6, 9, 14]) if n_items is None else n_items
    items = []
    prev_bits = False
    for _ in range(n):
        if (bits_only or rng.random() < 0.45) and not prev_bits:
            k = rng.choice([1, 2, 3, 7, 8, 9, 15, 16, 17, 23, 24, 25, rng.randrange(1, 41)])
            nb = (k + 7) // 8
            items.append(("b", [pid() for _ in range(k)], [rng.choice([0, 0xFF, 0x80, 0x01, rng.randrange(256), rng.randrange(256)]) for _ in range(nb)]))
            prev_bits = True
        else:
            items.append(("s", pid(), gen_sval(rng)))
            prev_bits = False
    m["items"] = items
    return m


def flat(m):
    out = list(m["hdr"]) + [len(m["versions"])]
    for t, v in m["versions"]:
        out += [t, v]
    out.append(len(m["items"]))
    for it in m["items"]:
        if it[0] == "s":
            out += [0, it[1]] + list(it[2])
        else:
            out += [1, len(it[1])] + list(it[1]) + [len(it[2])] + list(it[2])
    return out


def shape(m):
    return tuple(("b", len(it[1])) if it[0] == "b" else ("s", it[2][0]) for it in m["items"]), len(m["versions"])


def plain(v):
    """DataType instances (schema entries) -> class name; everything else unchanged"""
    if isinstance(v, DataType):
        if getattr(v, "_value", None) not in (None, ""):  # String() starts with ""
            return "<DataType instance carrying a value>"
        return type(v).__name__
    if isinstance(v, dict):
        return {k: plain(x) for k, x in v.items()}
    if isinstance(v, (list, tuple)):
        return [plain(x) for x in v]
    return v


async def settle():
    """run the loop until every task other than the caller is finished (nothing here waits on timers)"""
    me = asyncio.current_task()
    for _ in range(100000):
        if not [t for t in asyncio.all_tasks() if t is not me and not t.done()]:
            return
        await asyncio.sleep(0)
    raise RuntimeError("regdata harness: no quiescence")


def new_device():
    return EcoMAX(asyncio.Queue(), NetworkInfo())


async def drop(dev):
    dev.cancel_tasks()
    await settle()


def attempt(fn):
    try:
        return ("ok", fn())
    except ERR_CLASSES as e:
        return ("ERR", type(e).__name__)
    except Exception as e:  # noqa: BLE001
        return ("EXC", type(e).__name__ + ": " + str(e)[:80])


def compare(res, inp, what, model_ans, got, wellformed, codec="utf-8"):
    if model_ans == "ERR":
        res.count("outcome:ERR")
        if got[0] != "ERR":
            res.fail("corr", inp, "ERR", canon.show(got[1])[:300] if got[0] == "ok" else list(got), what + ": model rejects, implementation does not")
        return
    res.count("outcome:value")
    kind = "spec" if wellformed else "corr"
    if got[0] != "ok":
        res.fail(kind, inp, model_ans[:300], list(got), what + ": implementation raises on a payload the layout defines")
        return
    diff = canon.agree(json.loads(model_ans), plain(got[1]), codec)
    if diff:
        res.fail(kind, inp, model_ans[:600], canon.show(plain(got[1]))[:600],
                 what + (": decoded data differs from the encoded values: " if wellformed else ": model and implementation differ: ") + diff)


async def device_with_schema(schema_bytes):
    """a real EcoMAX that has handled the schema response; None when the schema does not decode"""
    dev = new_device()
    sf = RegulatorDataSchemaResponse(message=bytearray(schema_bytes))
    r = attempt(lambda: dev.handle_frame(sf))
    await settle()
    return dev, sf, r


async def check_wellformed(res, inp, schema_bytes, payload, js_schema, js_with, js_without, rng):
    # 1. the schema message itself (fresh frame, no device)
    sbuf = bytearray(schema_bytes)
    got = attempt(lambda: RegulatorDataSchemaResponse(message=sbuf).data)
    compare(res, inp, "schema", js_schema, got, True)
    if bytes(sbuf) != schema_bytes:
        res.fail("spec", inp, "payload untouched", "schema payload modified", "purity: schema payload modified by decoding")
    # 2. regulator data without an owning device, and with a device that has no schema yet
    buf = bytearray(payload)
    f0 = RegulatorDataMessage(message=buf)
    compare(res, inp, "regdata/no-device", js_without, attempt(lambda: f0.data), True)
    dev0 = new_device()
    f0b = RegulatorDataMessage(message=bytearray(payload))
    compare(res, inp, "regdata/device-without-schema", js_without, attempt(lambda: (dev0.handle_frame(f0b), f0b.data)[1]), True)
    await drop(dev0)
    # 3. device that received the schema through handle_frame
    dev, sf, r = await device_with_schema(schema_bytes)
    if r[0] != "ok":
        res.fail("spec", inp, "schema handled", list(r), "device could not handle the schema response")
        await drop(dev)
        return
    buf1 = bytearray(payload)
    f1 = RegulatorDataMessage(message=buf1)
    got1 = attempt(lambda: (dev.handle_frame(f1), f1.data)[1])
    await settle()
    compare(res, inp, "regdata/device", js_with, got1, True)
    # 4. purity and independence of earlier decodes (the schema's DataType objects are shared)
    if got1[0] == "ok":
        s1 = canon.show(plain(got1[1]))
        again = attempt(lambda: f1.decode_message(f1.message))
        if again[0] != "ok" or canon.show(plain(again[1])) != s1:
            res.fail("spec", inp, s1[:300], str(again)[:300], "purity: second decode on the same object differs")
        other = bytearray(rng.randrange(256) for _ in range(len(payload)))
        other[:4] = payload[:4]
        fo = RegulatorDataMessage(message=other)
        fo.assign_to(dev)
        attempt(lambda: fo.data)
        f2 = RegulatorDataMessage(message=bytearray(payload))
        f2.assign_to(dev)
        fresh = attempt(lambda: f2.data)
        if fresh[0] != "ok" or canon.show(plain(fresh[1])) != s1:
            res.fail("spec", inp, s1[:300], str(fresh)[:300], "purity: decode on a fresh frame after another message differs")
        if bytes(buf1) != payload or bytes(f1.message) != payload or bytes(buf) != payload:
            res.fail("spec", inp, "payload untouched", "payload modified", "purity: payload modified by decoding")
    await drop(dev)


def mutate(rng, payload):
    b = bytearray(payload)
    r = rng.random()
    if r < 0.5 and b:
        return bytes(b[: rng.randrange(len(b))]), "trunc"
    if r < 0.8 and b:
        for _ in range(rng.choice([1, 1, 2, 3])):
            b[rng.randrange(len(b))] = rng.choice([0xFF, 0, rng.randrange(256), 1, 0x80])
        return bytes(b), "mutate"
    if r < 0.9:
        return bytes(b[:4]) + bytes(rng.randrange(256) for _ in range(rng.randrange(0, 60))), "random"
    return bytes(b) + bytes(rng.randrange(256) for _ in range(rng.randrange(1, 9))), "trailing"


def gen_wellformed(rng, tier):
    quick = tier == "quick"
    yield "empty", gen_msg(rng, 0)
    # every scalar type alone, after a partial bit run, and after a full byte of bits
    for t in range(14):
        for lead in (None, 3, 8, 13):
            for _ in range(1 if quick else 8):
                while True:
                    sv = gen_sval(rng)
                    if sv[0] == t:
                        break
                m = gen_msg(rng, 0)
                items = []
                if lead is not None:
                    items.append(("b", [rng.randrange(65536) for _ in range(lead)], [rng.randrange(256) for _ in range((lead + 7) // 8)]))
                items.append(("s", rng.randrange(65536), sv))
                if rng.random() < 0.5:
                    items.append(("b", [rng.randrange(65536) for _ in range(rng.randrange(1, 12))], None))
                    items[-1] = ("b", items[-1][1], [rng.randrange(256) for _ in range((len(items[-1][1]) + 7) // 8)])
                m["items"] = items
                yield "type-x-lead", m
    # bit runs of every length 1..40, with single-bit patterns
    for k in range(1, 41 if quick else 81):
        m = gen_msg(rng, 0)
        nb = (k + 7) // 8
        pos = rng.randrange(k)
        bs = [0] * nb
        bs[pos // 8] = 1 << (pos % 8)
        if rng.random() < 0.5:
            bs = [b ^ 0xFF for b in bs]
        m["items"] = [("b", list(range(100, 100 + k)), bs), ("s", 7, [6, rng.randrange(65536)])]
        yield "bit-run", m
    for _ in range(40 if quick else 2000):
        yield "bits-only", gen_msg(rng, rng.choice([1, 1]), bits_only=True)
    for _ in range(700 if quick else 40000):
        yield "random", gen_msg(rng)


def run_regdata(ctx, res):
    vloop.run(_run_regdata(ctx, res))


async def _run_regdata(ctx, res):
    rng = random.Random(ctx["seed"] * 15485863 + 11)
    tier = ctx["tier"]
    cases = []
    for fn, ln in load_corpus("C05"):
        w = ln.split()
        if w and w[0] == "regdata-flat":
            cases.append(("corpus", [int(x) for x in w[1:]], None))
    for label, m in gen_wellformed(rng, tier):
        cases.append((label, flat(m), m))
    if ctx.get("max_cases"):
        cases = cases[: ctx["max_cases"]]
    answers = driver_batch("c05r-encode " + " ".join(map(str, fl)) for _, fl, _ in cases)
    if True:
        good = []
        for (label, fl, m), ans in zip(cases, answers):
            if ans == "bad-op":
                raise RuntimeError(f"driver rejected generated regdata message ({label}): {fl[:60]}")
            sh, ph, js_schema, js_with, js_without = ans.split(" ")
            schema_bytes = b"" if sh == "-" else bytes.fromhex(sh)
            payload = bytes.fromhex(ph)
            good.append((schema_bytes, payload))
            res.count("regdata:" + label)
            res.case(("r", shape(m) if m else None, schema_bytes, payload), True)
            if m:
                for it in m["items"]:
                    res.count("regdata-item:" + ("bits" if it[0] == "b" else f"type{[0,1,2,3,13,4,5,6,14,7,9,11,15,16][it[2][0]]}"))
            inp = dict(kind="regdata", flat=fl, schema=schema_bytes.hex(), payload=payload.hex(), label=label)
            await check_wellformed(res, inp, schema_bytes, payload, js_schema, js_with, js_without, rng)
            if label in ("type-x-lead", "bit-run", "random") and not any(s.get("label") == "regdata:" + label for s in res.samples):
                res.sample(dict(label="regdata:" + label, schema=schema_bytes.hex(), payload=payload.hex(), expected=js_with[:400]), limit=12)
        # malformed regulator data against valid schemas, malformed schema messages
        mal = []
        for fn, ln in load_corpus("C05"):
            w = ln.split()
            if w and w[0] == "regdata-hex":
                mal.append(("corpus", bytes.fromhex(w[1]) if w[1] not in ("-", "none") else None, bytes.fromhex(w[2])))
        n_mal = 1200 if tier == "quick" else 50000
        for _ in range(n_mal):
            sb, p = rng.choice(good)
            q, how = mutate(rng, p)
            mal.append((how, sb if rng.random() < 0.9 else None, q))
        for sb, p in rng.sample(good, 6 if tier == "quick" else 60):
            if len(p) < 300:
                for k in range(len(p)):
                    mal.append(("trunc-all", sb, p[:k]))
        answers = driver_batch(f"c05r-decode {hexs(sb) if sb is not None else 'none'} {hexs(q)}" for _, sb, q in mal)
        devs = {}
        for (how, sb, q), ans in zip(mal, answers):
            res.case(("rm", sb, q), len(q) > 4)
            res.count("regdata-malformed:" + how)
            inp = dict(kind="regdata-hex", schema=sb.hex() if sb is not None else None, payload=q.hex(), label=how)
            f = RegulatorDataMessage(message=bytearray(q))
            if sb is not None:
                if sb not in devs:
                    if len(devs) > 200:
                        for d, _, _ in devs.values():
                            await drop(d)
                        devs.clear()
                    devs[sb] = await device_with_schema(sb)
                f.assign_to(devs[sb][0])
            got = attempt(lambda: f.data)
            compare(res, inp, "regdata", ans, got, False)
            if got[0] == "ok":
                f2 = RegulatorDataMessage(message=bytearray(q))
                if sb is not None:
                    f2.assign_to(devs[sb][0])
                g2 = attempt(lambda: f2.data)
                if g2[0] != "ok" or canon.show(plain(g2[1])) != canon.show(plain(got[1])):
                    res.fail("spec", inp, canon.show(plain(got[1]))[:300], str(g2)[:300], "purity: repeated decode differs")
        for d, _, _ in devs.values():
            await drop(d)
        smal = []
        for _ in range(300 if tier == "quick" else 10000):
            sb, _ = rng.choice(good)
            q, how = mutate(rng, sb)
            smal.append((how, q))
        answers = driver_batch("c05r-schema " + hexs(q) for _, q in smal)
        for (how, q), ans in zip(smal, answers):
            res.case(("sm", q), len(q) > 2)
            res.count("schema-malformed:" + how)
            inp = dict(kind="schema-hex", payload=q.hex(), label=how)
            compare(res, inp, "schema", ans, attempt(lambda: RegulatorDataSchemaResponse(message=bytearray(q)).data), False)


def replay_one(inp, res):
    vloop.run(_replay_one(inp, res))


async def _replay_one(inp, res):
    rng = random.Random(1)
    if True:
        if inp["kind"] == "regdata":
            ans = driver_batch(["c05r-encode " + " ".join(map(str, inp["flat"]))])[0]
            sh, ph, js_schema, js_with, js_without = ans.split(" ")
            sb = b"" if sh == "-" else bytes.fromhex(sh)
            res.case(ph)
            await check_wellformed(res, inp, sb, bytes.fromhex(ph), js_schema, js_with, js_without, rng)
        elif inp["kind"] == "regdata-hex":
            sb = bytes.fromhex(inp["schema"]) if inp["schema"] is not None else None
            q = bytes.fromhex(inp["payload"])
            ans = driver_batch([f"c05r-decode {hexs(sb) if sb is not None else 'none'} {hexs(q)}"])[0]
            f = RegulatorDataMessage(message=bytearray(q))
            if sb is not None:
                f.assign_to((await device_with_schema(sb))[0])
            res.case(q)
            compare(res, inp, "regdata", ans, attempt(lambda: f.data), False)
        else:
            q = bytes.fromhex(inp["payload"])
            ans = driver_batch(["c05r-schema " + hexs(q)])[0]
            res.case(q)
            compare(res, inp, "schema", ans, attempt(lambda: RegulatorDataSchemaResponse(message=bytearray(q)).data), False)

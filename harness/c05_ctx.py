"""C05, last sentence: "Decoding never modifies the payload and gives the same result every time" -- for EVERY decodable
frame kind, at the frame level under every decoding CONTEXT and at the DEVICE level.

Context = what the owning device contributes to a decode (Model/DecodeCtx.lean): is there a device, the thermostat count
it reports, the regulator-data schema it holds, its product type.  Props/C05Ctx.lean proves for the model
  ctx_irrelevant_*                 eight kinds decode identically under EVERY context
  thermostat_reads_only_the_count  thermostat parameters depend on (device?, count) only
  regdata_reads_only_the_schema    regulator data depends on the schema only (no device = empty schema)
  product_type_irrelevant          no decode depends on the product type
and this harness holds the implementation to exactly that: each payload is decoded by fresh frames assigned to real EcoMAX
devices in every context; results are grouped by what the theorem says the kind may read, and every group must agree.
Kinds outside the model's ten (every other class with its own `decode_message`, found by reflection) are held to
"identical under every context" on random payloads.

Device level (one frame OBJECT, real `handle_frame`): handled by a device; handled AGAIN by the same device; then by a
SECOND device in another context (the frame must then carry the decode for that device); then a fresh frame with the same
payload after the first device's data CHANGED (thermostat count, schema, product).  The payload bytes are compared before
and after every step.
"""
import asyncio
import dataclasses
import datetime
import inspect
import math
import random
import struct

from common import driver_batch, hexs, use_repo

use_repo()

from pyplumio.const import ProductType  # noqa: E402
from pyplumio.devices.ecomax import EcoMAX  # noqa: E402
from pyplumio.frames import Frame, messages, requests, responses  # noqa: E402
from pyplumio.helpers.data_types import DataType  # noqa: E402
from pyplumio.structures.network_info import NetworkInfo  # noqa: E402
from pyplumio.structures.product_info import ProductInfo  # noqa: E402

import c05_params as pp  # noqa: E402
import c05_regdata as rd  # noqa: E402
import c05_sensors as sn  # noqa: E402
import vloop  # noqa: E402

MODEL_KINDS = {
    "sensorData": messages.SensorDataMessage, "regdata": messages.RegulatorDataMessage,
    "regdataSchema": responses.RegulatorDataSchemaResponse, "ecomaxParameters": responses.EcomaxParametersResponse,
    "mixerParameters": responses.MixerParametersResponse, "thermostatParameters": responses.ThermostatParametersResponse,
    "schedules": responses.SchedulesResponse, "alerts": responses.AlertsResponse, "uid": responses.UIDResponse,
    "password": responses.PasswordResponse,
}
FAM_KIND = dict(ecomax="ecomaxParameters", mixer="mixerParameters", thermostat="thermostatParameters", schedules="schedules",
                alerts="alerts", uid="uid", password="password")


def decodable_classes():
    """every frame class of the three modules that has a `decode_message` of its own"""
    out = {}
    for mod in (requests, responses, messages):
        for name, cls in inspect.getmembers(mod, inspect.isclass):
            if issubclass(cls, Frame) and cls.__module__ == mod.__name__ and "decode_message" in cls.__dict__:
                out[name] = cls
    return out


def gc(v, depth=0):
    """canonical, order-insensitive, identity-free form of decoded data"""
    if depth > 12:
        return "<deep>"
    if isinstance(v, bool) or v is None or isinstance(v, (int, str)):
        return v if not isinstance(v, int) or isinstance(v, bool) else int(v)
    if isinstance(v, float):
        return "nan" if math.isnan(v) else struct.pack("<d", v).hex()
    if isinstance(v, (bytes, bytearray, memoryview)):
        return "b:" + bytes(v).hex()
    if isinstance(v, dict):
        return ["d"] + sorted(([repr(k), gc(x, depth + 1)] for k, x in v.items()), key=lambda kv: kv[0])
    if isinstance(v, (list, tuple)):
        return ["l"] + [gc(x, depth + 1) for x in v]
    if isinstance(v, (set, frozenset)):
        return ["s"] + sorted(repr(gc(x, depth + 1)) for x in v)
    if isinstance(v, DataType):
        return ["T", type(v).__name__, gc(getattr(v, "_value", None), depth + 1)]
    if isinstance(v, (datetime.datetime, datetime.date, datetime.time)):
        return "t:" + v.isoformat()
    if dataclasses.is_dataclass(v):
        return ["o", type(v).__name__] + [[f.name, gc(getattr(v, f.name, None), depth + 1)] for f in dataclasses.fields(v)]
    r = repr(v)
    return ["r", type(v).__name__, r if " at 0x" not in r else ""]


def outcome(fn):
    try:
        return gc(fn())
    except Exception as e:  # noqa: BLE001 -- an undecodable payload: the class of the error is the result
        return "E:" + type(e).__name__


# ------------------------------------------------------------------ contexts
def schema_of(schema_bytes):
    return responses.RegulatorDataSchemaResponse(message=bytearray(schema_bytes)).data.get("regdata_schema", [])


def contexts(schemas):
    """-> [(name, (device?, T or None, schema index or None, product or None))]"""
    out = [("no-device", (False, None, None, None)), ("fresh-device", (True, None, None, None))]
    for t in (0, 1, 3):
        out.append((f"T={t}", (True, t, None, None)))
    for i in range(len(schemas)):
        out.append((f"schema#{i}", (True, None, i, None)))
    out.append(("T=3,schema#0,product=P", (True, 3, 0 if schemas else None, 0)))
    out.append(("T=1,product=I", (True, 1, None, 1)))
    out.append(("product=P", (True, None, None, 0)))
    return out


def make_device(spec, schemas):
    has, t, si, prod = spec
    if not has:
        return None
    dev = EcoMAX(asyncio.Queue(), NetworkInfo())
    if t is not None:
        dev.data["thermostats_available"] = t
    if si is not None:
        dev.data["regdata_schema"] = schema_of(schemas[si])
    if prod is not None:
        dev.data["product"] = ProductInfo(type=ProductType(prod), id=1, uid="UID", logo=1, image=1, model="EM 350P2-ZF")
    return dev


def group_key(kind, spec, schemas):
    """what the theorems allow the decode of `kind` to depend on"""
    has, t, si, prod = spec
    if kind == "thermostatParameters":
        return ("count", (t or 0) if has else None)
    if kind == "regdata":
        sch = schemas[si] if (has and si is not None) else None
        return ("schema", bytes(sch).hex() if sch is not None and schema_of(sch) else None)
    return ("any",)


# ------------------------------------------------------------------ payload pools
def pools(rng, tier):
    quick = tier == "quick"
    per = 24 if quick else 120
    pool = {k: [] for k in MODEL_KINDS}
    # parameter blocks, schedules, alerts, uid, password: the generators of c05_params (encoded by the Lean driver)
    streams = pp.build_streams(random.Random(rng.random()), "quick", list(pp.GENS))
    rng.shuffle(streams)
    for s in streams:
        k = FAM_KIND[s["fam"]]
        wf = "expect" in s
        have = pool[k]
        if sum(1 for x in have if x[1] == wf) < (per if wf else per // 3):
            have.append((bytes(s["payload"]), wf))
    # sensor data
    msgs = [m for _, m in sn.gen_wellformed(random.Random(rng.random()), "quick")]
    rng.shuffle(msgs)
    msgs = msgs[:per]
    for m, ans in zip(msgs, driver_batch("c05s-encode " + " ".join(map(str, sn.flat(m))) for m in msgs)):
        if ans != "bad-op":
            hx = ans.split(" ", 1)[0]
            pool["sensorData"].append((b"" if hx == "-" else bytes.fromhex(hx), True))
    # regulator data and schemas
    rmsgs = [m for _, m in rd.gen_wellformed(random.Random(rng.random()), "quick") if m["items"]]
    rng.shuffle(rmsgs)
    rmsgs = rmsgs[:per]
    schemas = []
    for m, ans in zip(rmsgs, driver_batch("c05r-encode " + " ".join(map(str, rd.flat(m))) for m in rmsgs)):
        if ans == "bad-op":
            continue
        w = ans.split(" ")
        sb, db = bytes.fromhex(w[0]), bytes.fromhex(w[1])
        pool["regdataSchema"].append((sb, True))
        pool["regdata"].append((db, True, len(schemas)))
        schemas.append(sb)
    # noise for every kind
    for k in pool:
        for _ in range(per // 3):
            n = rng.choice([0, 1, 2, 3, 5, 8, rng.randrange(40)])
            pool[k].append((bytes(rng.choice([0, 1, 255, rng.randrange(256)]) for _ in range(n)), False))
    return pool, schemas


# ------------------------------------------------------------------ frame level
def frame_level(res, rng, tier):
    pool, schemas = pools(rng, tier)
    classes = dict(MODEL_KINDS)
    for name, cls in decodable_classes().items():
        if cls not in classes.values():
            classes["other:" + name] = cls
            pool["other:" + name] = [(bytes(rng.choice([0, 1, 2, 255, rng.randrange(256)]) for _ in range(rng.choice([0, 1, 2, 4, 9, 20, 60]))), False)
                                     for _ in range(16 if tier == "quick" else 100)]
    res.extra["decodable_kinds"] = sorted(classes)
    for kind, cls in classes.items():
        for item in pool[kind]:
            payload, wf = item[0], item[1]
            own = item[2] if len(item) > 2 else None
            sch = [schemas[own], schemas[(own + 1) % len(schemas)]] if own is not None else schemas[:2]
            groups = {}
            for cname, spec in contexts(sch):
                dev = make_device(spec, sch)
                buf = bytearray(payload)
                frame = cls(message=buf)
                if dev is not None:
                    frame.assign_to(dev)
                first = outcome(lambda: frame.data)
                second = outcome(lambda: frame.decode_message(frame.message))
                third = outcome(lambda: frame.data)
                inp = dict(kind="ctx", frame=cls.__name__, payload=payload.hex(), context=cname, wellformed=wf,
                           schemas=[s.hex() for s in sch])
                if not (first == second == third):
                    res.fail("spec", inp, "the same result every time", dict(first=first, again=second, cached=third),
                             "purity: decoding the same payload again on the same frame / device gives a different result")
                if bytes(buf) != payload or bytes(frame.message) != payload:
                    res.fail("spec", inp, payload.hex(), bytes(buf).hex(), "purity: decoding modified the payload")
                key = group_key(kind, spec, sch) if kind in MODEL_KINDS else ("any",)
                groups.setdefault(key, []).append((cname, first))
                res.count("ctx:decodes")
            for key, obs in groups.items():
                if any(o[1] != obs[0][1] for o in obs):
                    a = obs[0]
                    b = next(o for o in obs if o[1] != a[1])
                    res.fail("spec", dict(kind="ctx", frame=cls.__name__, payload=payload.hex(), wellformed=wf, schemas=[s.hex() for s in sch],
                                          contexts=[a[0], b[0]]),
                             f"one result under every context that agrees on {key[0]}" if key[0] != "any" else "one result under EVERY context",
                             {a[0]: a[1], b[0]: b[1]},
                             f"{cls.__name__}: the decode of one payload depends on the owning device beyond what the kind may read "
                             "(C05.ctx_irrelevant / thermostat_reads_only_the_count / regdata_reads_only_the_schema / product_type_irrelevant)")
            res.case(("ctx", kind, payload), len(payload) > 3)
            res.count("ctx:" + kind + (":wf" if wf else ":other"))
    return pool, schemas, classes


# ------------------------------------------------------------------ device level
async def _handle(dev, frame):
    try:
        dev.handle_frame(frame)
        r = "handled"
    except Exception as e:  # noqa: BLE001
        r = "E:" + type(e).__name__
    await _settle()
    return r


async def _settle():
    """run the loop while tasks make progress; tasks that wait for data that never comes (a parameter handler waiting for the
    product, ...) stay suspended and are cancelled at the end"""
    for _ in range(60):
        await asyncio.sleep(0)


async def _drop(devs):
    for d in devs:
        if d is None:
            continue
        d.cancel_tasks()
        for key in ("mixers", "thermostats"):
            subs = d.data.get(key)
            if isinstance(subs, dict):
                for s in subs.values():
                    s.cancel_tasks()
    for _ in range(5):
        await asyncio.sleep(0)


async def _device_level(res, rng, tier, pool, schemas, classes):
    per = 10 if tier == "quick" else 60
    for kind, cls in classes.items():
        items = list(pool[kind])
        rng.shuffle(items)
        for item in sorted(items[:per * 2], key=lambda it: not it[1])[:per]:
            payload, wf = item[0], item[1]
            own = item[2] if len(item) > 2 else None
            sch = [schemas[own], schemas[(own + 1) % len(schemas)]] if own is not None else schemas[:2]
            ctxs = [c for c in contexts(sch) if c[1][0]]
            (na, sa), (nb, sb), (nc, sc) = rng.sample(ctxs, 3)
            inp = dict(kind="ctx-device", frame=cls.__name__, payload=payload.hex(), wellformed=wf, schemas=[s.hex() for s in sch],
                       first_device=na, second_device=nb, first_device_changed_to=nc)

            def fresh(spec):
                f = cls(message=bytearray(payload))
                f.assign_to(make_device(spec, sch))
                return outcome(lambda: f.data)

            exp_a, exp_b, exp_c = fresh(sa), fresh(sb), fresh(sc)
            dev_a, dev_b = make_device(sa, sch), make_device(sb, sch)
            buf = bytearray(payload)
            frame = cls(message=buf)
            h1 = await _handle(dev_a, frame)
            d1 = outcome(lambda: frame.data)
            h2 = await _handle(dev_a, frame)
            d2 = outcome(lambda: frame.data)
            d2b = outcome(lambda: frame.decode_message(frame.message))
            if d1 != exp_a:
                res.fail("spec", inp, exp_a, d1, "device level: the frame handled by a device does not carry the decode of its payload for that device")
            if not (d1 == d2 == d2b) or h1 != h2:
                res.fail("spec", inp, "the same result every time", dict(first=[h1, d1], second=[h2, d2], decoded_again=d2b),
                         "device level: the same frame object handled twice by one device decodes differently the second time")
            h3 = await _handle(dev_b, frame)
            d3 = outcome(lambda: frame.data)
            if d3 != exp_b:
                res.fail("spec", inp, exp_b, d3, "device level: a frame handled by a second device does not carry the decode of its payload for THAT device")
            if bytes(buf) != payload or bytes(frame.message) != payload:
                res.fail("spec", inp, payload.hex(), bytes(buf).hex(), "device level: handling modified the payload")
            # the first device's data changes (as later frames would change it); a fresh frame with the same payload
            has, t, si, prod = sc
            for k, v in (("thermostats_available", t), ("regdata_schema", schema_of(sch[si]) if si is not None else None),
                         ("product", ProductInfo(type=ProductType(prod), id=1, uid="UID", logo=1, image=1, model="EM 350P2-ZF") if prod is not None else None)):
                if v is None:
                    dev_a.data.pop(k, None)
                else:
                    dev_a.data[k] = v
            f2 = cls(message=bytearray(payload))
            await _handle(dev_a, f2)
            d4 = outcome(lambda: f2.data)
            if d4 != exp_c:
                res.fail("spec", inp, exp_c, d4, "device level: after the device's data changed (thermostat count / schema / product) a fresh frame with the same "
                         "payload does not decode as it does for a device in that state")
            await _drop([dev_a, dev_b])
            res.case(("ctx-device", kind, payload, na, nb, nc), True)
            res.count("ctx-device:" + kind)


def run_ctx(ctx, res):
    rng = random.Random(ctx["seed"] * 49979687 + 55)
    pool, schemas, classes = frame_level(res, rng, ctx["tier"])
    vloop.run(_device_level(res, rng, ctx["tier"], pool, schemas, classes))


def replay_one(inp, res):
    """one recorded (frame class, payload, schemas): all contexts again, and the device-level steps for every ordered pair"""
    name = inp["frame"]
    classes = dict(MODEL_KINDS)
    for n, c in decodable_classes().items():
        if c not in classes.values():
            classes["other:" + n] = c
    kind, cls = next((k, c) for k, c in classes.items() if c.__name__ == name)
    payload = bytes.fromhex(inp["payload"])
    sch = [bytes.fromhex(s) for s in inp.get("schemas", [])]
    item = (payload, bool(inp.get("wellformed")))
    pool = {k: [] for k in classes}
    pool[kind] = [item]
    seen = {}
    for cname, spec in contexts(sch):
        f = cls(message=bytearray(payload))
        dev = make_device(spec, sch)
        if dev is not None:
            f.assign_to(dev)
        seen[cname] = outcome(lambda: f.data)
    res.sample(dict(frame=name, payload=inp["payload"], by_context=seen))
    groups = {}
    for cname, spec in contexts(sch):
        groups.setdefault(group_key(kind, spec, sch) if kind in MODEL_KINDS else ("any",), []).append((cname, seen[cname]))
    for key, obs in groups.items():
        if any(o[1] != obs[0][1] for o in obs):
            res.fail("spec", inp, "one result per admissible context class", {o[0]: o[1] for o in obs}, f"{name}: decode depends on the device beyond {key[0]}")
    res.case(("ctx", kind, payload))
    for seed in range(6):
        vloop.run(_device_level(res, random.Random(seed), "quick", pool, sch, {kind: cls}))

"""C13 correspondence (trace inclusion): a real EventManager driven through histories of
subscribe / subscribe_once / unsubscribe / dispatch / dispatch_nowait / get / wait_for on <= 3 names,
with callbacks that suspend on harness-controlled futures, under vloop.VirtualLoop.  The harness
chooses the schedule (which suspended callback resumes, when the loop runs, when the clock moves);
the Lean driver (`c13`) replays that schedule on the interleaving machine, must ACCEPT it, and must
produce the same observables: callback invocation log, EventManager.data after every loop run,
state of every dispatch task, results and virtual completion times of get()/wait_for().

History text (also corpus / replay format):   S<scripts> <op>*
    scripts : <cb>:<susp>:<k|a<c>>,...   callback function cb suspends <susp> times, returns None (k) or value+c
    op      : sub:<n>:<cb>[~] once:<n>:<cb>[~] unsub:<n>:<cb> unsubo:<n>:<sid> disp:<n>:<v>[!] get:<n>:<ticks|->[!]
              load:<n>=<v>,<n>=<v>..[!] rel:<i> settle adv:<t>
    `!` marks the other API flavour (disp!: a task awaiting dispatch() instead of dispatch_nowait;
    get!: wait_for instead of get; load!: a task awaiting load() instead of load_nowait).  A load is one dispatch per entry, in
    dict order (always followed by `settle`): for the machine it is that many `disp` ops, and the op counter counts it so; `~`: the callback is subscribed behind a pass-everything filter (throttle /
    debounce with threshold 0, chains of the two, custom with a constant-true predicate); `unsub:<n>:<cb>^`: unsubscribe by a NEW filter object around the raw callback.  Callback functions with an odd id are BOUND METHODS (a new object per attribute
    access); unsubscribe always passes the raw callback.  One tick = 0.5 s of virtual time.

Subscribers registered THROUGH filter factories (two further sections, case texts `fr ...` / `chain ...`):
    fr <filter> <ret> <call>*            one filter object (any factory, chains of two) around a scripted callback: what every
                                         call RETURNS to its caller, vs `c13fr` (Filter.stepR) and vs the statement (a delivering
                                         call returns what the wrapped callback returned, any other call None)
    chain <f>/<ret>+<f>/<ret>... <call>* a real EventManager with these subscribers on one name, sequential dispatches (t@value),
                                         a get() after each: awaited values, stored value, vs `c13chain` (dispatchChain) and the
                                         statement (each callback's non-None result replaces the value for the next one)
    filter / call / value syntax as in harness/c20.py; ret: k | a<sixteenths> | c<value> (falsy replacements 0, 0.0, False, '', [])
"""
import asyncio
from asyncio import events as aio_events
import itertools
import random
import re
import time

from common import Result, driver_batch, load_corpus, use_repo
import vloop

use_repo()
from pyplumio import filters  # noqa: E402
from pyplumio.helpers.event_manager import EventManager  # noqa: E402

import c20 as F  # noqa: E402  (value / filter text <-> python objects, patched clock)

TICK = 0.5


# The model's values are naturals; on the implementation side every value is shifted by a constant
# (python value = model value - SHIFT), so that some dispatched / returned values are FALSY but not
# None (0): "a None return keeps the value" must not be confused with "a falsy return keeps it".
# Callbacks add constants, so the shift commutes with everything the callbacks do.
SHIFT = 11


def _up(v):
    if isinstance(v, float) and v == int(v):
        v = int(v)                       # an aggregate filter hands on 0.0 + v
    return None if v is None else v + SHIFT


class DoneStub:
    """stands for a dispatch that was carried out without a task (nothing of the kind exists in the unchanged code)"""

    def done(self):
        return True

    def cancelled(self):
        return False

    def exception(self):
        return None

    def cancel(self):
        return False


class Impl:
    """one history on the real EventManager"""

    def __init__(self, loop, scripts):
        self.loop = loop
        self.t_base = loop.time()
        self.em = EventManager()
        self.scripts = scripts           # cb -> (susp, ret) ; ret None or int
        self.fns = {}
        self.once = {}                   # sid -> wrapper returned by subscribe_once
        self.next_sid = 0
        self.dtasks = []                 # asyncio tasks of dispatches, by index
        self.task_index = {}
        self.pending = {}                # dispatch index -> (future, cb)
        self.log = []                    # (dispatch index, cb, value)
        self.waiters = []                # dicts
        self.snaps = []
        self.snap_info = []              # structured copies of the snapshots (for the statement-level checks)
        self.dinfo = []                  # per dispatch: name, init value, op index of the spawn
        self.op_index = -1
        self.anomalies = []
        self.other_tasks = []
        self.spawn_op = None             # op index for the next dispatch task(s) created
        loop.set_task_factory(self.task_factory)

    def task_factory(self, loop, coro, **kw):
        t = asyncio.Task(coro, loop=loop, **kw)
        code = getattr(coro, "cr_code", None)
        if code is not None and code.co_name == "dispatch" and coro.cr_frame is not None and coro.cr_frame.f_locals.get("self") is self.em:
            loc = coro.cr_frame.f_locals
            self.task_index[t] = len(self.dtasks)
            self.dtasks.append(t)
            self.dinfo.append(dict(name=loc["name"], init=loc["value"] + SHIFT, op=self.spawn_op))
            self.spawn_op += 1
        return t

    def ticks(self):
        return (self.loop.time() - self.t_base) / TICK

    def fn(self, cb):
        if cb not in self.fns:
            susp, ret = self.scripts.get(cb, (0, None))

            async def f(v, cb=cb, susp=susp, ret=ret):
                i = self.task_index.get(asyncio.current_task(), -1)
                self.log.append((i, cb, _up(v)))
                for _ in range(susp):
                    fut = self.loop.create_future()
                    self.pending[i] = (fut, cb)
                    await fut
                return None if ret is None else v + ret

            if cb % 2:
                # odd ids: a bound method -- every attribute access yields a new (equal) callback object
                class Holder:
                    async def call(inner, v):
                        return await f(v)

                self.fns[cb] = Holder()
            else:
                self.fns[cb] = f
        h = self.fns[cb]
        return h.call if cb % 2 else h

    def wrapped(self, arg):
        """the callback as it is subscribed: `<cb>` as it is, `<cb>~` behind a filter that lets every value
        through (throttle / debounce with a zero threshold) -- for the event manager still the same callback"""
        if arg.endswith("~"):
            cb = int(arg[:-1])
            # (aggregate(cb, 0) is NOT among them: while its callback is suspended a second call adds to the same sum)
            k = self.next_sid % 5
            if k == 4:
                return filters.custom(self.fn(cb), lambda v: True)
            if k == 0:
                return filters.debounce(self.fn(cb), 0)
            if k == 1:
                return filters.throttle(self.fn(cb), 0)
            if k == 2:
                return filters.throttle(filters.debounce(self.fn(cb), 0), 0)
            return filters.debounce(filters.throttle(self.fn(cb), 0), 0)
        return self.fn(int(arg))

    def op(self, text):
        self.op_index += 1
        w = text.split(":")
        k = w[0]
        name = "n" + w[1] if len(w) > 1 and k not in ("rel", "adv", "load") else None
        if k == "sub":
            self.em.subscribe(name, self.wrapped(w[2]))
            self.next_sid += 1
        elif k == "once":
            self.once[self.next_sid] = self.em.subscribe_once(name, self.wrapped(w[2]))
            self.next_sid += 1
        elif k == "unsub":
            # by the RAW callback (for a bound method: a fresh, equal but not identical, object), or (`^`) by a NEW filter object
            # around it: Filter.__eq__ makes it equal to the raw callback and to every filter around that callback
            if w[2].endswith("^"):
                raw = self.fn(int(w[2][:-1]))
                self.em.unsubscribe(name, filters.on_change(raw) if self.op_index % 2 else filters.custom(filters.delta(raw), bool))
            else:
                self.em.unsubscribe(name, self.fn(int(w[2])))
        elif k == "unsubo":
            sid = int(w[2])
            if sid in self.once:
                self.em.unsubscribe(name, self.once[sid])
        elif k == "disp":
            other = w[2].endswith("!")
            v = int(w[2].rstrip("!"))
            self.spawn_op = self.op_index
            n_before = len(self.dtasks)
            if other:
                self.loop.create_task(self.em.dispatch(name, v - SHIFT))
            else:
                self.em.dispatch_nowait(name, v - SHIFT)
            if len(self.dtasks) == n_before:
                # no dispatch task appeared: the call did its work synchronously
                self.dtasks.append(DoneStub())
                self.dinfo.append(dict(name=name, init=v, op=self.op_index, no_task=True))
        elif k == "load":
            other = text.endswith("!")
            entries = [e.split("=") for e in text.rstrip("!").split(":", 1)[1].split(",")]
            data = {"n" + a: int(b) - SHIFT for a, b in entries}
            assert len(data) == len(entries)
            self.spawn_op = self.op_index
            self.op_index += len(entries) - 1        # counted as one `disp` op per entry
            if other:
                self.other_tasks.append(self.loop.create_task(self.em.load(data)))
            else:
                self.em.load_nowait(data)
        elif k == "get":
            other = w[2].endswith("!")
            tt = w[2].rstrip("!")
            timeout = None if tt == "-" else int(tt) * TICK
            rec = dict(state="c", name=name, timeout=None if tt == "-" else int(tt))
            self.waiters.append(rec)

            async def waiter(rec=rec, name=name, timeout=timeout, other=other):
                rec["t0"] = self.ticks()
                rec["had_value"] = name in self.em.data
                try:
                    if other:
                        await self.em.wait_for(name, timeout)
                        v = self.em.data.get(name)
                    else:
                        v = await self.em.get(name, timeout)
                    rec.update(state="r", v=_up(v), at=self.ticks())
                except asyncio.TimeoutError:
                    rec.update(state="x", at=self.ticks())

            rec["task"] = self.loop.create_task(waiter())
        elif k == "rel":
            fut, _ = self.pending.pop(int(w[1]))
            fut.set_result(None)
        elif k == "settle":
            self.loop.settle()
            self.snap()
        elif k == "adv":
            self.loop.settle(until=self.t_base + int(w[1]) * TICK)
            self.snap()
        else:
            raise ValueError(text)

    def wstate(self, r):
        if r["state"] == "r":
            return f"r{r['v']}@{fmt_t(r['at'])}"
        if r["state"] == "x":
            return f"x@{fmt_t(r['at'])}"
        if "t0" not in r:
            return "n"
        return "w" + ("-" if r["timeout"] is None else fmt_t(r["t0"] + r["timeout"]))

    def snap(self):
        # the non-waiting getters: get_nowait (with / without default) and attribute access read the stored value
        missing = object()
        for n in range(3):
            name = f"n{n}"
            have = self.em.data.get(name, missing)
            a, b = self.em.get_nowait(name, missing), getattr(self.em, name, missing)
            c = self.em.get_nowait(name)
            if a is not have or b is not have or c is not (None if have is missing else have):
                self.anomalies.append(f"get_nowait / attribute access of {name} do not return the stored value")
        data = []
        for n in range(3):
            v = _up(self.em.data.get(f"n{n}"))
            data.append("-" if v is None else str(v))
        ts = []
        for i, t in enumerate(self.dtasks):
            if t.done():
                if t.exception() is not None:
                    self.anomalies.append(f"dispatch task {i} raised {type(t.exception()).__name__}")
                ts.append("d")
            elif i in self.pending:
                ts.append(f"s{self.pending[i][1]}")
            else:
                ts.append("c")
        ws = [self.wstate(r) for r in self.waiters]
        self.snaps.append("/".join([str(self.op_index), fmt_t(self.ticks()), ",".join(data), ",".join(ts) or "-", ",".join(ws) or "-"]))
        self.snap_info.append(dict(op=self.op_index, now=self.ticks(), data={k: _up(x) for k, x in self.em.data.items()},
                                   done=[t.done() for t in self.dtasks],
                                   waiting=[r["state"] == "c" for r in self.waiters]))

    def wmeta(self):
        out = []
        for r in self.waiters:
            if "t0" not in r:
                out.append("0:0:0:n")
            else:
                out.append(f"1:{fmt_t(r['t0'])}:{1 if r.get('had_value') else 0}:{self.wstate(r)}")
        return ",".join(out) or "-"

    def obs_text(self):
        """the observation in the line-protocol format of `c13judge`"""
        log = ",".join(f"{t}.{cb}.{v}" for t, cb, v in self.log) or "-"
        return f"{log} | {';'.join(self.snaps) or '-'} | {self.wmeta()}"

    def close(self):
        for fut, _ in self.pending.values():
            fut.cancel()
        for t in self.dtasks + [r["task"] for r in self.waiters] + self.other_tasks:
            t.cancel()
        self.loop.settle()
        for t in self.dtasks + [r["task"] for r in self.waiters] + self.other_tasks:
            if t.done() and not t.cancelled():
                t.exception()
        self.loop.set_task_factory(None)


def fmt_t(x):
    return str(int(x)) if x == int(x) else repr(x)


def scripts_text(scripts):
    if not scripts:
        return "S-"
    return "S" + ",".join(f"{c}:{s}:{'k' if r is None else 'a%d' % r}" for c, (s, r) in sorted(scripts.items()))


def parse_scripts(text):
    out = {}
    if text != "S-":
        for it in text[1:].split(","):
            c, s, r = it.split(":")
            out[int(c)] = (int(s), None if r == "k" else int(r[1:]))
    return out


def expand(ops):
    """a load is one dispatch op per entry"""
    out = []
    for o in ops:
        if o.startswith("load:"):
            out.extend("disp:%s:%s" % tuple(e.split("=")) for e in o.rstrip("!").split(":", 1)[1].split(","))
        else:
            out.append(o)
    return out


def lean_ops(ops):
    return [re.sub(r"[!~^]$", "", o) for o in expand(ops)]


def strip_model(ans):
    """model answer -> (verdict, log, snapshots, waiter meta)"""
    m = re.match(r"(\S+) LOG (\S+) SNAPS ?(\S*) W (\S+)$", ans)
    verdict, log, snaps, wm = m.group(1), m.group(2), m.group(3), m.group(4)
    entries = [] if log == "-" else [tuple(int(x) for x in e.split(".")) for e in log.split(",")]
    return verdict, entries, (snaps.split(";") if snaps else []), wm


# ---------------------------------------------------------------- history generation (online)
def gen_scripts(rng):
    scripts = {}
    for cb in range(6):
        scripts[cb] = (rng.choice([0, 0, 1, 1, 2]), rng.choice([None, None, 1, 10, 100]))
    for cb in range(100, 112):
        scripts[cb] = (rng.choice([0, 1, 2]), rng.choice([None, 1000, 5]))
    return scripts


def run_random(loop, rng, n_ops, names=3):
    scripts = gen_scripts(rng)
    im = Impl(loop, scripts)
    ops = []
    now = 0
    once_next = 100
    dirty = False

    def do(o):
        nonlocal dirty
        ops.append(o)
        im.op(o)
        dirty = o not in ("settle",) and not o.startswith("adv")

    for _ in range(n_ops):
        r = rng.random()
        n = rng.randrange(names) if rng.random() < 0.3 else 0
        if r < 0.14:
            do(f"sub:{n}:{rng.randrange(6)}{'~' if rng.random() < 0.35 else ''}")
        elif r < 0.26 and once_next < 112:
            cb = once_next if rng.random() < 0.8 else rng.randrange(6)
            once_next += cb == once_next
            do(f"once:{n}:{cb}{'~' if rng.random() < 0.2 else ''}")
        elif r < 0.33:
            do(f"unsub:{n}:{rng.randrange(6)}{'^' if rng.random() < 0.3 else ''}")
        elif r < 0.39 and im.once:
            do(f"unsubo:{n}:{rng.choice(sorted(im.once))}")
        elif r < 0.53:
            do(f"disp:{n}:{rng.randrange(1, 8)}{'!' if rng.random() < 0.4 else ''}")
        elif r < 0.57:
            if dirty:
                do("settle")
            ns = rng.sample(range(names), rng.randint(1, names))
            do("load:" + ",".join(f"{a}={rng.randrange(1, 8)}" for a in ns) + ("!" if rng.random() < 0.5 else ""))
            do("settle")
            continue
        elif r < 0.67:
            to = rng.choice(["-", "0", "0", "1", "3", "3", "5", "9"])
            do(f"get:{n}:{to}{'!' if rng.random() < 0.4 else ''}")
        elif r < 0.9 and im.pending:
            do(f"rel:{rng.choice(sorted(im.pending))}")
        elif r < 0.96:
            if dirty:
                do("settle")
            now += rng.choice([2, 2, 4, 10])
            do(f"adv:{now}")
            continue
        if rng.random() < 0.75 and dirty:
            do("settle")
    if dirty:
        do("settle")
    # let everything finish: release what is suspended, then let the remaining deadlines pass
    for _ in range(40):
        if not im.pending:
            break
        do(f"rel:{sorted(im.pending)[0]}")
        do("settle")
    now += 20
    do(f"adv:{now}")
    return scripts, ops, im


ALPHABET = ["sub:0:0", "once:0:1", "once:0:0", "unsub:0:0", "unsubo:0:*", "disp:0:1", "disp:0:2", "get:0:3", "rel:first", "rel:last"]


def run_enumerated(loop, word):
    scripts = {0: (1, 1), 1: (0, 10)}
    im = Impl(loop, scripts)
    ops = []

    def do(o):
        ops.append(o)
        im.op(o)

    for sym in word:
        if sym == "unsubo:0:*":
            if not im.once:
                return None
            do(f"unsubo:0:{sorted(im.once)[-1]}")
        elif sym.startswith("rel:"):
            if not im.pending:
                return None
            do(f"rel:{sorted(im.pending)[0 if sym == 'rel:first' else -1]}")
        else:
            do(sym)
        do("settle")
    do("adv:10")
    return scripts, ops, im


def replay_history(loop, scripts, ops):
    im = Impl(loop, scripts)
    for o in ops:
        im.op(o)
    return im


# ---------------------------------------------------------------- property-level checks on the implementation
def spec_checks(scripts, ops, im):
    """predicates of the statement that can be read off the implementation's observation alone"""
    ops = [o.rstrip("~^") for o in expand(ops)]
    bad = []
    n_once, n_plain = {}, {}
    for o in ops:
        w = o.split(":")
        if w[0] == "once":
            n_once[int(w[2])] = n_once.get(int(w[2]), 0) + 1
        if w[0] == "sub":
            n_plain[int(w[2])] = n_plain.get(int(w[2]), 0) + 1
    counts = {}
    for _, cb, _ in im.log:
        counts[cb] = counts.get(cb, 0) + 1
    for cb, k in n_once.items():
        if cb not in n_plain and counts.get(cb, 0) > k:
            bad.append(f"callback {cb} registered with subscribe_once {k}x was awaited {counts[cb]}x")
    # an unsubscribed callback is awaited by no dispatch that starts later (callbacks subscribed plainly once)
    spawned_at, unsub_at, k_disp = {}, {}, 0
    for idx, o in enumerate(ops):
        w = o.split(":")
        if w[0] == "disp":
            spawned_at[k_disp] = idx
            k_disp += 1
        if w[0] == "unsub" and n_plain.get(int(w[2]), 0) == 1 and int(w[2]) not in n_once:
            sub_idx, sub_name = [(i, x.split(":")[1]) for i, x in enumerate(ops) if x.split(":")[0] == "sub" and int(x.split(":")[2]) == int(w[2])][0]
            if sub_idx < idx and sub_name == w[1]:
                unsub_at.setdefault(int(w[2]), idx)
    for t, cb, _ in im.log:
        if cb in unsub_at and spawned_at.get(t, -1) > unsub_at[cb]:
            bad.append(f"callback {cb} unsubscribed at op {unsub_at[cb]} was awaited by dispatch {t} spawned at op {spawned_at[t]}")
    # value threading and the stored value: each awaited callback gets the value produced by those before it
    finals = {}
    for i, info in enumerate(im.dinfo):
        v = info["init"]
        for t, cb, got in im.log:
            if t != i:
                continue
            if got != v:
                bad.append(f"dispatch {i}: callback {cb} was awaited with {got}, the value after the previous callbacks is {v}")
                break
            ret = scripts.get(cb, (0, None))[1]
            v = v if ret is None else v + ret
        finals[i] = v
    prev_data, prev_done = {}, [False] * len(im.dinfo)
    for sn in im.snap_info:
        newly = [i for i, dn in enumerate(sn["done"]) if dn and not (prev_done[i] if i < len(prev_done) else False)]
        for name, val in sn["data"].items():
            if prev_data.get(name, None) != val or name not in prev_data:
                cands = [i for i in newly if im.dinfo[i]["name"] == name]
                if not cands:
                    bad.append(f"data[{name}] became {val} in a loop run in which no dispatch of {name} finished")
                elif val not in [finals[i] for i in cands]:
                    bad.append(f"data[{name}] = {val} is not the final value {[finals[i] for i in cands]} of a dispatch that finished")
        # dispatches of one name that never suspend are atomic and run in the order they were issued: when several of them
        # finish in one loop run (and nothing else of that name does) the stored value is the outcome of the LAST one issued
        for name in {im.dinfo[i]["name"] for i in newly}:
            cands = [i for i in newly if im.dinfo[i]["name"] == name]
            never_susp = all(scripts.get(cb, (0, None))[0] == 0 for t, cb, _ in im.log if t in cands)
            if len(cands) >= 2 and never_susp and sn["data"].get(name) != finals[max(cands)]:
                bad.append(f"dispatches {cands} of {name} never suspend and were issued in this order, yet after the loop run data[{name}] = "
                           f"{sn['data'].get(name)} and not the outcome {finals[max(cands)]} of the last one: the stored value went back in time")
        for i in newly:
            name = im.dinfo[i]["name"]
            others = [k for k in newly if k != i and im.dinfo[k]["name"] == name]
            if not others and sn["data"].get(name) != finals[i]:
                bad.append(f"dispatch {i} finished with {finals[i]} but data[{name}] = {sn['data'].get(name)}")
        # every waiter of a name that has a value has been woken by the end of the loop run
        for j, waiting in enumerate(sn["waiting"]):
            r = im.waiters[j]
            if waiting and "t0" in r and r["name"] in sn["data"]:
                bad.append(f"waiter {j} still waits for {r['name']} although a value is stored")
            if waiting and "t0" in r and r["timeout"] is not None and r["t0"] + r["timeout"] <= sn["now"]:
                bad.append(f"waiter {j} is overdue: started {r['t0']}, timeout {r['timeout']}, now {sn['now']}")
        prev_data, prev_done = dict(sn["data"]), list(sn["done"])
    # a plain subscription that was in place before a dispatch was spawned and was not unsubscribed meanwhile is awaited by it
    plain = []
    for idx, o in enumerate(ops):
        w = o.split(":")
        if w[0] == "sub":
            plain.append(dict(name="n" + w[1], cb=int(w[2]), frm=idx, to=None))
        if w[0] == "unsub":
            for pl in plain:
                if pl["to"] is None and pl["name"] == "n" + w[1] and pl["cb"] == int(w[2]):
                    pl["to"] = idx
                    break
    for i, info in enumerate(im.dinfo):
        done_at = next((sn["op"] for sn in im.snap_info if i < len(sn["done"]) and sn["done"][i]), None)
        if done_at is None:
            continue
        for cb in {pl["cb"] for pl in plain}:
            need = sum(1 for pl in plain if pl["cb"] == cb and pl["name"] == info["name"] and pl["frm"] < info["op"]
                       and (pl["to"] is None or pl["to"] > done_at))
            got = sum(1 for t, c, _ in im.log if t == i and c == cb)
            if got < need:
                bad.append(f"dispatch {i} awaited callback {cb} {got}x although {need} subscription(s) of it were in place throughout")
    # waits: immediate when a value exists; a timeout raises exactly at its deadline
    for j, r in enumerate(im.waiters):
        if r["state"] == "x" and r["at"] != r["t0"] + r["timeout"]:
            bad.append(f"waiter {j} timed out at {r['at']}, its deadline was {r['t0']} + {r['timeout']}")
        if r["state"] == "r" and r.get("had_value") and r["at"] != r["t0"]:
            bad.append(f"waiter {j} found a value but returned at {r['at']} instead of {r['t0']}")
    return bad



def check(res, label, scripts, ops, im, ans, judge):
    text = scripts_text(scripts) + " " + " ".join(ops)
    inp = dict(case=text, label=label)
    verdict, mlog, msnaps, mwm = strip_model(ans)
    nontrivial = len(im.dtasks) >= 2 and any(o.startswith("rel") for o in ops) and len(im.log) >= 2
    res.case(text, nontrivial)
    res.count("label:" + label)
    res.count("dispatches:%s" % (len(im.dtasks) if len(im.dtasks) < 4 else "4+"))
    res.count("ops:%s" % ("<=6" if len(ops) <= 12 else "<=15" if len(ops) <= 30 else ">15"))
    for o in ops:
        res.count("op:" + o.split(":")[0] + ("!" if o.endswith("!") else "~" if o.endswith("~") else "^" if o.endswith("^") else ""))
        if o.startswith("load"):
            res.count("load entries:%d" % (o.count("=")))
    overlap = max((len(re.findall(r"s\d+", s.split("/")[3])) for s in im.snaps), default=0)
    res.count("max suspended dispatches:%d" % min(overlap, 4))
    for r in im.waiters:
        res.count("waiter:" + {"r": "returned", "x": "timed out", "c": "pending"}[r["state"]])
    bad = spec_checks(scripts, ops, im) + im.anomalies
    if judge != "pass":
        res.fail("spec", inp, "C13.spec passes", dict(judge=judge, python_checks=bad, observation=im.obs_text()[:1500]),
                 "C13.spec fails on the implementation's observation: " + judge + ("; " + "; ".join(bad)[:200] if bad else ""))
    elif bad:
        res.fail("spec", inp, "C13 statement", bad, "; ".join(bad)[:300])
    elif verdict != "ok":
        res.fail("corr", inp, "a schedule the machine accepts", verdict, "the observed schedule is not accepted by the interleaving machine")
    elif mlog != im.log:
        res.fail("corr", inp, mlog, im.log, "callback invocation log differs")
    elif msnaps != im.snaps:
        first = next((k for k, (a, b) in enumerate(zip(msnaps, im.snaps)) if a != b), min(len(msnaps), len(im.snaps)))
        res.fail("corr", inp, msnaps[first:first + 1], im.snaps[first:first + 1], f"data / task / waiter observables differ at loop run #{first}")
    elif mwm != im.wmeta():
        res.fail("corr", inp, mwm, im.wmeta(), "waiter start times / results differ")
    if nontrivial and len(res.samples) < 4 and len(ops) < 40:
        res.sample(dict(label=label, case=text, log=im.log, last=im.snaps[-1] if im.snaps else ""))


# ---------------------------------------------------------------- subscribers registered through filter factories
FALSY_RETS = ["cn0", "cb0", "cs-", "cl-"]


def ret_fn(ret):
    """the scripted callback result: k None | a<c> number + c/16 (None for anything that is not a number) | c<val> a fixed value"""
    if ret == "k":
        return lambda v: None
    if ret[0] == "a":
        c = int(ret[1:])
        return lambda v: (v + c / 16) if isinstance(v, (int, float)) and not isinstance(v, bool) else None
    val = F.py_value(ret[1:], False, None)
    return lambda v: (list(val) if isinstance(val, list) else val)


def gen_ret(rng, numeric_only=False):
    r = rng.random()
    if r < 0.25:
        return "k"
    if r < 0.75:
        return "a%d" % rng.choice([16, 16, -16, 160, 1, -1, 32, 0])
    return rng.choice(FALSY_RETS[:2] if numeric_only else FALSY_RETS)


def gen_fexpr(rng):
    base = lambda: F.gen_base(rng, rng.choice(["oc", "oc", "db", "th", "de", "ag", "cu"]))  # noqa: E731
    r = rng.random()
    if r < 0.6:
        return base()
    if r < 0.9:
        return base() + ">" + base()
    return base() + ">" + base() + ">" + base()


def gen_num_calls(rng, n):
    vals, _ = F.gen_nums(rng, n)
    times = F.gen_times(rng, n, 0)
    return [(t, v, i) for t, (v, i) in zip(times, vals)]


def gen_fr(rng):
    flt = gen_fexpr(rng)
    while flt.count(">") > 1:
        flt = gen_fexpr(rng)
    return ("fr", flt, gen_ret(rng), gen_num_calls(rng, rng.randint(1, 10)))


def gen_chain(rng):
    subs = []
    for _ in range(rng.choice([1, 2, 2, 3, 4])):
        f = gen_fexpr(rng)
        while f.count(">") > 1:
            f = gen_fexpr(rng)
        subs.append(f)
    has_ag = any("ag" in f for f in subs)
    rets = [gen_ret(rng, numeric_only=has_ag) for _ in subs]
    if rng.random() < 0.5:
        rets[0] = rng.choice(["a16", "cn0", "cb0", "a-16"])     # the first subscriber replaces the value
    return ("chain", list(zip(subs, rets)), gen_num_calls(rng, rng.randint(1, 8)))


def fcase_text(c):
    if c[0] == "fr":
        return " ".join(["fr", c[1], c[2]] + [f"{t}@{v}{'i' if i else ''}" for t, v, i in c[3]])
    return " ".join(["chain", "+".join(f"{f}/{r}" for f, r in c[1]) or "-"] + [f"{t}@{v}{'i' if i else ''}" for t, v, i in c[2]])


def parse_fcase(text):
    w = text.split()

    def calls(ws):
        out = []
        for c in ws:
            t, v = c.split("@")
            out.append((int(t), v.rstrip("i"), v.endswith("i")))
        return out

    if w[0] == "fr":
        return ("fr", w[1], w[2], calls(w[3:]))
    subs = [] if w[1] == "-" else [tuple(x.split("/")) for x in w[1].split("+")]
    return ("chain", subs, calls(w[2:]))


def lean_fexpr(flt):
    return F.lean_filter(flt, 0)


def lean_fcase(c):
    if c[0] == "fr":
        return " ".join(["c13fr", lean_fexpr(c[1]), c[2]] + [f"{t}@{v}" for t, v, _ in c[3]])
    return " ".join(["c13chain", "+".join(f"{lean_fexpr(f)}/{r}" for f, r in c[1]) or "-"] + [f"{t}@{v}" for t, v, _ in c[2]])


async def run_fr(c):
    """-> per call (what reached the callback or None, what the callback returned, what the filter call returned / raised)"""
    _, flt, ret, calls = c
    fn = ret_fn(ret)
    seen = []

    async def cb(v):
        r = fn(v)
        seen.append((F.enc_value(v), r))
        return r

    F.Clock.t = 0.0
    f = F.build_chain(flt, cb)
    rows = []
    for t, v, as_int in calls:
        F.Clock.t = t / F.TICK
        del seen[:]
        try:
            got = await f(F.py_value(v, as_int, None))
            rows.append((list(seen), got, None))
        except Exception as e:  # noqa: BLE001
            rows.append((list(seen), None, type(e).__name__))
    return rows


async def run_chain(c):
    """-> per dispatch (per subscriber: awaited-with text or None, its result), stored value, get() result"""
    _, subs, calls = c
    em = EventManager()
    cur = {}
    F.Clock.t = 0.0
    for k, (flt, ret) in enumerate(subs):
        fn = ret_fn(ret)

        async def cb(v, k=k, fn=fn):
            r = fn(v)
            cur.setdefault(k, []).append((F.enc_value(v), r))
            return r

        em.subscribe("x", F.build_chain(flt, cb))
    rows = []
    for t, v, as_int in calls:
        F.Clock.t = t / F.TICK
        cur.clear()
        x = F.py_value(v, as_int, None)
        err = None
        try:
            await em.dispatch("x", x)
            got = await em.get("x", timeout=0)
        except Exception as e:  # noqa: BLE001
            err, got = type(e).__name__, None
        rows.append((dict(cur), x, em.data.get("x"), got, err))
    return rows


def same_value(a, b):
    return type(a) is type(b) and a == b or (isinstance(a, (int, float)) and isinstance(b, (int, float))
                                              and not isinstance(a, bool) and not isinstance(b, bool) and a == b)


def check_filtered(res, cases):
    clock_patch = time.monotonic
    time.monotonic = lambda: F.Clock.t
    try:
        async def all_impl():
            return [await (run_fr(c) if c[0] == "fr" else run_chain(c)) for c in cases]

        impl = vloop.run(all_impl())
    finally:
        time.monotonic = clock_patch
    answers = driver_batch(lean_fcase(c) for c in cases)
    for c, rows, ans in zip(cases, impl, answers):
        text = fcase_text(c)
        inp = dict(case=text, label=c[0])
        model = [] if ans == "." else ans.split(";")
        exprs = [c[1]] if c[0] == "fr" else [f for f, _ in c[1]]
        res.count("label:filtered-" + c[0])
        for f in exprs:
            res.count("subscribed through: " + ">".join(st.split(":")[0] for st in f.split(">")))
        if ans == "bad-op":
            res.fail("corr", inp, "parsable", ans, "driver rejected the request")
            continue
        bad, obs = [], []
        if c[0] == "fr":
            res.case(text, len(rows) >= 2 and any(r[0] for r in rows) and any(not r[0] for r in rows))
            for i, (seen, got, err) in enumerate(rows):
                if err:
                    obs.append("!=N")
                    continue
                if len(seen) > 1:
                    bad.append(f"call {i}: the wrapped callback was awaited {len(seen)} times")
                want = seen[0][1] if seen else None
                res.count("filter call: " + ("not delivered" if not seen else "delivered, callback returns None" if want is None else
                                             "delivered, callback returns a falsy value" if not want else "delivered, callback returns a value"))
                if not (got is None and want is None) and not same_value(got, want):
                    bad.append(f"call {i}: the wrapped callback returned {want!r}, the filter call returned {got!r}")
                obs.append(("d" + seen[0][0] if seen else "-") + "=" + F.enc_value(got))
        else:
            res.case(text, len(rows) >= 2 and len(c[1]) >= 2)
            for i, (cur, x, stored, got, err) in enumerate(rows):
                if err:
                    bad.append(f"dispatch {i} raised {err}")
                    obs.append("!")
                    continue
                v = x
                for k in range(len(c[1])):
                    for txt, r in cur.get(k, [])[:1]:
                        if r is not None:
                            v = r
                        res.count("filtered subscriber: " + ("returns None" if r is None else "returns a falsy value" if not r else "returns a value"))
                    if len(cur.get(k, [])) > 1:
                        bad.append(f"dispatch {i}: subscriber {k} awaited {len(cur[k])} times")
                if not same_value(stored, v):
                    bad.append(f"dispatch {i}: the value after the awaited callbacks' results is {v!r}, stored {stored!r}")
                if not same_value(got, stored) or got is not stored:
                    bad.append(f"dispatch {i}: get() returned {got!r}, stored {stored!r}")
                obs.append(",".join(("d" + cur[k][0][0]) if k in cur else "-" for k in range(len(c[1]))) + "=" + F.enc_value(stored)
                           if c[1] else "-=" + F.enc_value(stored))
        if bad:
            res.fail("spec", inp, "a delivering filter call returns what the wrapped callback returned; the dispatch chain threads it; the final value is stored",
                     bad, "; ".join(bad)[:300])
        elif obs != model:
            k = next((i for i, (a, b) in enumerate(zip(model, obs)) if a != b), min(len(model), len(obs)))
            res.fail("corr", inp, model[k:k + 1], obs[k:k + 1], f"filter call result / filtered dispatch chain: model and implementation differ at #{k}")


# ---------------------------------------------------------------- the event table and the stored data (Model/EventsTable.lean)
TABLE_HELP = """case text `table <op>*`: ce:<n> create_event | se:<n> set_event | st:<n>:<v> await dispatch (no subscribers) | sn:<n>:<v> dispatch_nowait |
ld:<n>=<v>,.. load_nowait | la:<n>=<v>,.. await load | w:<n>:<t|u>:<g|w> a task awaiting get / wait_for (t: timeout 1 s) | adv the clock moves 2 s |
ca:<j> cancel waiter task j.  After every op the loop runs to quiescence and the manager is looked at through EVERY public reader."""


def gen_table_case(rng):
    ops = []
    nw = 0
    for _ in range(rng.randint(2, 14)):
        r = rng.random()
        n = rng.randrange(3)
        if r < 0.12:
            ops.append(f"ce:{n}")
        elif r < 0.2:
            ops.append(f"se:{n}")
        elif r < 0.38:
            ops.append(f"{rng.choice(['st', 'sn'])}:{n}:{rng.randrange(0, 5)}")
        elif r < 0.48:
            items = [(rng.randrange(3), rng.randrange(0, 5)) for _ in range(rng.choice([0, 1, 2, 3]))]
            d = {}
            for k, v in items:
                d[k] = v
            ops.append(rng.choice(["ld", "la"]) + ":" + (",".join(f"{k}={v}" for k, v in d.items()) or "-"))
        elif r < 0.8:
            ops.append(f"w:{n}:{rng.choice('tu')}:{rng.choice('gw')}")
            nw += 1
        elif r < 0.92:
            ops.append("adv")
        elif nw:
            ops.append(f"ca:{rng.randrange(nw)}")
    return ops


def run_table_case(loop, ops):
    """-> (model words, observed snapshots)"""
    em = EventManager()
    ev_ids = {}          # id(Event object) -> order of first sight
    keep = []            # keep the Event objects alive (ids must stay unique)
    waiters = []
    words, snaps = [], []
    anomalies = []
    returned = {}

    def see_events():
        for name, ev in em.events.items():
            if id(ev) not in ev_ids:
                ev_ids[id(ev)] = len(ev_ids)
                keep.append(ev)

    for op in ops:
        w = op.split(":")
        if w[0] == "ce":
            ev = em.create_event(int(w[1]))
            see_events()
            returned.setdefault(int(w[1]), ev)
            if returned[int(w[1])] is not ev:
                anomalies.append(f"create_event({w[1]}) returned another object than the first time")
            words.append(op)
        elif w[0] == "se":
            em.set_event(int(w[1]))
            words += [op]
        elif w[0] in ("st", "sn"):
            if w[0] == "st":
                loop.create_task(em.dispatch(int(w[1]), int(w[2]) - SHIFT))
            else:
                em.dispatch_nowait(int(w[1]), int(w[2]) - SHIFT)
            words.append(f"st:{w[1]}:{w[2]}")
        elif w[0] in ("ld", "la"):
            d = {} if w[1] == "-" else {int(kv.split("=")[0]): int(kv.split("=")[1]) - SHIFT for kv in w[1].split(",")}
            if w[0] == "la":
                loop.create_task(em.load(d))
            else:
                em.load_nowait(d)
            words.append("ld:" + w[1])
        elif w[0] == "w":
            n, timed, getter = int(w[1]), w[2] == "t", w[3] == "g"
            coro = (em.get if getter else em.wait_for)(n, timeout=1.0 if timed else None)
            waiters.append(loop.create_task(coro))
            words.append(op)
        elif w[0] == "adv":
            loop.settle(until=loop.time() + 2.0)
            words.append("exall")
        elif w[0] == "ca":
            waiters[int(w[1])].cancel()
            words.append(op)
        loop.settle()
        see_events()
        words += ["rsall", "snap"]
        ev = ",".join(f"{n}:{ev_ids[id(e)]}:{1 if e.is_set() else 0}" for n, e in sorted(em.events.items()))
        da = ",".join(f"{n}={v + SHIFT}" for n, v in sorted(em.data.items()))
        ws = []
        for t in waiters:
            if not t.done():
                ws.append("w")
            elif t.cancelled():
                ws.append("C")
            elif t.exception() is not None:
                e = t.exception()
                ws.append("T" if isinstance(e, asyncio.TimeoutError) else "K" if isinstance(e, KeyError) else "!" + type(e).__name__)
            else:
                ws.append("rN" if t.result() is None else f"r{t.result() + SHIFT}")
        snaps.append(f"E{ev};D{da};W{','.join(ws)}")
        # every public reader of the stored data agrees with `data`
        for n in range(3):
            want = em.data.get(n, "absent")
            got_nowait = em.get_nowait(n, "absent")
            if got_nowait != want:
                anomalies.append(f"get_nowait({n}) = {got_nowait!r}, data holds {want!r}")
            try:
                attr = em.__getattr__(n)
            except AttributeError:
                attr = "absent"
            if attr != want:
                anomalies.append(f"attribute access {n} = {attr!r}, data holds {want!r}")
        if em.events is not em.events:
            anomalies.append("the events attribute is not one table")
    for t in waiters:
        if not t.done():
            t.cancel()
    em.cancel_tasks()
    loop.settle()
    return words, snaps, anomalies


def check_table(res, cases):
    with LoopCtx() as loop:
        runs = [run_table_case(loop, ops) for ops in cases]
    answers = driver_batch(" ".join(["c13ev"] + words) for words, _, _ in runs)
    for ops, (words, snaps, anomalies), ans in zip(cases, runs, answers):
        text = "table " + " ".join(ops)
        inp = dict(case=text, label="table")
        model = [] if ans == "." else ans.split(" | ")
        kinds = set(o.split(":")[0] for o in ops)
        res.case(text, len(kinds) >= 3 and any("r" in s_.split(";W")[1] for s_ in snaps))
        for k in kinds:
            res.count("event table op: " + dict(ce="create_event", se="set_event", st="await dispatch", sn="dispatch_nowait", ld="load_nowait",
                                                la="await load", w="get / wait_for task", adv="clock moves past the deadlines", ca="waiter cancelled")[k])
        if any(s_.split(";W")[1].count("T") and i + 1 < len(snaps) for i, s_ in enumerate(snaps)):
            res.count("event table: history goes on after a timed-out wait")
        if any("K" in s_.split(";W")[1] for s_ in snaps):
            res.count("event table: get() after a bare set_event raises KeyError")
        if anomalies:
            res.fail("spec", inp, "one Event per name for the manager's lifetime; every reader of the stored data agrees with data", anomalies,
                     "event table / stored data seen through the public readers")
        # the statement, directly: a getter never returns a value that was not the outcome of some dispatch (or load) for that name
        stored = {}
        names = []
        for op in ops:
            w = op.split(":")
            if w[0] in ("st", "sn"):
                stored.setdefault(int(w[1]), set()).add(int(w[2]))
            elif w[0] in ("ld", "la") and w[1] != "-":
                for kv in w[1].split(","):
                    stored.setdefault(int(kv.split("=")[0]), set()).add(int(kv.split("=")[1]))
            elif w[0] == "w":
                names.append((int(w[1]), w[3] == "g"))
        bad = []
        for j, (n, getter) in enumerate(names):
            fin = snaps[-1].split(";W")[1].split(",")[j]
            if getter and fin.startswith("r") and (fin == "rN" or int(fin[1:]) not in stored.get(n, ())):
                bad.append(f"get({n}) returned {fin[1:]} which no dispatch / load stored for that name")
        if bad:
            res.fail("spec", inp, "values returned by get() are outcomes of dispatches", bad, "a getter never returns a value that was not the outcome of some dispatch")
        if model != snaps:
            k = next((i for i, (a, b) in enumerate(zip(model, snaps)) if a != b), min(len(model), len(snaps)))
            # a waiter left waiting for ever although a value was stored after it started, or an Event that vanished: statement-level
            res.fail("spec" if "W" in "".join(snaps[k:k + 1]) and model[k:k + 1] and model[k].split(";W")[1] != snaps[k].split(";W")[1] else "corr",
                     inp, model[k:k + 1], snaps[k:k + 1],
                     f"event table machine and EventManager differ after op #{k} ({ops[k] if k < len(ops) else '?'}): events (name:object:set) ; data ; waiter states")



class LoopCtx:
    def __enter__(self):
        self.loop = vloop.new_loop()
        self.loop.set_exception_handler(lambda loop, ctx: None)
        aio_events._set_running_loop(self.loop)
        return self.loop

    def __exit__(self, *a):
        aio_events._set_running_loop(None)
        asyncio.set_event_loop(None)
        self.loop.close()


CORPUS_HELP = "corpus line: S<scripts> <op>*"


def run(ctx):
    rng = random.Random(ctx["seed"] * 7919 + 13)
    res = Result("C13")
    quick = ctx["tier"] == "quick"
    res.rule = ("histories generated online against the real EventManager: subscribe / subscribe_once / unsubscribe (by function, by a new filter object around it, by the "
                "once-wrapper) / dispatch_nowait / task awaiting dispatch / load_nowait / task awaiting load (1..3 names) / get / wait_for / get_nowait and attribute access at every snapshot (timeouts 1..9 ticks or none) on 3 names, 18 scripted "
                "callback functions (0..2 suspensions, return None or value+c), the harness choosing which suspended callback resumes, when the "
                "loop runs (single op or a batch of ops before it runs) and when the clock moves; plus (thorough) every word of length <= 5 over a "
                "10-op alphabet on one name; plus subscribers registered THROUGH every filter factory and chains of two / three (on_change, debounce, throttle, "
                "delta, aggregate, custom) whose wrapped callback returns None / value+c / a falsy replacement: what each filter call returns, and sequential "
                "dispatches through 1..4 such subscribers followed by get(). distinct = distinct history text; non-trivial = >= 2 dispatches, >= 1 resumed suspension, >= 2 awaited callbacks")
    runs = []
    with LoopCtx() as loop:
        for fn, ln in load_corpus("C13"):
            w = ln.split()
            if w[0] in ("fr", "chain", "table"):
                continue
            scripts = parse_scripts(w[0])
            im = replay_history(loop, scripts, w[1:])
            im.close()
            runs.append(("corpus", scripts, w[1:], im))
        n = 3000 if quick else 40000
        if ctx.get("max_cases"):
            n = min(n, ctx["max_cases"])
        for _ in range(n):
            scripts, ops, im = run_random(loop, rng, rng.choice([4, 8, 12, 20, 30]))
            im.close()
            runs.append(("random", scripts, ops, im))
        if not quick:
            for L in range(1, 6):
                for word in itertools.product(ALPHABET, repeat=L):
                    r = run_enumerated(loop, word)
                    if r is None:
                        continue
                    r[2].close()
                    runs.append(("enumerated", r[0], r[1], r[2]))
    answers = driver_batch(" ".join(["c13", scripts_text(s)] + lean_ops(ops)) for _, s, ops, _ in runs)
    judges = driver_batch(" ".join(["c13judge", scripts_text(s)] + lean_ops(ops) + ["|", im.obs_text()]) for _, s, ops, im in runs)
    # the tightened judge (C13.specT) on the machine's OWN observation of the same history: evidence for `holds_tight_full`
    selfj = driver_batch(" ".join(["c13self", scripts_text(s)] + lean_ops(ops)) for _, s, ops, _ in runs)
    for (label, scripts, ops, im), sj in zip(runs, selfj):
        res.count("machine's own observation under the tightened judge: " + ("pass" if sj == "pass" else "FAIL"))
        if sj != "pass":
            res.fail("corr", dict(case=scripts_text(scripts) + " " + " ".join(ops), label=label), "C13.specT passes on the machine's observation", sj,
                     "the interleaving machine itself does not satisfy the tightened judge on this history: " + sj)
    for (label, scripts, ops, im), ans, judge in zip(runs, answers, judges):
        if ans == "bad-op":
            res.fail("corr", dict(case=scripts_text(scripts) + " " + " ".join(ops)), "parsable", ans, "driver rejected the request")
            continue
        check(res, label, scripts, ops, im, ans, judge)
    if not ctx.get("max_cases"):
        fcases = [parse_fcase(ln) for _, ln in load_corpus("C13") if ln.split()[0] in ("fr", "chain")]
        fcases += [gen_fr(rng) for _ in range(1500 if quick else 30000)]
        fcases += [gen_chain(rng) for _ in range(1500 if quick else 30000)]
        check_filtered(res, fcases)
        tcases = [ln.split()[1:] for _, ln in load_corpus("C13") if ln.split()[0] == "table"]
        tcases += [gen_table_case(rng) for _ in range(1200 if quick else 30000)]
        check_table(res, tcases)
    res.exhaustive = False
    if not quick:
        res.extra["enumerated_alphabet"] = ALPHABET
        res.extra["enumerated_max_len"] = 5
    res.notes.append("clock: ops happen at even ticks, timeouts are odd numbers of ticks, so a deadline never coincides with an arrival")
    return res


def replay(ctx):
    r = ctx["replay"]
    f = r.get("failure") or r.get("first_difference")
    res = Result("C13")
    res.rule = "replay of one recorded history"
    w = f["input"]["case"].split()
    if w[0] in ("fr", "chain"):
        check_filtered(res, [parse_fcase(f["input"]["case"])])
        return res
    if w[0] == "table":
        check_table(res, [w[1:]])
        return res
    scripts = parse_scripts(w[0])
    with LoopCtx() as loop:
        try:
            im = replay_history(loop, scripts, w[1:])
        except KeyError:
            res.fail("corr", f["input"], "replayable", "a released suspension does not exist any more", "history no longer replayable")
            return res
        im.close()
    ans = driver_batch([" ".join(["c13", w[0]] + lean_ops(w[1:]))])[0]
    judge = driver_batch([" ".join(["c13judge", w[0]] + lean_ops(w[1:]) + ["|", im.obs_text()])])[0]
    check(res, "replay", scripts, w[1:], im, ans, judge)
    return res

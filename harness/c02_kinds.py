"""C02, the KIND dimension: every serialisable class of frames/requests.py, responses.py, messages.py (obtained by
reflection: FrameType members -> get_frame_handler -> class, cross-checked against the classes the three modules
define) x data-dict / message variants:

  baseline      the documented keys only (and no data at all)
  extra         unknown keys added: random names, names of OTHER requests' fields, None values
  missing       each documented key removed in turn (the exception class is recorded and compared)
  intlike       values that are int subclasses: bool, IntEnum members, a user-defined class MyInt(int)
  range         values outside a byte: 256, -1, 65536
  none          None under a documented key
  message       message= given as bytes / bytearray / memoryview; a bytearray mutated after construction (recorded)
  both          data= and message= given together

Judged against the Lean model `Req.payloadOfKind` (driver op `kind`, which selects the kind's encoder through the
GENERATED table Gen.frameKinds): `.message`, `.bytes`, `.length`, `len(frame)` or the exception class.
  * a kind WITHOUT a create_message of its own must ignore the data dict entirely;
  * an unknown key must not influence the bytes of any kind (metamorphic against the same frame without the key):
    a difference is a concrete failing input of the property ("exactly the fields it was given ... and nothing else");
  * any other difference between model and implementation is a broken correspondence.
"""
import enum
import importlib
import inspect
import json
import struct

from common import driver_batch, hexs
import frameimpl as fi

from pyplumio import const as pconst  # noqa: E402  (frameimpl called use_repo())
from pyplumio.const import DeviceType, FrameType  # noqa: E402
from pyplumio.exceptions import FrameDataError  # noqa: E402
from pyplumio.frames import Frame, get_frame_handler  # noqa: E402


class MyInt(int):
    """a user-defined int subclass"""


# documented keys of the model's builders (model key name -> the implementation's key constant)
KEY = dict(count=pconst.ATTR_COUNT, start=pconst.ATTR_START, index=pconst.ATTR_INDEX, value=pconst.ATTR_VALUE,
           device_index=pconst.ATTR_DEVICE_INDEX, offset=pconst.ATTR_OFFSET, size=pconst.ATTR_SIZE, type=pconst.ATTR_TYPE,
           switch=pconst.ATTR_SWITCH, parameter=pconst.ATTR_PARAMETER, schedule=pconst.ATTR_SCHEDULE)
BUILDER_KEYS = dict(range=["count", "start"], alerts=["start", "count"], setecomax=["index", "value"],
                    setmixer=["device_index", "index", "value"], setthermostat=["index", "value", "offset", "size"],
                    control=["value"], schedule=["type", "switch", "parameter", "schedule"])
OPTIONAL = dict(range={"count", "start"}, alerts={"start", "count"})
# keys the encodable responses document (never used as "unknown")
RESPONSE_KEYS = {"network", "version", "product"}
ALL_FIELD_NAMES = sorted(KEY)


def reflect_kinds():
    """[(FrameType member, class)] as the library resolves them, plus the classes the three modules define"""
    out = []
    for m in FrameType:
        mod, name = get_frame_handler(int(m)).rsplit(".", 1)
        out.append((m, getattr(importlib.import_module("pyplumio." + mod), name)))
    defined = set()
    for modname in ("requests", "responses", "messages"):
        mod = importlib.import_module("pyplumio.frames." + modname)
        for _, c in inspect.getmembers(mod, inspect.isclass):
            if issubclass(c, Frame) and c.__module__ == mod.__name__ and not inspect.isabstract(c) and "frame_type" in vars(c):
                defined.add(c)
    return out, defined


# ------------------------------------------------------------------ values (JSON-able specs)

def py_val(spec):
    k, v = spec
    if k == "i":
        return int(v)
    if k == "b":
        return bool(v)
    if k == "m":
        return MyInt(v)
    if k == "e":
        return {"DeviceType": DeviceType, "FrameType": FrameType}[v[0]](v[1])
    if k == "n":
        return None
    if k == "s":
        return str(v)
    if k == "w":
        return [[c == "1" for c in day] for day in v]
    raise ValueError(spec)


def model_val(spec):
    k, v = spec
    if k in ("i", "m"):
        return "i%d" % v
    if k == "b":
        return "i%d" % int(bool(v))
    if k == "e":
        return "i%d" % v[1]
    if k == "n":
        return "N"
    if k == "s":
        return "t" + v
    if k == "w":
        return "S" + ("-" if not v else "s" + "/".join(v))
    raise ValueError(spec)


def py_data(data):
    return None if data is None else {KEY.get(k, k): py_val(s) for k, s in data}


def model_dict(data):
    if data is None:
        return "_"
    if not data:
        return "{}"
    return ";".join(k + "~" + model_val(s) for k, s in sorted(data))


def err_word(e):
    if isinstance(e, FrameDataError):
        return "E:frameData"
    if isinstance(e, OverflowError):
        return "E:overflow"
    if isinstance(e, struct.error):
        return "E:struct"
    if isinstance(e, ValueError):
        return "E:value"
    if isinstance(e, (TypeError, AttributeError)):
        return "E:type"      # a dict value of the wrong Python type (None.to_bytes is an AttributeError): outside the admissible values
    return "X:" + type(e).__name__


# ------------------------------------------------------------------ generator

def baseline(rng, builder, schedules):
    """the documented keys of a builder with admissible values"""
    def byte():
        return rng.choice([0, 1, 2, 7, 127, 128, 254, 255, rng.randrange(256)])
    if builder in ("range", "alerts"):
        return [["count", ["i", byte()]], ["start", ["i", byte()]]]
    if builder == "setecomax":
        return [["index", ["i", byte()]], ["value", ["i", byte()]]]
    if builder == "setmixer":
        return [["device_index", ["i", rng.randrange(10)]], ["index", ["i", byte()]], ["value", ["i", byte()]]]
    if builder == "setthermostat":
        size = rng.choice([1, 2])
        index = rng.randrange(40)
        return [["index", ["i", index]], ["value", ["i", rng.randrange(256 ** size)]],
                ["offset", rng.choice([["n", None], ["i", rng.randrange(200)]])], ["size", ["i", size]]]
    if builder == "control":
        return [["value", ["i", rng.randrange(2)]]]
    if builder == "schedule":
        week = ["".join(rng.choice("01") for _ in range(48)) for _ in range(7)]
        return [["type", ["s", rng.choice(schedules)]], ["switch", ["i", rng.randrange(2)]],
                ["parameter", ["i", byte()]], ["schedule", ["w", week]]]
    return []


def unknown_name(rng, documented):
    while True:
        n = "".join(rng.choice("abcdefghijklmnopqrstuvwxyz_") for _ in range(rng.randint(1, 9)))
        if n not in documented and n not in RESPONSE_KEYS and n not in KEY:
            return n


def extras(rng, documented):
    """lists of unknown entries: random names, other requests' field names, None values, int-likes"""
    foreign = [k for k in ALL_FIELD_NAMES if k not in documented]
    out = [[[unknown_name(rng, documented), ["i", rng.randrange(256)]]],
           [["extra", ["i", rng.choice([1, 7, 255])]]],
           [[unknown_name(rng, documented), ["n", None]]],
           [[unknown_name(rng, documented), ["s", "x"]], [unknown_name(rng, documented), ["i", 300]]]]
    for k in foreign:
        v = {"type": ["s", "heating"], "schedule": ["w", ["1" * 48] * 7]}.get(k, ["i", rng.choice([0, 1, 5, 200, 255])])
        out.append([[k, v]])
    if foreign:
        out.append([[k, ["n", None]] for k in rng.sample(foreign, min(2, len(foreign)))])
        out.append([[k, ({"type": ["s", "mixer_1"], "schedule": ["w", []]}.get(k, ["i", 300]))] for k in foreign])
    # two random unknown names must differ
    return [e for e in out if len({k for k, _ in e}) == len(e)]


def gen_cases(rng, tier, rows, schedules):
    """rows: [(FrameType name, builder or '-', has_create)]"""
    devs = [0, 69, 81, 86]

    def hdr():
        if rng.random() < 0.5:
            return dict(rc=rng.choice(devs), sd=rng.choice(devs), et=48, ev=5)
        return dict(rc=rng.randrange(256), sd=rng.randrange(256), et=rng.randrange(256), ev=rng.randrange(256))

    reps = 3 if tier == "quick" else 12
    for name, builder, has_create in rows:
        documented = set(BUILDER_KEYS.get(builder, []))
        for _ in range(reps):
            base = baseline(rng, builder, schedules)

            def case(variant, data, message=None, **kw):
                return dict(t="kind", name=name, variant=variant, data=data, message=message, **hdr(), **kw)

            yield case("baseline:no data", None)
            yield case("baseline:empty dict", [])
            if base:
                yield case("baseline:documented keys", base)
            # unknown keys over: the documented keys / no documented key at all
            for ex in extras(rng, documented):
                yield case("extra", base + ex, strip=[k for k, _ in ex])
                if base and rng.random() < 0.4:
                    yield case("extra", ex, strip=[k for k, _ in ex])
            # each documented key removed in turn
            for k in [k for k, _ in base]:
                yield case("missing:" + k, [e for e in base if e[0] != k])
            # int subclasses / out of range / None under each integer key
            for i, (k, spec) in enumerate(base):
                if spec[0] not in ("i", "n") or k == "size":
                    continue

                def subst(s, _i=i, _k=k):
                    return [e if j != _i else [_k, s] for j, e in enumerate(base)]
                v = spec[1] if spec[0] == "i" else 3
                yield case("intlike:bool", subst(["b", rng.random() < 0.5]))
                yield case("intlike:MyInt", subst(["m", v]))
                yield case("intlike:IntEnum", subst(rng.choice([["e", ["DeviceType", rng.choice(devs)]],
                                                               ["e", ["FrameType", rng.choice([8, 24, 53, 49, 221])]]])))
                for bad in (256, -1, 65536):
                    yield case("range:%d" % bad, subst(["i", bad]))
                if not (k == "offset"):
                    yield case("none", subst(["n", None]))
            # message= in every buffer type, with and without data
            for mt in ("bytes", "bytearray", "memoryview"):
                msg = bytes(rng.choice([0, 0x68, 0x16, 0xFF, rng.randrange(256)]) for _ in range(rng.choice([0, 1, 2, 5, 17])))
                yield case("message:" + mt, None, message=msg.hex(), mtype=mt)
            msg = bytes(rng.randrange(256) for _ in range(rng.choice([1, 2, 6])))
            yield case("message:mutated", None, message=msg.hex(), mtype="bytearray", mutate=True)
            msg = bytes(rng.randrange(256) for _ in range(rng.choice([0, 1, 4])))
            yield case("both", base, message=msg.hex(), mtype="bytearray")
            yield case("both", base + [["extra", ["i", 9]]], message=msg.hex(), mtype=rng.choice(["bytes", "bytearray", "memoryview"]))


# ------------------------------------------------------------------ implementation / model / judge

def observe(cls, case, data):
    """(.message, .bytes, .length, len()) or the exception class, and what a later mutation of the caller's bytearray does"""
    kw = dict(recipient=fi.addr(case["rc"]), sender=fi.addr(case["sd"]), econet_type=case["et"], econet_version=case["ev"])
    msg = None
    if case.get("message") is not None:
        raw = bytes.fromhex(case["message"])
        msg = {"bytes": raw, "bytearray": bytearray(raw), "memoryview": memoryview(bytearray(raw))}[case["mtype"]]
        kw["message"] = msg
    if data is not None:
        kw["data"] = py_data(data)
    o = {}
    try:
        f = cls(**kw)
        m = bytes(f.message)
        b = f.bytes
        o = dict(message=m, bytes=b, length=f.length, len=len(f))
        if case.get("mutate"):
            msg[0] ^= 0xFF
            after = f.bytes
            o["follows_mutation"] = after != b and bytes(f.message) == bytes(msg)
    except Exception as e:  # noqa: BLE001
        o = dict(err=err_word(e))
    return o


def sw_version():
    from pyplumio._version import __version_tuple__
    return ".".join(str(x if isinstance(x, int) else 0) for x in (tuple(__version_tuple__) + (0, 0, 0))[:3])


def model_line(case):
    return "kind %s %s %d %d %d %d %s %s" % (
        sw_version(), case["name"], case["rc"], case["sd"], case["et"], case["ev"],
        "_" if case.get("message") is None else hexs(bytes.fromhex(case["message"])), model_dict(case["data"]))


def evaluate(res, cases, classes, rows):
    has_create = {n: hc for n, _, hc in rows}
    builder_of = {n: b for n, b, _ in rows}
    answers = driver_batch([model_line(c) for c in cases])
    for case, ans in zip(cases, answers):
        name = case["name"]
        cls = classes[name]
        variant = case["variant"]
        res.case(json.dumps(case, sort_keys=True), True)
        res.count("kinds:variant:" + variant.split(":")[0])
        o = observe(cls, case, case["data"])
        shown = {k: (v.hex() if isinstance(v, bytes) else v) for k, v in o.items()}
        if ans == "bad-op":
            res.fail("corr", case, "a model answer", "bad-op", "kinds: driver rejected the request line")
            continue
        words = ans.split(" ")
        m_err = words[0] if words[0].startswith("E:") else (words[1] if words[1].startswith("E:") else None)
        i_err = o.get("err")
        if variant.startswith("missing:") or variant.startswith("range:") or variant == "none":
            res.count(f"kinds:{variant.split(':')[0]}:{builder_of[name]}:{variant.split(':', 1)[1] if ':' in variant else ''}:"
                      + (i_err or "serialised"))
        if "follows_mutation" in o:
            res.count("kinds:bytes follow a later mutation of the caller's bytearray:" + str(o["follows_mutation"]))
        # (1) no encoder of its own: the data dict is ignored entirely
        if not has_create[name] and case.get("message") is None:
            if i_err or o["message"] != b"":
                res.fail("spec", case, "an empty payload (the kind has no fields)", shown,
                         "kinds: a kind without parameters serialises something from its data dict")
                continue
        # (2) unknown keys have no influence (metamorphic, no model involved)
        if case.get("strip"):
            base = observe(cls, case, [e for e in case["data"] if e[0] not in case["strip"]])
            if (base.get("err"), base.get("bytes")) != (o.get("err"), o.get("bytes")):
                res.fail("spec", case, {k: (v.hex() if isinstance(v, bytes) else v) for k, v in base.items()}, shown,
                         "kinds: an unknown key of the data dict changes what is serialised (payload holds something else than the given fields)")
                continue
        # (3) model = implementation
        if (m_err is None) != (i_err is None):
            res.fail("corr", case, ans, shown, "kinds: model and implementation disagree on success")
            continue
        if i_err is not None:
            if m_err != i_err:
                res.fail("corr", case, ans, shown, "kinds: model and implementation raise different error classes")
            continue
        got = "m:%s b:%s l:%d" % (hexs(o["message"]), hexs(o["bytes"]), o["length"])
        if o["len"] != o["length"] or o["length"] != len(o["bytes"]):
            res.fail("spec", case, "len(frame) = .length = number of bytes", shown, "kinds: length is not the total byte count")
        elif got != ans:
            kind = "spec" if case.get("message") is not None and case["data"] is None and not case.get("mutate") else "corr"
            res.fail(kind, case, ans, got, "kinds: the frame is not the envelope of the given message" if kind == "spec"
                     else "kinds: model bytes and implementation bytes differ")


def run_part(res, rng, tier):
    kinds, defined = reflect_kinds()
    classes = {m.name: c for m, c in kinds}
    res.extra["kinds_reflected"] = len(kinds)
    if set(classes.values()) != defined:
        res.fail("corr", dict(t="kinds-reflection"), sorted(c.__name__ for c in defined), sorted(c.__name__ for c in classes.values()),
                 "kinds: the classes the frame modules define are not the classes the FrameType members resolve to")
    # the generated table (as the driver sees it) against the live classes
    rows = []
    for (m, c), ans in zip(kinds, driver_batch(["kindrow " + m.name for m, _ in kinds])):
        own_c, own_d = "create_message" in vars(c), "decode_message" in vars(c)
        want = "%d %s %s %d %d" % (int(m), m.name.split("_", 1)[0].lower(), c.__name__, own_c, own_d)
        if ans == "bad-op" or ans.rsplit(" ", 1)[0] != want:
            res.fail("corr", dict(t="kinds-table", name=m.name), want, ans, "kinds: generated table row differs from the live class")
            continue
        if int(c.frame_type) != int(m):
            res.fail("spec", dict(t="kinds-table", name=m.name), int(m), int(c.frame_type), "kinds: the class of a kind carries another kind's code")
        rows.append((m.name, ans.rsplit(" ", 1)[1], own_c))
    cases = list(gen_cases(rng, tier, rows, fi.PINNED_SCHEDULES))
    evaluate(res, cases, classes, rows)
    res.extra["kinds_cases"] = len(cases)
    res.notes.append("kind dimension: all FrameType members (by reflection) x {documented keys, unknown keys, each key missing, bool / IntEnum / "
                     "int-subclass values, 256 / -1 / 65536, None, message as bytes / bytearray / memoryview, data and message together} against "
                     "Req.payloadOfKind selected through the generated table Gen.frameKinds")


def replay_case(res, case):
    kinds, _ = reflect_kinds()
    classes = {m.name: c for m, c in kinds}
    rows = []
    for (m, c), ans in zip(kinds, driver_batch(["kindrow " + m.name for m, _ in kinds])):
        rows.append((m.name, ans.rsplit(" ", 1)[1] if ans != "bad-op" else "-", "create_message" in vars(c)))
    if case.get("t") == "kind":
        evaluate(res, [case], classes, rows)
    else:
        run_part(res, __import__("random").Random(0), "quick")

"""C19 correspondence: the primitive wire types of pyplumio/helpers/data_types.py
(`T(v).to_bytes()`, `T(v).size`, `T.from_bytes(data, offset)`, `.value`, `.size`) against the
Lean codecs of Model/Types.lean, plus the property's own predicate judged on what the
implementation did:  unpack(pack(v) ++ rest) = v,  size = len(pack(v)),  exactly that many
bytes consumed -- including the consumer protocol of RegulatorDataStructure (bit runs, `.size`
driven offsets) through a real EcoMAX device."""
import asyncio
import collections
import json
import math
import random
import socket
import struct

from common import Result, driver_batch, hexs, load_corpus, use_repo

use_repo()

import vloop  # noqa: E402
from pyplumio.helpers import data_types as dt  # noqa: E402

# class name -> (model type, size, signed)
INTS = {
    "SignedChar": ("i8", 1, True), "UnsignedChar": ("u8", 1, False),
    "Short": ("i16", 2, True), "UnsignedShort": ("u16", 2, False),
    "Int": ("i32", 4, True), "UnsignedInt": ("u32", 4, False),
    "Int64": ("i64", 8, True), "UInt64": ("u64", 8, False),
}
FLOATS = {"Float": (4, "<f"), "Double": (8, "<d")}
ADDRS = {"IPv4": 4, "IPv6": 16}
# regulator data schema type ids (DATA_TYPES index) used for field sequences
SEQ_TYPES = {1: "SignedChar", 2: "Short", 3: "Int", 4: "UnsignedChar", 5: "UnsignedShort", 6: "UnsignedInt",
             7: "Float", 9: "Double", 10: "BitArray", 11: "String", 12: "String", 13: "Int64", 14: "UInt64",
             15: "IPv4", 16: "IPv6", 0: "Undefined", 8: "Undefined"}

ALPHABETS = [
    "abcXYZ 019_-.",                       # ASCII, 1 byte
    "éüñßøÆ¿µ",                            # Latin-1 supplement, 2 bytes
    "ąęłżźćПлюмΩλ",                        # Latin extended / Cyrillic / Greek, 2 bytes
    "温度計ボイラー한국",                      # CJK / kana / hangul, 3 bytes
    "€‰→♨​́﻿",               # 3 bytes incl. zero-width, combining, BOM
    "🔥🌡️😀𝔘\U0010ffff",                      # 4 bytes (astral), variation selector
    "\x01\x7f\t\n\r",                       # control characters
]


def int_range(size, signed):
    m = 256 ** size
    return (-(m // 2), m // 2 - 1) if signed else (0, m - 1)


def gen_int_values(rng, size, signed, n):
    lo, hi = int_range(size, signed)
    vals = [lo, lo + 1, lo + 2, -2, -1, 0, 1, 2, hi - 2, hi - 1, hi,
            lo - 1, hi + 1, lo - 256, 2 * hi + 1, 2 * hi + 2, -(256 ** size), 256 ** size]
    for k in range(0, 8 * size + 1):
        for d in (-1, 0, 1):
            vals += [2 ** k + d, -(2 ** k) + d]
    for pat in (0x80, 0x7F, 0xFF, 0x01, 0xAA, 0x55):
        for pos in range(size):
            vals.append(pat << (8 * pos))
            vals.append(int.from_bytes(bytes([pat] * (pos + 1)), "little"))
    out = []
    for v in vals:
        if v not in out:
            out.append(v)
    while len(out) < n:
        r = rng.random()
        if r < 0.5:
            out.append(rng.randint(lo, hi))
        elif r < 0.9:
            bits = rng.randint(0, 8 * size)
            mag = rng.getrandbits(bits) if bits else 0
            v = -mag if (signed and rng.random() < 0.5) else mag
            out.append(max(lo, min(hi, v)))
        else:  # just outside
            out.append(rng.choice([lo - rng.randint(1, 300), hi + rng.randint(1, 300)]))
    return out


def rnd_bytes(rng, n):
    return bytes(rng.getrandbits(8) for _ in range(n))


def rnd_affix(rng):
    """(prefix, rest): the value is read at offset len(prefix) and followed by `rest`"""
    p = rnd_bytes(rng, rng.choice([0, 0, 0, 1, 2, 5]))
    r = rng.random()
    if r < 0.25:
        rest = b""
    elif r < 0.5:
        rest = bytes([rng.choice([0, 0xFF, 0x80, 1])]) * rng.randint(1, 4)
    else:
        rest = rnd_bytes(rng, rng.randint(1, 9))
    return p, rest


def rnd_text(rng, maxlen, allow_nul=False):
    n = rng.choice([0, 1, 1, 2, 3, 5, 8, 13, maxlen]) if maxlen > 13 else rng.randint(0, maxlen)
    mode = rng.random()
    if mode < 0.25:
        alpha = ALPHABETS[0]
    elif mode < 0.8:
        alpha = rng.choice(ALPHABETS[1:])
    else:
        alpha = "".join(ALPHABETS)
    s = "".join(rng.choice(alpha) for _ in range(n))
    if mode > 0.9:  # arbitrary scalar values (no surrogates, NUL only if allowed)
        s = "".join(chr(c) for c in (rng.choice([rng.randint(1, 0x7F), rng.randint(0x80, 0x7FF), rng.randint(0x800, 0xD7FF),
                                                 rng.randint(0xE000, 0xFFFF), rng.randint(0x10000, 0x10FFFF)])
                                     for _ in range(n)))
    if allow_nul and s:
        i = rng.randrange(len(s) + 1)
        s = s[:i] + "\0" + s[i:]
    return s


def case(kind, cls, v, prefix=b"", rest=b""):
    return dict(kind=kind, cls=cls, v=v, prefix=prefix.hex(), rest=rest.hex())


def gen_cases(rng, tier):
    quick = tier == "quick"
    n_int = 500 if quick else 50000
    for cls, (ty, size, signed) in INTS.items():
        for v in gen_int_values(rng, size, signed, n_int):
            p, r = rnd_affix(rng)
            yield case("rt", cls, v, p, r)
        for _ in range(60 if quick else 3000):  # arbitrary buffers, too short ones included
            yield case("un", cls, rnd_bytes(rng, rng.randint(0, size + 3)).hex(), rnd_bytes(rng, rng.choice([0, 0, 1, 3])))
    for cls, (size, fmt) in FLOATS.items():
        special = [0, 1 << (8 * size - 1), 1, (1 << (8 * size - 1)) | 1]  # +-0, smallest subnormals
        if size == 4:
            special += [0x7F800000, 0xFF800000, 0x7F7FFFFF, 0x00800000, 0x3F800000, 0x7FC00000, 0x7F800001, 0xFFC00000]
        else:
            special += [0x7FF0000000000000, 0xFFF0000000000000, 0x7FEFFFFFFFFFFFFF, 0x0010000000000000,
                        0x3FF0000000000000, 0x7FF8000000000000, 0x7FF0000000000001, 0x3FB999999999999A]
        for i in range(500 if quick else 50000):
            bits = special[i] if i < len(special) else rng.getrandbits(8 * size)
            if i >= len(special) and rng.random() < 0.3:  # moderate magnitudes
                bits = int.from_bytes(struct.pack(fmt, rng.uniform(-1000, 1000)), "little")
            p, r = rnd_affix(rng)
            yield case("rt", cls, bits, p, r)
        for _ in range(60 if quick else 3000):
            yield case("un", cls, rnd_bytes(rng, rng.randint(0, size + 3)).hex(), rnd_bytes(rng, rng.choice([0, 0, 1, 3])))
    for cls, size in ADDRS.items():
        fixed = [bytes(size), b"\xff" * size, bytes(range(1, size + 1)), b"\x7f\0\0\1".rjust(size, b"\0"),
                 bytes(10) + b"\xff\xff\x01\x02\x03\x04" if size == 16 else b"\xc0\xa8\x01\x02",
                 bytes(15) + b"\x01" if size == 16 else b"\x0a\0\0\1",
                 b"\xfe\x80" + bytes(6) + rnd_bytes(rng, 8) if size == 16 else b"\0\0\0\1"]
        for i in range(500 if quick else 50000):
            if i < len(fixed):
                b = fixed[i]
            elif rng.random() < 0.3:  # runs of zero groups (text compression of IPv6)
                b = bytes(rng.choice([0, 0, rng.getrandbits(8)]) for _ in range(size))
            else:
                b = rnd_bytes(rng, size)
            p, r = rnd_affix(rng)
            yield case("rt", cls, b.hex(), p, r)
        for _ in range(60 if quick else 3000):
            yield case("un", cls, rnd_bytes(rng, rng.randint(0, size + 3)).hex(), rnd_bytes(rng, rng.choice([0, 0, 1, 3])))
    # strings
    for i in range(500 if quick else 50000):
        s = rnd_text(rng, 40 if rng.random() < 0.97 else 600)
        p, r = rnd_affix(rng)
        yield case("rt", "String", s, p, r)
    for i in range(500 if quick else 50000):
        s = rnd_text(rng, 40 if rng.random() < 0.9 else 90)
        p, r = rnd_affix(rng)
        yield case("rt", "VarString", s, p, r)
    # VarString boundaries: encoded length 253..257 with 1/2/3/4-byte characters
    for ch in ("a", "é", "温", "🔥"):
        w = len(ch.encode())
        for total in (253, 254, 255, 256, 257, 300, 510):
            s = ch * (total // w) + "x" * (total % w)
            yield case("rt", "VarString", s, b"", b"\x41\x42")
            yield case("rt", "String", s, b"\x07", b"\x41")
    for i in range(500 if quick else 50000):
        n = rng.choice([0, 1, 2, 3, 7, 254, 255]) if rng.random() < 0.2 else rng.randint(0, 255)
        b = rnd_bytes(rng, n)
        if rng.random() < 0.1:
            b = bytes(n)
        p, r = rnd_affix(rng)
        yield case("rt", "VarBytes", b.hex(), p, r)
    for n in (256, 257, 300, 1000):
        yield case("rt", "VarBytes", rnd_bytes(rng, n).hex(), b"", b"\x01")
    # malformed stream: values that are not representable, arbitrary buffers
    for i in range(150 if quick else 10000):
        yield case("rt", rng.choice(["String", "VarString"]), rnd_text(rng, 20, allow_nul=True), *rnd_affix(rng))
    for i in range(300 if quick else 20000):
        n = rng.choice([0, 0, 1, 2, 3, 5, 9, 20, 70])
        mode = rng.random()
        if mode < 0.4:
            b = rnd_bytes(rng, n)
        elif mode < 0.7:  # valid text cut at an arbitrary byte, with / without terminator
            b = rnd_text(rng, 12).encode()
            b = b[: rng.randint(0, len(b))] + rng.choice([b"", b"\0", b"\0\0x"])
        else:             # length prefix that promises more / less than there is
            body = rnd_text(rng, 12).encode()
            b = bytes([rng.choice([0, len(body) % 256, (len(body) + 3) % 256, max(0, len(body) - 2), 255])]) + body
        yield case("un", rng.choice(["String", "VarString", "VarBytes"]), b.hex(), rnd_bytes(rng, rng.choice([0, 0, 1, 3])))
    # bit array: every byte value x every index (finite: enumerated completely), with trailing bytes / offset
    for b in range(256):
        for idx in range(8):
            p, r = rnd_affix(rng)
            yield dict(kind="bit", cls="BitArray", v=b, idx=idx, prefix=p.hex(), rest=r.hex())
    for idx in (0, 3, 7):
        yield dict(kind="bit", cls="BitArray", v=None, idx=idx, prefix="", rest="")  # empty buffer
    # field sequences through the real regulator data decoder
    for i in range(300 if quick else 12000):
        yield gen_seq(rng, i)


def gen_seq(rng, i):
    fields = []
    mode = rng.random()
    nfields = rng.randint(1, 6)
    for _ in range(nfields):
        if mode < 0.5 or rng.random() < 0.5:
            k = rng.choice([1, 2, 3, 7, 8, 9, 15, 16, 17, rng.randint(1, 30)])
            fields += [[10, rng.getrandbits(1)] for _ in range(k)]
        tid = rng.choice([1, 2, 3, 4, 5, 6, 7, 9, 11, 12, 13, 14, 15, 16, 0, 8, 11, 12])
        cls = SEQ_TYPES[tid]
        if cls in INTS:
            lo, hi = int_range(INTS[cls][1], INTS[cls][2])
            v = rng.choice([lo, hi, -1 if lo < 0 else 1, rng.randint(lo, hi)])
        elif cls in FLOATS:
            v = int.from_bytes(struct.pack(FLOATS[cls][1], rng.choice([0.0, -1.5, 21.25, 1e10, rng.uniform(-100, 100)])), "little")
            if cls == "Float":
                v = int.from_bytes(struct.pack("<f", struct.unpack("<f", struct.pack("<f", rng.uniform(-100, 100)))[0]), "little")
        elif cls in ADDRS:
            v = rnd_bytes(rng, ADDRS[cls]).hex()
        elif cls == "String":
            v = rnd_text(rng, 10)
        else:
            v = None
        fields.append([tid, v])
    if rng.random() < 0.3:
        fields += [[10, rng.getrandbits(1)] for _ in range(rng.randint(1, 12))]
    return dict(kind="seq", cls="RegulatorData", fields=fields, fill=rng.choice([0, 255]), tail=rnd_bytes(rng, rng.choice([0, 0, 2])).hex())


# ---------------------------------------------------------------------------------------------
# implementation side


def ctor_value(cls, v):
    """python value handed to the constructor for the JSON value of a case"""
    if cls in INTS:
        return v
    if cls in FLOATS:
        return struct.unpack(FLOATS[cls][1], v.to_bytes(FLOATS[cls][0], "little"))[0]
    if cls == "IPv4":
        return socket.inet_ntoa(bytes.fromhex(v))
    if cls == "IPv6":
        return socket.inet_ntop(socket.AF_INET6, bytes.fromhex(v))
    if cls == "VarBytes":
        return bytes.fromhex(v)
    return v


def canon_value(cls, x):
    """canonical, JSON-able form of an implementation `.value`"""
    if cls in INTS:
        return int(x) if isinstance(x, int) and not isinstance(x, bool) else repr(x)
    if cls in FLOATS:
        if isinstance(x, float):
            return "nan" if math.isnan(x) else int.from_bytes(struct.pack(FLOATS[cls][1], x), "little")
        return repr(x)
    if cls in ADDRS:
        return x if isinstance(x, str) else repr(x)
    if cls == "VarBytes":
        return bytes(x).hex() if isinstance(x, (bytes, bytearray)) else repr(x)
    return x if isinstance(x, str) else repr(x)


def model_value(cls, tok):
    """implementation-side canonical value that corresponds to the model's unpack token"""
    if cls in INTS:
        return int(tok)
    if cls in FLOATS:
        bits = int(tok)
        x = struct.unpack(FLOATS[cls][1], bits.to_bytes(FLOATS[cls][0], "little"))[0]
        return "nan" if math.isnan(x) else bits
    b = b"" if tok == "-" else bytes.fromhex(tok)
    if cls == "IPv4":
        return socket.inet_ntoa(b)
    if cls == "IPv6":
        return socket.inet_ntop(socket.AF_INET6, b)
    if cls == "VarBytes":
        return b.hex()
    return b.decode("utf-8", "replace")


def model_ops(cls, v):
    """(pack request, unpack request prefix) for the model; v = JSON value of the case"""
    if cls in INTS:
        return f"t.int {INTS[cls][0]} pack {v}", f"t.int {INTS[cls][0]} unpack "
    if cls in FLOATS:
        return f"t.bits {FLOATS[cls][0]} pack {v}", f"t.bits {FLOATS[cls][0]} unpack "
    if cls in ADDRS:
        return f"t.addr {ADDRS[cls]} pack {v or '-'}", f"t.addr {ADDRS[cls]} unpack "
    if cls == "String":
        return f"t.str pack {hexs(v.encode())}", "t.str unpack "
    if cls == "VarString":
        return f"t.var pack {hexs(v.encode())}", "t.var unpack "
    if cls == "VarBytes":
        return f"t.var pack {v or '-'}", "t.var unpack "
    raise KeyError(cls)


def unpack_op(cls):
    return model_ops(cls, 0 if cls in INTS or cls in FLOATS else "")[1]


def representable(cls, v):
    """the statement's 'representable value' of each type"""
    if cls in INTS:
        lo, hi = int_range(INTS[cls][1], INTS[cls][2])
        return lo <= v <= hi
    if cls in FLOATS:
        return 0 <= v < 256 ** FLOATS[cls][0]
    if cls in ADDRS:
        return len(v) == 2 * ADDRS[cls]
    if cls == "String":
        return "\0" not in v
    if cls == "VarString":
        return len(v.encode()) <= 255
    if cls == "VarBytes":
        return len(v) <= 2 * 255
    return False


def impl_pack(cls, v):
    T = getattr(dt, cls)
    try:
        o = T(ctor_value(cls, v))
        p = bytes(o.to_bytes())
        return p, int(o.size)
    except Exception as e:  # noqa: BLE001
        return None, type(e).__name__


def impl_unpack(cls, buf, offset):
    T = getattr(dt, cls)
    try:
        o = T.from_bytes(buf, offset)
        return canon_value(cls, o.value), int(o.size)
    except Exception as e:  # noqa: BLE001
        return None, type(e).__name__


def impl_bit(v, idx, prefix, rest):
    buf = prefix + (bytes([v]) if v is not None else b"") + rest
    try:
        o = dt.BitArray.from_bytes(buf, len(prefix))
        nxt = o.next(idx)
        return [int(bool(o.value)), int(o.size), int(nxt), bytes(o.to_bytes()).hex()]
    except Exception as e:  # noqa: BLE001
        return type(e).__name__


def run_seqs(seqs):
    """seqs: list of (schema fields, message bytes) -> list of decoded regdata dict / error name"""
    from pyplumio.devices.ecomax import EcoMAX
    from pyplumio.frames.messages import RegulatorDataMessage
    from pyplumio.frames.responses import RegulatorDataSchemaResponse
    from pyplumio.structures.network_info import NetworkInfo

    async def quiesce():
        me = asyncio.current_task()
        for _ in range(1000):
            if not [t for t in asyncio.all_tasks() if t is not me and not t.done()]:
                return
            await asyncio.sleep(0)
        raise RuntimeError("no quiescence")

    async def main():
        out = []
        for fields, message in seqs:
            device = EcoMAX(asyncio.Queue(), NetworkInfo())
            schema = len(fields).to_bytes(2, "little") + b"".join(
                bytes([tid]) + i.to_bytes(2, "little") for i, (tid, _) in enumerate(fields))
            try:
                device.handle_frame(RegulatorDataSchemaResponse(message=bytearray(schema)))
                await quiesce()
                frame = RegulatorDataMessage(message=bytearray(message))
                device.handle_frame(frame)
                await quiesce()
                rd = device.data.get("regdata")
                out.append({int(k): v for k, v in rd.items()} if rd is not None else "no-regdata")
            except Exception as e:  # noqa: BLE001
                out.append(type(e).__name__)
            await device.shutdown()
        return out

    return vloop.run(main())


# ---------------------------------------------------------------------------------------------


def run_cases(cases, res):
    # ---- phase A: pack on both sides
    reqs = []
    slots = []  # per case: index of its pack answer(s)
    for c in cases:
        if c["kind"] == "rt":
            slots.append(len(reqs))
            reqs.append(model_ops(c["cls"], c["v"])[0])
        elif c["kind"] == "seq":
            idx = []
            for tid, v in c["fields"]:
                cls = SEQ_TYPES[tid]
                if cls in ("BitArray", "Undefined"):
                    idx.append(None)
                else:
                    idx.append(len(reqs))
                    reqs.append(model_ops(cls, v)[0])
            slots.append(idx)
        else:
            slots.append(None)
    packs = driver_batch(reqs)
    # ---- phase B: unpack / bit / fields requests
    reqs2 = []
    slots2 = []
    impl = []
    seq_jobs = []
    for c, sl in zip(cases, slots):
        prefix = bytes.fromhex(c.get("prefix", ""))
        rest = bytes.fromhex(c.get("rest", ""))
        if c["kind"] == "rt":
            p, sz = impl_pack(c["cls"], c["v"])
            un = impl_unpack(c["cls"], prefix + p + rest, len(prefix)) if p is not None else None
            impl.append((p, sz, un))
            slots2.append(len(reqs2))
            # the model unpacks what the IMPLEMENTATION packed (if it packed), else its own packing
            src = p if p is not None else (bytes.fromhex(packs[sl].split()[0].replace("-", "")) if packs[sl] != "err" else b"")
            reqs2.append(unpack_op(c["cls"]) + hexs(src + rest))
        elif c["kind"] == "un":
            buf = bytes.fromhex(c["v"])
            impl.append(impl_unpack(c["cls"], prefix + buf, len(prefix)))
            slots2.append(len(reqs2))
            reqs2.append(unpack_op(c["cls"]) + hexs(buf))
        elif c["kind"] == "bit":
            impl.append(impl_bit(c["v"], c["idx"], prefix, rest))
            slots2.append(len(reqs2))
            reqs2.append(f"t.bit {c['idx']} {hexs((bytes([c['v']]) if c['v'] is not None else b'') + rest)}")
        elif c["kind"] == "seq":
            # lay the message out from the model's packings
            body = bytearray()
            cur, nbits = None, 0
            starts = []
            toks = []
            bad = False
            for (tid, v), pi in zip(c["fields"], sl):
                cls = SEQ_TYPES[tid]
                if cls == "BitArray":
                    if cur is None:
                        cur, nbits = c["fill"], 0
                    cur = (cur | (1 << nbits)) if v else (cur & ~(1 << nbits) & 0xFF)
                    nbits += 1
                    starts.append(None)
                    toks.append("b")
                    if nbits == 8:
                        body.append(cur)
                        cur = None
                    continue
                if cur is not None:
                    body.append(cur)
                    cur = None
                starts.append(5 + len(body))
                if cls == "Undefined":
                    pk = b""
                else:
                    if packs[pi] == "err":
                        bad = True
                        pk = b""
                    else:
                        pk = bytes.fromhex(packs[pi].split()[0].replace("-", ""))
                toks.append(f"o{len(pk)}")
                body += pk
            if cur is not None:
                body.append(cur)
            message = bytes([0x5A, 0xA5, 0, 1, 0]) + bytes(body) + bytes.fromhex(c["tail"])
            impl.append(dict(message=message, starts=starts, bad=bad))
            seq_jobs.append((len(impl) - 1, c["fields"], message))
            slots2.append(len(reqs2))
            reqs2.append(f"t.fields {hexs(message)} 5 " + " ".join(toks))
    answers = driver_batch(reqs2)
    seq_out = run_seqs([(f, m) for _, f, m in seq_jobs]) if seq_jobs else []
    for (ii, _, _), o in zip(seq_jobs, seq_out):
        impl[ii]["decoded"] = o

    # ---- compare
    for c, sl, sl2, im in zip(cases, slots, slots2, impl):
        cls = c["cls"]
        res.count(f"{c['kind']}:{cls}")
        if c["kind"] == "rt":
            p, sz, un = im
            mp = packs[sl]
            rep = representable(cls, c["v"])
            res.case(json.dumps([cls, c["v"], c["prefix"], c["rest"]]), nontrivial=rep and c["v"] not in (0, "", None))
            res.count("representable" if rep else "not-representable")
            if cls in ("String", "VarString") and rep:
                res.count("text:ascii" if c["v"].isascii() else "text:non-ascii")
            if c["rest"]:
                res.count("with-trailing-bytes")
            if c["prefix"]:
                res.count("at-offset>0")
            isnan = cls in FLOATS and model_value(cls, str(c["v"])) == "nan"
            obs = dict(packed=p.hex() if p is not None else None, size_or_error=sz,
                       unpacked=list(un) if un else None)
            # the property's own predicate on what the implementation did
            if rep:
                want = c["v"] if cls not in FLOATS else ("nan" if isnan else c["v"])
                if cls in ADDRS:
                    want = ctor_value(cls, c["v"])
                if p is None:
                    res.fail("spec", c, "a representable value packs", obs, "pack of a representable value raised")
                elif sz != len(p):
                    res.fail("spec", c, f"size == len(pack) == {len(p)}", obs, "reported size differs from the number of packed bytes")
                elif un[0] is None:
                    res.fail("spec", c, "unpack(pack(v) ++ rest) succeeds", obs, "unpacking the packed form raised")
                elif un[0] != want:
                    res.fail("spec", c, f"value {want!r}", obs, "unpacking the packed form returns a different value")
                elif un[1] != len(p):
                    res.fail("spec", c, f"consumes {len(p)} bytes", obs, "unpacking from a longer buffer consumes a different number of bytes")
            # correspondence with the model
            if mp == "err":
                if p is not None:
                    res.fail("corr", c, "model: pack raises", obs, "model and implementation differ on pack")
                continue
            mhex, msz = mp.split()
            if p is None:
                res.fail("corr", c, dict(model_pack=mp), obs, "model packs, implementation raises")
                continue
            if not isnan and (hexs(p) != mhex or sz != int(msz)):
                res.fail("corr", c, dict(model_pack=mp), obs, "model and implementation differ on pack / size")
            ma = answers[sl2]
            if ma == "err":
                if un[0] is not None:
                    res.fail("corr", c, "model: unpack raises", obs, "model and implementation differ on unpack")
            else:
                mv, mn = ma.rsplit(" ", 1)
                if un[0] is None or un[0] != model_value(cls, mv) or un[1] != int(mn):
                    res.fail("corr", c, dict(model_unpack=ma), obs, "model and implementation differ on unpack value / size")
            if len(res.samples) < 8 and rep and cls not in [s["cls"] for s in res.samples] and c["v"] not in (0, ""):
                res.sample(dict(cls=cls, value=c["v"], prefix=c["prefix"], rest=c["rest"], packed=p.hex(), size=sz,
                                unpacked_value=un[0], unpacked_size=un[1]))
        elif c["kind"] == "un":
            res.case(json.dumps([cls, "un", c["v"], c["prefix"]]), nontrivial=len(c["v"]) > 0)
            ma = answers[sl2]
            obs = list(im)
            # the statement on an arbitrary buffer: its first `size` bytes ARE the packed form of exactly one representable
            # integer / address (little endian, two's complement; the byte tuple), so unpacking must return that value
            # and account for exactly `size` bytes -- whatever follows
            buf = bytes.fromhex(c["v"])
            if cls in INTS and len(buf) >= INTS[cls][1]:
                want = [int.from_bytes(buf[:INTS[cls][1]], "little", signed=INTS[cls][2]), INTS[cls][1]]
                if obs != want:
                    res.fail("spec", c, dict(value=want[0], size=want[1]), obs,
                             "unpacking the packed form of a representable value (followed by arbitrary bytes) returns another value / size")
                elif ma != "err" and [int(ma.rsplit(" ", 1)[0]), int(ma.rsplit(" ", 1)[1])] != want:
                    res.fail("corr", c, dict(model_unpack=ma), want, "model value of a packed integer differs from the wire layout")
            elif cls in ADDRS and len(buf) >= ADDRS[cls]:
                want = [ctor_value(cls, buf[:ADDRS[cls]].hex()), ADDRS[cls]]
                if obs != want:
                    res.fail("spec", c, dict(value=want[0], size=want[1]), obs,
                             "unpacking the packed form of an address (followed by arbitrary bytes) returns another value / size")
            if ma == "err":
                res.count("unpack:error")
                if im[0] is not None:
                    res.fail("corr", c, "model: unpack raises", obs, "model and implementation differ on unpack of an arbitrary buffer")
            else:
                mv, mn = ma.rsplit(" ", 1)
                if im[0] is None or im[0] != model_value(cls, mv) or im[1] != int(mn):
                    res.fail("corr", c, dict(model_unpack=ma), obs, "model and implementation differ on unpack of an arbitrary buffer")
        elif c["kind"] == "bit":
            res.case(json.dumps(["bit", c["v"], c["idx"], c["prefix"], c["rest"]]), nontrivial=c["v"] is not None)
            ma = answers[sl2]
            if c["v"] is not None:
                want = [(c["v"] >> c["idx"]) & 1, 1 if c["idx"] == 7 else 0, (c["idx"] + 1) % 8, bytes([c["v"]]).hex()]
                if im != want:
                    res.fail("spec", c, dict(value_size_next_pack=want), im,
                             "bit field: value is bit `index` of the shared byte, released (size 1) after bit 7")
            mm = ma if ma == "err" else [int(x) if i < 3 else x for i, x in enumerate(ma.split())]
            if (mm == "err") != isinstance(im, str) or (mm != "err" and mm != im):
                res.fail("corr", c, mm, im, "model and implementation differ on a bit field")
        elif c["kind"] == "seq":
            nb = sum(1 for t, _ in c["fields"] if t == 10)
            res.case(json.dumps(c["fields"]), nontrivial=nb > 0 and nb < len(c["fields"]))
            res.count("seq:bits=%s" % ("0" if nb == 0 else "1-7" if nb < 8 else "8-16" if nb <= 16 else ">16"))
            if any(SEQ_TYPES[t] == "String" and v and not v.isascii() for t, v in c["fields"]):
                res.count("seq:with-non-ascii-string")
            dec = im.get("decoded")
            ma = answers[sl2]
            obs = dict(message=im["message"].hex(), decoded=repr(dec)[:600])
            if im["bad"]:
                continue
            # property predicate: every field comes back, so every field was positioned by the sizes before it
            ok = isinstance(dec, dict) and len(dec) == len(c["fields"])
            if ok:
                for i, (tid, v) in enumerate(c["fields"]):
                    cls_i = SEQ_TYPES[tid]
                    got = dec.get(i)
                    if cls_i == "BitArray":
                        ok = ok and got is bool(v)
                    elif cls_i == "Undefined":
                        ok = ok and got is None
                    else:
                        want = v if cls_i not in ADDRS else ctor_value(cls_i, v)
                        ok = ok and canon_value(cls_i, got) == want
            if not ok:
                res.fail("spec", c, "every field of the sequence decodes to the value that was packed", obs,
                         "a field sequence is not recovered: some field's size does not position the next field")
            if ma == "err":
                res.fail("corr", c, "model: err", obs, "model rejects a well-formed field sequence")
                continue
            toks, _, cur = ma.partition(" ; ")
            toks = toks.split()
            mstarts = [int(t[1:]) if t.startswith("@") else None for t in toks]
            if mstarts != im["starts"]:
                res.fail("corr", c, dict(model_starts=mstarts), dict(layout_starts=im["starts"]), "model cursor and wire layout differ")
            if isinstance(dec, dict):
                mbits = [t == "1" for t in toks if not t.startswith("@")]
                ibits = [dec.get(i) for i, (tid, _) in enumerate(c["fields"]) if tid == 10]
                if mbits != ibits:
                    res.fail("corr", c, dict(model_bits=mbits), dict(impl_bits=ibits), "model and implementation differ on bit values of a run")
            if nb and not any(s.get("cls") == "RegulatorData" for s in res.samples):
                res.sample(dict(cls="RegulatorData", fields=c["fields"], message=im["message"].hex(), model=ma), limit=10)


# ---------------------------------------------------------------------------------------------
# complete sweeps of the finite wire types: every byte pattern AND every representable value of the 8- and 16-bit integer
# classes, every (byte, index) of a bit field -- each with fixed trailing-byte / offset variants.  Judged against the wire layout
# (little endian, two's complement; bit `index` of the byte) and compared with the model, one driver batch for everything.

SWEEP_AFFIXES = [(b"", b""), (b"", b"\x00"), (b"", b"\xff"), (b"\x5a", b"\xa5\x00\xff"), (b"\x00\xff", b"\x80")]


def sweep_affixes(x, size):
    """8-bit: every variant; 16-bit: no affix, and one of the others in rotation"""
    if size == 1:
        return SWEEP_AFFIXES
    return [SWEEP_AFFIXES[0], SWEEP_AFFIXES[1 + x % (len(SWEEP_AFFIXES) - 1)]]


def sweep_jobs(stride=1):
    """(mode, cls, x, prefix, rest); stride > 1 thins the 16-bit sweeps only (never used by the tiers: both enumerate completely)"""
    for cls, (ty, size, signed) in INTS.items():
        if size > 2:
            continue
        lo, hi = int_range(size, signed)
        step = stride if size == 2 else 1
        for n in range(0, 256 ** size, step):
            for prefix, rest in sweep_affixes(n, size):
                yield ("pattern", cls, n, prefix, rest)
        for v in range(lo, hi + 1, step):
            for prefix, rest in sweep_affixes(v - lo, size):
                yield ("value", cls, v, prefix, rest)
    for b in range(256):
        for idx in range(8):
            for k, (prefix, rest) in enumerate(SWEEP_AFFIXES + [(b"", bytes([b ^ 0xFF]))]):
                yield ("bit" if (b + idx + k) % 2 else "bit-positioned-first", "BitArray", (b, idx), prefix, rest)


def sweep_one(job):
    """run one job on the implementation: (clause violated or None, observed, expected, model request, expected model answer)"""
    mode, cls, x, prefix, rest = job
    try:
        if mode == "pattern":
            ty, size, signed = INTS[cls]
            T = getattr(dt, cls)
            buf = x.to_bytes(size, "little")
            want = int.from_bytes(buf, "little", signed=signed)
            o = T.from_bytes(prefix + buf + rest, len(prefix))
            val, sz = o.value, o.size
            back = bytes(o.to_bytes())
            obs = [val, sz, back.hex()]
            exp = [want, size, buf.hex()]
            clause = None
            if type(val) is not int or val != want:
                clause = "unpacking the packed form of a representable value (followed by arbitrary bytes) returns another value"
            elif sz != size:
                clause = "unpacking from a longer buffer consumes a different number of bytes than the packed form occupies"
            elif back != buf:
                clause = "packing the unpacked value does not give back the buffer it was unpacked from"
            return clause, obs, exp, f"t.int {ty} unpack {hexs(buf + rest)}", f"{want} {size}"
        if mode == "value":
            ty, size, signed = INTS[cls]
            T = getattr(dt, cls)
            o = T(x)
            p = bytes(o.to_bytes())
            sz = o.size
            wantp = x.to_bytes(size, "little", signed=signed)
            o2 = T.from_bytes(prefix + p + rest, len(prefix))
            obs = [p.hex(), sz, o2.value, o2.size]
            exp = [wantp.hex(), size, x, size]
            clause = None
            if sz != len(p):
                clause = "reported size differs from the number of packed bytes"
            elif type(o2.value) is not int or o2.value != x:
                clause = "unpacking the packed form returns a different value"
            elif o2.size != len(p):
                clause = "unpacking from a longer buffer consumes a different number of bytes"
            elif p != wantp:
                clause = "the packed form is not the little-endian two's-complement form of the value"
            return clause, obs, exp, f"t.int {ty} pack {x}", f"{hexs(wantp)} {size}"
        b, idx = x
        buf = prefix + bytes([b]) + rest
        if mode == "bit":
            o = dt.BitArray.from_bytes(buf, len(prefix))
            nxt = o.next(idx)
            obs = [int(bool(o.value)), int(o.size), int(nxt), bytes(o.to_bytes()).hex()]
        else:      # the regulator-data order: positioned first (by the constructor), loaded afterwards, read BEFORE any next()
            o = dt.BitArray(index=idx)
            o.unpack(buf[len(prefix):])
            obs = [int(bool(o.value)), int(o.size), None, bytes(o.to_bytes()).hex()]
            obs[2] = int(o.next(idx))
        exp = [(b >> idx) & 1, 1 if idx == 7 else 0, (idx + 1) % 8, bytes([b]).hex()]
        clause = None if obs == exp and type(o.value) is bool else \
            "bit field: value is bit `index` of the shared byte, released (size 1) after bit 7, packs to the shared byte"
        return clause, obs, exp, f"t.bit {idx} {hexs(bytes([b]) + rest)}", " ".join(map(str, exp))
    except Exception as e:  # noqa: BLE001 -- every job is a representable value / a long enough buffer: nothing may raise
        return "a representable value / a sufficient buffer raised", type(e).__name__, None, None, None


def sweep_input(job):
    mode, cls, x, prefix, rest = job
    return dict(kind="sweep", mode=mode, cls=cls, x=list(x) if isinstance(x, tuple) else x, prefix=prefix.hex(), rest=rest.hex())


def run_sweep(res, jobs=None, complete=True):
    reqs, wants, jl = [], [], []
    n = collections.Counter()
    for job in (sweep_jobs() if jobs is None else jobs):
        clause, obs, exp, req, want = sweep_one(job)
        n[f"sweep:{job[1]}:{'bit' if job[0].startswith('bit') else job[0]}"] += 1
        if clause:
            res.fail("spec", sweep_input(job), exp, obs, clause)
        if req is not None:
            reqs.append(req)
            wants.append(want)
            jl.append(job)
    answers = driver_batch(reqs)
    for job, req, want, ans in zip(jl, reqs, wants, answers):
        if ans != want:
            res.fail("corr", sweep_input(job), dict(wire_layout=want), dict(model=ans, request=req),
                     "model differs from the wire layout on a swept value / buffer")
    for k, v in n.items():
        res.count(k, v)
    total = sum(n.values())
    res.evaluations += total
    res.nontrivial.add(("sweep", total))
    if jobs is None and complete:
        res.extra["sweep_enumerated_completely"] = dict(
            byte_patterns={cls: 256 ** INTS[cls][1] for cls in INTS if INTS[cls][1] <= 2},
            representable_values={cls: 256 ** INTS[cls][1] for cls in INTS if INTS[cls][1] <= 2},
            bit_fields="256 bytes x 8 indexes x 6 trailing / offset variants, unpack-then-position and position-then-unpack",
            affixes="8-bit: all 5 (prefix, trailing) variants; 16-bit: none + one of 4 in rotation", calls=total)


RULE = ("per wire type: boundary values of every integer type (min, max, +-1, powers of two +-1, byte patterns, just outside the range), "
        "random interior; float/double bit patterns (zeros, subnormals, infinities, NaNs, random); IPv4/IPv6 byte tuples; "
        "Unicode strings over 1/2/3/4-byte alphabets and arbitrary scalar values; length-prefixed values around the 255-byte limit; "
        "each read at a random offset and followed by random trailing bytes; arbitrary (also too short / invalid UTF-8) buffers; "
        "all 256 bytes x 8 indexes of a bit field; COMPLETE sweeps: all 256 / 65536 byte patterns and all representable values of SignedChar, "
        "UnsignedChar, Short, UnsignedShort (from_bytes value / size / re-pack against the wire layout and the model, with trailing bytes and offsets), "
        "all 256 x 8 bit fields x 6 affix variants in both orders (unpack-then-position, position-then-unpack); random field sequences (bit runs crossing byte boundaries, strings, numbers) "
        "decoded by a real EcoMAX device. distinct = distinct (type, value, offset, trailing bytes); "
        "non-trivial = representable and not the zero/empty value")


def run(ctx):
    rng = random.Random(ctx["seed"] * 104729 + 19)
    res = Result("C19")
    res.rule = RULE
    cases = []
    for fn, ln in load_corpus("C19"):
        cases.append(json.loads(ln))
    cases.extend(gen_cases(rng, ctx["tier"]))
    if ctx.get("max_cases"):
        cases = cases[: ctx["max_cases"]]
    import reuse
    from common import Parts
    parts = Parts(res)
    import pycode_types  # translator validation: generated class methods vs the real methods (harness/pycode_types.py)
    parts.run("translated classes vs the real methods", pycode_types.check, res, random.Random(ctx["seed"] * 7919 + 78), ctx["tier"], ["types"])
    parts.run("wire types: pack / unpack / size / field sequences", run_cases, cases, res)
    if not ctx.get("max_cases"):
        parts.run("complete sweeps (8/16-bit integers, bit fields)", run_sweep, res)
    parts.run("instance re-use", reuse.datatype_reuse, res, random.Random(ctx["seed"] * 31 + 1919), 1500 if ctx["tier"] == "quick" else 60000)
    parts.run("operation sequences", reuse.datatype_sequences, res, random.Random(ctx["seed"] * 37 + 1920), 1500 if ctx["tier"] == "quick" else 40000)
    parts.finish()
    res.notes.append("object re-use: to_bytes / unpack / to_bytes sequences on one instance compared with a fresh instance, "
                     "and operation sequences (construct / pack / unpack / size / value / next) compared with the Lean instance model after every step")
    res.extra["bit_fields_enumerated_completely"] = True
    return res


def replay(ctx):
    f = ctx["replay"].get("failure") or ctx["replay"].get("first_difference")
    res = Result("C19")
    res.rule = "replay of one recorded case"
    if f["input"].get("t") in ("datatype_reuse", "bit_reuse", "datatype_sequence"):
        import reuse
        for sd in range(100):
            reuse.datatype_reuse(res, random.Random(sd), 100)
            reuse.datatype_sequences(res, random.Random(sd), 100)
        return res
    if f["input"].get("kind") == "sweep":
        i = f["input"]
        x = tuple(i["x"]) if isinstance(i["x"], list) else i["x"]
        run_sweep(res, jobs=[(i["mode"], i["cls"], x, bytes.fromhex(i["prefix"]), bytes.fromhex(i["rest"]))])
        res.sample(i)
        return res
    run_cases([f["input"]], res)
    res.sample(f["input"])
    return res
